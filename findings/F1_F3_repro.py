"""F1-F3 (C03): Agent.add_component / remove_component on a resident agent are not mirrored in the pools.
Triage evidence only (not part of any check).  Exit 0 when all three findings reproduce."""
from ECAgent.Core import Model, Agent, Component


class C1(Component):
    pass


m = Model()
a = Agent('a', m)
m.environment.add_agent(a)
a.add_component(C1(a, m))
f1 = m.systems[C1] is None                      # F1: attached while resident, not listed
print('F1 listing after attach while resident:', m.systems[C1])

m2 = Model()
b = Agent('b', m2)
b.add_component(C1(b, m2))
m2.environment.add_agent(b)
b.remove_component(C1)
f2 = m2.systems[C1] is not None and len(m2.systems[C1]) == 1   # F2: detached while resident, still listed
print('F2 listing after detach while resident:', m2.systems[C1])

try:
    m.environment.remove_agent('a')             # F3: removal of a present agent fails, agent stays
    f3 = False
except KeyError as e:
    f3 = m.environment.get_agent('a') is a
    print('F3 remove_agent raised KeyError, agent still resident:', f3)
raise SystemExit(0 if (f1 and f2 and f3) else 1)
