"""D1 (C09): get_cell's range check uses the raw extents; D3 (C09/C10): id strides use raw width/height.
Exit 0 when behaviour is correct."""
from ECAgent.Core import Model
from ECAgent.Environments import LineWorld, GridWorld, DiscreteWorld

ok = True
m = Model()
try:
    r = LineWorld(m, 5).get_cell(2)
    print('D1 LineWorld(5).get_cell(2) ->', tuple(r['pos']))
    ok &= tuple(r['pos']) == (2, 0, 0)
except IndexError as e:
    print('D1 LineWorld(5).get_cell(2) -> IndexError:', e)
    ok = False
try:
    r = GridWorld(m, 3, 4).get_cell(1, 2)
    print('D1 GridWorld(3,4).get_cell(1,2) ->', tuple(r['pos']))
    ok &= tuple(r['pos']) == (1, 2, 0)
except IndexError as e:
    print('D1 GridWorld(3,4).get_cell(1,2) -> IndexError:', e)
    ok = False
w = DiscreteWorld(m, 0, 0, 3)
ids = w.get_moore_neighbours((0, 0, 1), radius=1, incl_center=True, ret_type=int)
print('D3 DiscreteWorld(0,0,3) ids of the three cells ->', ids, '(expected [0, 1, 2])')
ok &= ids == [0, 1, 2]
w2 = DiscreteWorld(m, 0, 2, 2)
ids2 = w2.get_neumann_neighbours((0, 0, 0), radius=3, incl_center=True, ret_type=int)
tup2 = w2.get_neumann_neighbours((0, 0, 0), radius=3, incl_center=True, ret_type=tuple)
back = [w2.cells['pos'][i] for i in ids2]
print('D3 DiscreteWorld(0,2,2) ids ->', ids2, 'denote', back, 'coordinate form', tup2)
ok &= back == tup2
try:
    r = w2.get_cell(0, 1, 1)
    ok &= tuple(r['pos']) == (0, 1, 1)
    print('D1/D3 DiscreteWorld(0,2,2).get_cell(0,1,1) ->', tuple(r['pos']))
except IndexError as e:
    print('D1 DiscreteWorld(0,2,2).get_cell(0,1,1) -> IndexError:', e)
    ok = False
raise SystemExit(0 if ok else 1)
