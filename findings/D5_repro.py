"""D5 (C05): the scheduler iterates the live queue. Not part of any check - triage evidence only.
Run: /venv/bin/python /verif/findings/D5_repro.py   (prints the per-step execution log)"""
from ECAgent.Core import Model, System

log = []


class K(System):          # removes itself while running
    def execute(self):
        log.append(self.id)
        self.clean_up()


class S(System):
    def execute(self):
        log.append(self.id)


class Adder(System):      # registers a higher-priority system while running
    def __init__(self, id, model):
        super().__init__(id, model)
        self.done = False

    def execute(self):
        log.append(self.id)
        if not self.done:
            self.done = True
            self.model.systems.add_system(S('hi', self.model, priority=5))


class Remover(System):    # removes a later system and re-registers another object under the same id
    def execute(self):
        log.append(self.id)
        if 'victim' in self.model.systems.systems and not getattr(self.model, 'x', None):
            self.model.systems.remove_system('victim')


m = Model()
m.systems.add_system(K('k', m))
m.systems.add_system(S('s', m))
m.execute()
print('self-removal, expected [k, s]      :', log)
ok1 = log == ['k', 's']

log.clear()
m = Model()
m.systems.add_system(Adder('a', m))
m.systems.add_system(S('b', m))
m.execute()
print('insertion, expected a once then b  :', log)
ok2 = log.count('a') == 1 and 'b' in log

log.clear()
m = Model()
m.systems.add_system(Remover('r', m, priority=1))
m.systems.add_system(S('victim', m))
m.systems.add_system(S('z', m))
m.execute()
print('removal of a later system, expected [r, z]:', log)
ok3 = log == ['r', 'z']
raise SystemExit(0 if (ok1 and ok2 and ok3) else 1)
