"""F4 (C11): LookupGenerator dispatches on int / 2-tuple positions but worlds always supply 3-tuples.
Exit 0 when the finding reproduces."""
from ECAgent.Core import Model
from ECAgent.Environments import GridWorld, LineWorld, LookupGenerator

m = Model()
rep = 0
try:
    GridWorld(m, 2, 2).add_cell_component('l', LookupGenerator([[1, 2], [3, 4]]))
    print('GridWorld 2-D table accepted')
except TypeError as e:
    print('GridWorld + 2-D lookup table -> TypeError:', e)
    rep += 1
try:
    LineWorld(m, 3).add_cell_component('l', LookupGenerator([1, 2, 3]))
    print('LineWorld 1-D table accepted')
except TypeError as e:
    print('LineWorld + 1-D lookup table -> TypeError:', e)
    rep += 1
raise SystemExit(0 if rep == 2 else 1)
