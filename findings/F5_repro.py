"""F5 (C12): get_agents_at ignores wrap_env.  Exit 0 when the finding reproduces."""
from ECAgent.Core import Model, Agent
from ECAgent.Environments import SpaceWorld

m = Model()
w = SpaceWorld(m, 10, 10, 10, wrap_env=True)
m.set_environment(w)
w.add_agent(Agent('a', m), 9.5, 0, 0)
got = [a.id for a in w.get_agents_at(0, 0, 0, leeway=1)]
print('agent at x=9.5 in a wrapping world of width 10, query x=0 leeway 1 ->', got, '(seam distance is 0.5)')
raise SystemExit(0 if got == [] else 1)
