"""D6 (C20): Agent.__init__ reads the default tag from the literal base class.  Exit 0 when behaviour is correct."""
from ECAgent.Core import Model, Agent


class CA(Agent):
    pass


class CB(CA):
    pass


m = Model()
CA.tag = 5
vals = (CA('a', m).tag, CB('b', m).tag, Agent('c', m).tag, CA('d', m, tag=0).tag)
print('CA default, CB default, Agent default, explicit 0 ->', vals, '(expected (5, 0, 0, 0))')
raise SystemExit(0 if vals == (5, 0, 0, 0) else 1)
