"""D9 (C04): Environment.add_agent built its DuplicateAgentError from self.model.environment instead of self.
Run: PYTHONPATH=/repo /venv/bin/python findings/D9_repro.py   (exit 0 = fixed behaviour, 1 = defect present)
Documentation only; no check runs this."""
import sys
from ECAgent.Core import Environment, Agent, Model, DuplicateAgentError

bad = []
env = Environment(None)                      # the test suite itself builds environments without a model
env.add_agent(Agent('a', None))
try:
    env.add_agent(Agent('a', None))
    bad.append('duplicate accepted')
except DuplicateAgentError:
    pass
except Exception as e:                        # pinned tree: AttributeError: 'NoneType' object has no attribute 'environment'
    bad.append(f"model-less environment: {type(e).__name__}: {e}")
assert list(env.agents) == ['a']

m = Model()
other = Environment(m, id='other')            # a second environment of the same model
other.add_agent(Agent('x', m))
try:
    other.add_agent(Agent('x', m))
except DuplicateAgentError as e:
    if e.environment is not other:            # pinned tree: names the model's installed environment "ENVIRONMENT"
        bad.append(f"error names environment {e.environment.id!r}, not 'other'")
print('\n'.join(bad) or 'ok')
sys.exit(1 if bad else 0)
