"""D4 (C19): tag names land in the namespace that also resolves the library's own operations.
Exit 0 when behaviour is correct (hostile names are rejected and the library keeps working)."""
import importlib
import ECAgent.Tags as Tags      # note: `from ECAgent.Tags import X` is unusable (module __getattr__ raises TagNotFoundError for __path__)
TagLibrary, DuplicateTagError = Tags.TagLibrary, Tags.DuplicateTagError

ok = True
lib = TagLibrary()
for hostile in ('add_tag', 'itemize', 'get_tag_name', '__len__', '__class__'):
    try:
        lib.add_tag(hostile)
        print('instance library accepted', repr(hostile))
        ok = False
    except DuplicateTagError:
        pass
try:
    lib.add_tag('X')
    print('after hostile names: add_tag works, X ->', lib.X, 'items', lib.itemize(), 'len', len(lib))
    ok &= lib.X == 1 and lib.itemize() == [('NONE', 0), ('X', 1)] and len(lib) == 2
except TypeError as e:
    print('library corrupted:', e)
    ok = False
importlib.reload(Tags)
try:
    Tags.add_tag('TagLibrary')
    print("global library accepted 'TagLibrary'; Tags.TagLibrary is", Tags.TagLibrary, '(the id is unreachable by name)')
    ok = False
except Tags.DuplicateTagError:
    pass
Tags.add_tag('SHEEP')
ok &= Tags.SHEEP == 1 and Tags.get_tag_name(1) == 'SHEEP'
raise SystemExit(0 if ok else 1)
