"""D8 (C16): grid_search's arg-min loop starts from +/-sys.maxsize.  Exit 0 when behaviour is correct."""
from ECAgent.Core import Model
from ECAgent.Batching import grid_search, ScoreMode


class M(Model):
    def __init__(self, v):
        super().__init__()
        self.v = v
        self.complete()


best, results = grid_search(M, {'v': [1e30, 2e30, 3e30]}, lambda m: m.v, mode=ScoreMode.MIN)
print('MIN over scores 1e30, 2e30, 3e30 -> best v =', best['v'], '(expected 1e30)')
ok = best['v'] == 1e30
best, results = grid_search(M, {'v': [-1e30, -2e30, -3e30]}, lambda m: m.v, mode=ScoreMode.MAX)
print('MAX over scores -1e30, -2e30, -3e30 -> best v =', best['v'], '(expected -1e30)')
ok &= best['v'] == -1e30
raise SystemExit(0 if ok else 1)
