#!/bin/sh
# usage: tools/seedall.sh C02 C04 ...   (runs intake for k=1,2 of each, records confirmed ones, prints a compact summary)
for id in "$@"; do for k in 1 2; do
  if [ -f /tmp/seed/$id/SEED/patch$k.diff ]; then
    /venv/bin/python tools/seedintake.py $id $k /tmp/seed/$id/SEED --record 2>&1 | /venv/bin/python -c "
import sys,json
t=sys.stdin.read()
try:
    j=json.loads(t[:t.rindex('}')+1])
except Exception as e:
    print('PARSE-FAIL',t[-300:]); sys.exit()
own=j.get('own_check',{}).get('rc')
print(j['name'],'confirmed=',j.get('confirmed'),'suite',j.get('suite_passed'),'demo',j.get('demo_clean_rc'),j.get('demo_changed_rc'),'OWN rc',own, 'others', [q for q in j.get('detected_by',{}) if q!=j['property']])
for q,v in j.get('detected_by',{}).items():
    if v['lines']: print('    ',q,v['rc'],v['lines'][0][:230])
"
  fi
done; done
