#!/venv/bin/python
"""Write /verif/seeded/INDEX.md: one row per seeded change (from seeded/*/meta.json) - what was changed, how the property's
own check reports it, which other checks report it too.  `--summary` prints per-property counts for DESIGN.md."""
import json, os, re, glob, sys
rows = []
for d in sorted(glob.glob('/verif/seeded/C*')):
    m = json.load(open(os.path.join(d, 'meta.json')))
    name = os.path.basename(d)
    notes = m.get('breaks', '')
    first = re.sub(r'\s+', ' ', notes.replace('#', '').replace('|', '/').strip())
    first = re.sub(r'\*\*', '', first)[:260]
    own = m.get('detected_by', {}).get(m['property'], [])
    rule = ''
    if own:
        mm = re.search(r': (R-[A-Z]+): (.*)', own[0])
        rule = f"{mm.group(1)}: {mm.group(2)[:170]}" if mm else own[0][:180]
    rule = rule.replace('|', '/')
    exp = m.get('expect') or 'BREAKS'
    verdict = {'BREAKS': 'VIOLATION', 'INCONCLUSIVE': 'INCONCLUSIVE (exit 2)', 'MISSED': 'not reported'}.get(exp, exp)
    others = [q for q in m.get('detected_by', {}) if q != m['property']]
    rows.append((name, m['property'], first, verdict, rule, ', '.join(others)))
if '--summary' in sys.argv:
    by = {}
    for name, pid, first, verdict, rule, others in rows:
        b = by.setdefault(pid, [0, 0, []])
        b[0] += 1
        if verdict == 'VIOLATION':
            b[1] += 1
        else:
            b[2].append(f"{name} ({verdict})")
    print('| property | seeded changes | reported as VIOLATION by its own check | not reported |')
    print('|---|---|---|---|')
    for pid in sorted(by):
        n, k, miss = by[pid]
        print(f"| {pid} | {n} | {k} | {', '.join(miss) or '-'} |")
    print(f"| all | {sum(v[0] for v in by.values())} | {sum(v[1] for v in by.values())} | |")
else:
    out = ['# Seeded changes', '',
           'Each row is one source change written by a sub-agent that saw only the property text and a scratch worktree; every one keeps',
           'the 110 tests green and comes with a demo that passes on the clean tree and fails with the change (`seeded/<id>/demo.py`).',
           'Verdicts are those of `./vcheck <property> --repo <tree with the change>`; the thorough tier replays every patch in memory.', '',
           '| seed | what was changed (author\'s notes) | own check | rule that fires | also reported by |', '|---|---|---|---|---|']
    for name, pid, first, verdict, rule, others in rows:
        out.append(f"| {name} | {first} | {verdict} | {rule or '-'} | {others or '-'} |")
    open('/verif/seeded/INDEX.md', 'w').write('\n'.join(out) + '\n')
    print(f"wrote /verif/seeded/INDEX.md ({len(rows)} rows)")
