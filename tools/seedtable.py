#!/venv/bin/python
"""Print the markdown table of seeded changes (from seeded/*/meta.json) for DESIGN.md."""
import json, os, re, glob
rows = []
for d in sorted(glob.glob('/verif/seeded/*')):
    m = json.load(open(os.path.join(d, 'meta.json')))
    name = os.path.basename(d)
    notes = m.get('breaks', '')
    first = re.sub(r'\s+', ' ', notes.replace('#', '').strip())
    first = re.sub(r'\*\*', '', first)[:230]
    own = m.get('detected_by', {}).get(m['property'], [])
    rule = ''
    if own:
        mm = re.search(r': (R-[A-Z]+): (.*)', own[0])
        if mm:
            rule = f"{mm.group(1)}: {mm.group(2)[:150]}"
        else:
            rule = own[0][:160]
    others = [q for q in m.get('detected_by', {}) if q != m['property']]
    rows.append((name, m['property'], first, rule, ', '.join(others)))
print('| seed | what was changed (from the author\'s notes) | reported by the property\'s own check as | also reported by |')
print('|------|------------------------------------------|------------------------------------------|------------------|')
for name, pid, first, rule, others in rows:
    print(f"| {name} | {first} | {rule} | {others or '-'} |")
