#!/venv/bin/python
"""Record the parameter names of every function of the package at the pinned tree (sa/signatures.json).

A parameter that is NOT in this table is an *extension parameter*: the properties are stated over the documented API, so a
function is analysed with such a parameter at its default value - unless some call inside the package passes it, in which case the
non-default behaviour is reachable from the documented API and the parameter stays symbolic (see Walker.extension_defaults)."""
import json, os, sys
sys.path.insert(0, os.path.dirname(os.path.dirname(os.path.abspath(__file__))))
from sa.loader import Program
p = Program.from_repo(sys.argv[1] if len(sys.argv) > 1 else '/repo')
out = {}
for f in p.all_functions:
    a = f.node.args
    names = [x.arg for x in a.posonlyargs + a.args + a.kwonlyargs]
    if a.vararg:
        names.append('*' + a.vararg.arg)
    if a.kwarg:
        names.append('**' + a.kwarg.arg)
    out[f.qualname.split('@')[0]] = names
    out['#pos:' + f.qualname.split('@')[0]] = [x.arg for x in a.posonlyargs + a.args]
    import ast as _ast
    defs = {}
    for nm in names:
        d = f.param_default(nm) if not nm.startswith('*') else None
        if d is not None:
            src = _ast.unparse(d)
            # a default that names an imported constant is recorded under the constant's own dotted name (`maxsize` -> `sys.maxsize`),
            # so that `import sys` + `sys.maxsize` is the same default later
            if isinstance(d, (_ast.Name, _ast.Attribute)):
                r = p.resolve_name(d.id, f.module) if isinstance(d, _ast.Name) else p.resolve_expr_static(d, f.module)
                if r is not None and r[0] == 'ext' and isinstance(r[1], str):
                    src = r[1]
            defs[nm] = src
    if defs:
        out['#def:' + f.qualname.split('@')[0]] = defs
dst = os.path.join(os.path.dirname(os.path.dirname(os.path.abspath(__file__))), 'sa', 'signatures.json')
json.dump(out, open(dst, 'w'), indent=0, sort_keys=True)
print(len(out), 'signatures ->', dst)
