#!/bin/sh
# usage: tools/seed1.sh C01-14 [Cnn ...]  -> applies seeded/C01-14/patch.diff to a scratch copy and runs the given checks (default: its own)
n=$1; shift
d=/tmp/sv/s-$n
rm -rf $d; mkdir -p $d; git -C /repo archive HEAD | tar -x -C $d; (cd $d && patch -p1 -s < /verif/seeded/$n/patch.diff) || exit 3
ids="$@"; [ -z "$ids" ] && ids="${n%%-*}"
for c in $ids; do /verif/vcheck $c --repo $d --no-selftest --no-evidence | grep -E ": R-|ANALY|exit=" | cut -c1-${W:-420} | sed "s/^/$c /"; done
[ -n "$KEEP" ] || rm -rf $d
