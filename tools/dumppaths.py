#!/venv/bin/python
"""Debug aid: print the CFG paths of one function compactly.  usage: tools/dumppaths.py <qualname> [unroll] [maxpaths]"""
import sys, os
sys.path.insert(0, os.path.dirname(os.path.dirname(os.path.abspath(__file__))))
from sa.loader import Program
from sa.walker import Walker, WalkOptions
p = Program.from_repo(os.environ.get('VERIF_REPO', '/repo'))
w = Walker(p)
fn = p.func(sys.argv[1])
unroll = int(sys.argv[2]) if len(sys.argv) > 2 else 1
mx = int(sys.argv[3]) if len(sys.argv) > 3 else 6
ps = w.paths(fn, WalkOptions(unroll=unroll))
print(len(ps), 'paths')
for pa in ps[:mx]:
    print('==', pa.end, '| cond:', repr(pa.cond)[:300])
    for e in pa.events:
        d = e.data
        if e.kind == 'call':
            s = f"{d.get('callee_name')} recv={d.get('recv')!r} args={d.get('args')!r} kw={d.get('kw')!r} -> {repr(d.get('result'))[:120]}"
        elif e.kind == 'store':
            s = f"{d.get('store')} target={d.get('target')!r} key={d.get('key')!r} value={repr(d.get('value'))[:100]} loc={d.get('loc')} root={d.get('root_kind')}"
        elif e.kind == 'assign':
            s = f"{d.get('name')} = {repr(d.get('value'))[:160]}"
        elif e.kind == 'cond':
            s = repr(d.get('formula'))[:200]
        elif e.kind in ('loop',):
            s = repr(d.get('iter'))[:160]
        elif e.kind == 'iter':
            s = f"k={d.get('k')} info={ {k: repr(v)[:60] for k, v in d['info'].items()} }"
        elif e.kind == 'return':
            s = repr(d.get('value'))[:200]
        else:
            s = str({k: repr(v)[:60] for k, v in d.items()})
        print(f"   {e.line:4d} {e.kind:8s} L{len(e.loops)} {s}")
