#!/bin/sh
# usage: tools/seedround.sh <prefix> <offset> <count> Cnn ...   e.g. tools/seedround.sh D 4 3 C01 C02  -> intake /tmp/seed/D01/SEED patch1..3 as C01-5..7
pre=$1; off=$2; cnt=$3; shift 3
for id in "$@"; do n=${id#C}; k=1; while [ $k -le $cnt ]; do
  if [ -f /tmp/seed/$pre$n/SEED/patch$k.diff ]; then
    /venv/bin/python tools/seedintake.py $id $k /tmp/seed/$pre$n/SEED --name $id-$((k+off)) --record 2>&1 | /venv/bin/python -c "
import sys,json
t=sys.stdin.read()
try:
    j=json.loads(t[:t.rindex('}')+1])
except Exception as e:
    print('PARSE-FAIL',t[-300:]); sys.exit()
own=j.get('own_check',{}).get('rc')
print(j['name'],'confirmed=',j.get('confirmed'),'suite',j.get('suite_passed'),'demo',j.get('demo_clean_rc'),j.get('demo_changed_rc'),'OWN rc',own, 'others', [q for q in j.get('detected_by',{}) if q!=j['property']])
for q,v in j.get('detected_by',{}).items():
    if v['lines'] and q==j['property']: print('    ',q,v['rc'],v['lines'][0][:230])
if own != 1:
    print('     >>> own check lines:', j.get('own_check',{}).get('lines',[])[:2])
"
  fi
  k=$((k+1)); done; done
