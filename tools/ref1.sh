#!/bin/sh
# usage: tools/ref1.sh R7 5 [Cnn ...]  -> applies /tmp/seed/R7/SEED/refactor5.diff to a scratch copy and runs the given checks (default all)
r=$1; k=$2; shift 2
src=/tmp/seed/$r/SEED/refactor$k.diff; [ -f "$src" ] || src=/verif/refactorings/$r/refactor$k.diff
d=/tmp/sv/$r-$k
rm -rf $d; mkdir -p $d; git -C /repo archive HEAD | tar -x -C $d; (cd $d && patch -p1 -s < $src) || exit 3
ids="$@"; [ -z "$ids" ] && ids="C01 C02 C03 C04 C05 C06 C07 C08 C09 C10 C11 C12 C13 C14 C15 C16 C17 C18 C19 C20"
for c in $ids; do /verif/vcheck $c --repo $d --no-selftest --no-evidence | grep -E ": R-|ANALY" | cut -c1-${W:-420} | sed "s/^/$c /"; done
[ -n "$KEEP" ] || rm -rf $d
