#!/venv/bin/python
"""Regenerate /verif/MANIFEST.json from the property modules that exist under props/ (run from /verif)."""
import importlib
import json
import os
import sys

sys.path.insert(0, os.path.dirname(os.path.dirname(os.path.abspath(__file__))))
ids = [json.loads(l)['id'] for l in open('properties.jsonl')]
checks, na = [], []
NOT_BUILT = {}
for pid in ids:
    path = f"props/{pid.lower()}.py"
    if not os.path.exists(path):
        na.append({'property_id': pid, 'reason': NOT_BUILT.get(pid, 'static check not built yet; planned rules are in DESIGN.md section 5')})
        continue
    m = importlib.import_module(f"props.{pid.lower()}")
    if getattr(m, 'NOT_APPLICABLE', None):
        na.append({'property_id': pid, 'reason': m.NOT_APPLICABLE})
        continue
    checks.append({
        'property_id': pid,
        'quick_cmd': f"./vcheck {pid} --tier quick",
        'thorough_cmd': f"./vcheck {pid} --tier thorough",
        'evidence_file': f"/verif/evidence/{pid}.json",
        'replay_cmd_template': './vcheck --replay {path}',
        'engine': 'sa',
        'level_claimed': {
            'category': 'other',
            'text': getattr(m, 'LEVEL_TEXT', None) or (
                'Static analysis of the current /repo sources: ' + m.EXPLANATION),
            'design_ref': f"DESIGN.md section 5 ({pid})",
        },
        'level_note': getattr(m, 'LEVEL_NOTE', None) or (
            'Decides structural necessary conditions of the property for all inputs/histories, not observed behaviour. '
            'Trusted base: CPython ast parser; language/library facts of DESIGN.md section 8; frozen rule tables '
            're-validated each run. Assumes: ' + '; '.join(m.ASSUMPTIONS)),
        'technique': getattr(m, 'TECHNIQUE', 'static analysis: AST + per-function CFG paths, effect summaries, normalised predicates (no execution, no solver)'),
    })
man = {
    'version': 1,
    'setup_cmd': './vcheck --setup',
    'hooks': {
        'guard': 'ECAGENT_VERIF',
        'enable': 'none needed: the checks read /repo sources; no instrumentation exists in /repo',
        'baseline_off_cmd': 'cd /repo && /venv/bin/python -m pytest -ra -q -p no:cacheprovider --timeout=900 --continue-on-collection-errors',
        'source_commits': [],
        'add_only': True,
    },
    'engines': [{'name': 'sa', 'path': '/verif/sa', 'serves_properties': [c['property_id'] for c in checks],
                 'kind_free_text': 'custom static analyser for ECAgent: program model, nominal types and call resolution, '
                                   'structured-CFG path enumeration with copy propagation, effect summaries, predicate '
                                   'normal forms compared over order regions; self-test by in-memory edit operators'}],
    'checks': checks,
    'not_applicable': na,
    'notes': 'Exit codes: 0 holds / 1 VIOLATION / 2 analysis inconclusive (anchor vanished, unsupported shape, self-test failed). '
             'Known findings: /verif/known-findings.txt. See DESIGN.md.',
}
json.dump(man, open('MANIFEST.json', 'w'), indent=1)
print(f"{len(checks)} checks, {len(na)} not_applicable")
