#!/venv/bin/python
"""Run every check against a behaviour-preserving refactoring: usage tools/refintake.py <dir with refactorK.diff> [--keep NAME]
Prints, per patch, the checks that exit non-zero (each one is a false alarm to investigate, unless the refactoring is not
behaviour-preserving after all)."""
import glob, json, os, re, subprocess, sys
src = sys.argv[1]
VERIF = os.path.dirname(os.path.dirname(os.path.abspath(__file__)))
ids = [f"C{i:02d}" for i in range(1, 21)]
for patch in sorted(glob.glob(os.path.join(src, 'refactor*.diff'))):
    name = os.path.basename(os.path.dirname(os.path.dirname(patch))) + '-' + os.path.basename(patch)[:-5]
    scratch = f"/tmp/sv/{name}"
    subprocess.run(['git', '-C', '/repo', 'worktree', 'remove', '--force', scratch], capture_output=True)
    subprocess.run(['git', '-C', '/repo', 'worktree', 'add', '-q', '--detach', scratch, 'HEAD'], check=True)
    try:
        a = subprocess.run(['git', '-C', scratch, 'apply', '--whitespace=nowarn', patch], capture_output=True, text=True)
        if a.returncode != 0:
            print(name, 'APPLY-FAILED', a.stderr[-200:]); continue
        env = dict(os.environ, PYTHONPATH=scratch, PYTHONDONTWRITEBYTECODE='1')
        t = subprocess.run(['/venv/bin/python', '-m', 'pytest', '-q', '-p', 'no:cacheprovider', '-x'], cwd=scratch, env=env, capture_output=True, text=True, timeout=1200)
        m = re.search(r'(\d+) passed', t.stdout)
        passed = int(m.group(1)) if m else 0
        alarms = []
        for q in ids:
            r = subprocess.run([os.path.join(VERIF, 'vcheck'), q, '--repo', scratch, '--no-evidence', '--no-selftest'], capture_output=True, text=True, cwd=VERIF)
            if r.returncode != 0:
                lines = [l for l in r.stdout.splitlines() if 'ANALYSIS-' in l or ': R-' in l]
                alarms.append((q, r.returncode, lines[:2]))
        print(f"{name}: suite {passed} passed; alarms: {[(q, rc) for q, rc, _ in alarms] or 'none'}")
        for q, rc, lines in alarms:
            for l in lines:
                print('     ', q, rc, l[:330])
    finally:
        if '--keep' not in sys.argv:
            subprocess.run(['git', '-C', '/repo', 'worktree', 'remove', '--force', scratch], capture_output=True)
