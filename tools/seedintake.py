#!/venv/bin/python
"""Confirm a seeded change and record it under /verif/seeded/<name>/.

usage: tools/seedintake.py <property id> <k> <source dir holding patchK.diff demoK.py notesK.md> [--name NAME]

Steps (all in a scratch worktree of /repo's HEAD outside /repo and /verif, removed afterwards):
  1. demo on the clean tree must exit 0;  2. `git apply` the patch;  3. the unedited test suite must still pass (110);
  4. demo with the change must exit non-zero;  5. run the property's check (and every other check) with --repo <scratch>
  and record which report a VIOLATION;  6. remove the worktree.  Nothing is applied to /repo here."""
import json, os, shutil, subprocess, sys, re

pid, k, src = sys.argv[1], sys.argv[2], sys.argv[3]
name = sys.argv[sys.argv.index('--name') + 1] if '--name' in sys.argv else f"{pid}-{k}"
VERIF = os.path.dirname(os.path.dirname(os.path.abspath(__file__)))
scratch = f"/tmp/sv/{name}"
os.makedirs('/tmp/sv', exist_ok=True)
subprocess.run(['git', '-C', '/repo', 'worktree', 'remove', '--force', scratch], capture_output=True)
for _try in range(8):       # several intakes may run side by side: `git worktree add` takes a lock
    _r = subprocess.run(['git', '-C', '/repo', 'worktree', 'add', '-q', '--detach', scratch, 'HEAD'], capture_output=True, text=True)
    if _r.returncode == 0:
        break
    import time, random
    time.sleep(0.5 + random.random() * 2)
    subprocess.run(['git', '-C', '/repo', 'worktree', 'prune'], capture_output=True)
else:
    raise SystemExit('git worktree add failed: ' + _r.stderr)
res = {'property': pid, 'name': name}
try:
    patch = os.path.join(src, f"patch{k}.diff")
    demo = os.path.join(src, f"demo{k}.py")
    env = dict(os.environ, PYTHONPATH=scratch, PYTHONDONTWRITEBYTECODE='1')
    def run_demo():
        r = subprocess.run(['/venv/bin/python', demo], cwd=scratch, env=env, capture_output=True, text=True, timeout=600)
        return r.returncode, (r.stdout + r.stderr)[-1500:]
    rc0, out0 = run_demo()
    res['demo_clean_rc'] = rc0
    a = subprocess.run(['git', '-C', scratch, 'apply', '--whitespace=nowarn', patch], capture_output=True, text=True)
    res['apply_rc'] = a.returncode
    if a.returncode != 0:
        res['apply_err'] = a.stderr[-500:]
        print(json.dumps(res, indent=1)); sys.exit(1)
    t = subprocess.run(['/venv/bin/python', '-m', 'pytest', '-q', '-p', 'no:cacheprovider', '-x'], cwd=scratch, env=env, capture_output=True, text=True, timeout=1200)
    m = re.search(r'(\d+) passed', t.stdout)
    res['suite_passed'] = int(m.group(1)) if m else 0
    res['suite_failed'] = ' failed' in t.stdout
    rc1, out1 = run_demo()
    res['demo_changed_rc'] = rc1
    res['demo_changed_tail'] = out1[-600:]
    det = {}
    ids = [f"C{i:02d}" for i in range(1, 21)]
    for q in ids:
        r = subprocess.run([os.path.join(VERIF, 'vcheck'), q, '--repo', scratch, '--no-evidence', '--no-selftest'], capture_output=True, text=True, cwd=VERIF)
        if r.returncode != 0:
            lines = [l for l in r.stdout.splitlines() if l.startswith('VIOLATION') or 'ANALYSIS-' in l or ': R-' in l]
            det[q] = {'rc': r.returncode, 'lines': [l[:400] for l in lines[:6]]}
    res['detected_by'] = det
    res['own_check'] = det.get(pid, {'rc': 0})
    res['confirmed'] = (rc0 == 0 and rc1 != 0 and res['suite_passed'] >= 110 and not res['suite_failed'])
finally:
    subprocess.run(['git', '-C', '/repo', 'worktree', 'remove', '--force', scratch], capture_output=True)
print(json.dumps(res, indent=1))
if res.get('confirmed') and '--record' in sys.argv:
    d = os.path.join(VERIF, 'seeded', name)
    os.makedirs(d, exist_ok=True)
    shutil.copy(patch, os.path.join(d, 'patch.diff'))
    shutil.copy(demo, os.path.join(d, 'demo.py'))
    notes = open(os.path.join(src, f"notes{k}.md")).read() if os.path.exists(os.path.join(src, f"notes{k}.md")) else ''
    meta = {'property': pid, 'breaks': notes.strip(), 'needs_to_manifest': 'see breaks/notes',
            'what_was_run': ['demo on clean tree: exit 0', 'git apply patch.diff in a scratch worktree of /repo HEAD',
                             f"unedited test suite: {res['suite_passed']} passed", f"demo with the change: exit {res['demo_changed_rc']}",
                             'every check via ./vcheck <id> --repo <scratch> --no-selftest'],
            'detected_by': {q: v['lines'][:2] for q, v in res['detected_by'].items()},
            'own_check_exit': res['own_check'].get('rc', 0)}
    mp = os.path.join(d, 'meta.json')
    if os.path.exists(mp):
        old = json.load(open(mp))
        for k in ('expect', 'own_check_note'):
            if k in old:
                meta[k] = old[k]
    rc_own = res['own_check'].get('rc', 0)
    if 'expect' not in meta or meta.get('expect') in ('MISSED', 'INCONCLUSIVE'):
        meta['expect'] = 'BREAKS' if rc_own == 1 else ('INCONCLUSIVE' if rc_own == 2 else 'MISSED')
    json.dump(meta, open(mp, 'w'), indent=1)
    print('recorded', d)
