#!/venv/bin/python
"""Record, for every catalogue operator, the AST digest of its anchor function on the tree the catalogue was validated
on (run from /verif after all self-tests pass on /repo)."""
import json, os, sys
sys.path.insert(0, os.path.dirname(os.path.dirname(os.path.abspath(__file__))))
from sa.loader import Program
from mutants.catalog import all_mutants, anchor_digest
src = Program.read_sources(os.environ.get('VERIF_REPO', '/repo'))
ref = {}
for m in all_mutants():
    d = anchor_digest(m, src)
    if d:
        ref[m['id']] = d
json.dump(ref, open('mutants/reference.json', 'w'), indent=0, sort_keys=True)
print(len(ref), 'operators referenced')
