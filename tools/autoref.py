#!/venv/bin/python
"""Mechanical behaviour-preserving rewrites of the whole package, to look for false alarms.

usage: tools/autoref.py [transform ...]      (default: all)

Each transform rewrites every module of /repo/ECAgent into a scratch copy (outside /repo and /verif), runs the
repository's test suite on it (must still pass) and then every check with --no-selftest.  A check that does not exit 0 is a
false alarm to investigate.  The scratch copy is removed afterwards.
"""
import ast, copy, os, shutil, subprocess, sys, tempfile

VERIF = os.path.dirname(os.path.dirname(os.path.abspath(__file__)))
IDS = [f"C{i:02d}" for i in range(1, 21)]


# ------------------------------------------------------------------------------------------- transforms
class RenameLocals(ast.NodeTransformer):
    """Rename every local variable (not parameters, not names declared global/nonlocal, not names used by nested scopes)."""

    def visit_FunctionDef(self, node):
        self.generic_visit(node)
        params = {a.arg for a in node.args.posonlyargs + node.args.args + node.args.kwonlyargs}
        if node.args.vararg:
            params.add(node.args.vararg.arg)
        if node.args.kwarg:
            params.add(node.args.kwarg.arg)
        nested = set()
        declared = set()
        stores = set()

        def scan(n, top):
            for c in ast.iter_child_nodes(n):
                if isinstance(c, (ast.FunctionDef, ast.AsyncFunctionDef, ast.Lambda, ast.ClassDef)):
                    for x in ast.walk(c):
                        if isinstance(x, ast.Name):
                            nested.add(x.id)
                    continue
                if isinstance(c, (ast.ListComp, ast.SetComp, ast.DictComp, ast.GeneratorExp)):
                    for x in ast.walk(c):
                        if isinstance(x, ast.Name):
                            nested.add(x.id)       # comprehension scopes: leave alone
                    continue
                if isinstance(c, (ast.Global, ast.Nonlocal)):
                    declared.update(c.names)
                if isinstance(c, ast.Name) and isinstance(c.ctx, (ast.Store, ast.Del)):
                    stores.add(c.id)
                scan(c, False)
        scan(node, True)
        ren = {n: n + '_v' for n in stores - params - nested - declared if not n.startswith('__')}

        class R(ast.NodeTransformer):
            def visit_FunctionDef(self, n):
                return n

            visit_AsyncFunctionDef = visit_Lambda = visit_ClassDef = visit_FunctionDef

            def visit_ListComp(self, n):
                return n
            visit_SetComp = visit_DictComp = visit_GeneratorExp = visit_ListComp

            def visit_Name(self, n):
                if n.id in ren:
                    return ast.copy_location(ast.Name(id=ren[n.id], ctx=n.ctx), n)
                return n
        r = R()
        node.body = [r.visit(s) if not isinstance(s, (ast.FunctionDef, ast.AsyncFunctionDef, ast.ClassDef)) else s for s in node.body]
        return node


class SwapIfElse(ast.NodeTransformer):
    """if c: A else: B  ->  if not c: B else: A   (only for statements with a non-empty else that is not an elif chain)"""

    def visit_If(self, node):
        self.generic_visit(node)
        if node.orelse and not (len(node.orelse) == 1 and isinstance(node.orelse[0], ast.If)):
            node.test, node.body, node.orelse = ast.UnaryOp(op=ast.Not(), operand=node.test), node.orelse, node.body
        return node


class ElifToNested(ast.NodeTransformer):
    """Nothing changes in the tree (elif IS a nested if in the AST), but unparse prints `else:\n if` - a pure formatting check."""

    def visit_If(self, node):
        self.generic_visit(node)
        return node


class DeMorgan(ast.NodeTransformer):
    """a and b -> not (not a or not b);  a or b -> not (not a and not b)   in if/while tests only"""

    def _dm(self, t):
        if isinstance(t, ast.BoolOp):
            op = ast.Or() if isinstance(t.op, ast.And) else ast.And()
            return ast.UnaryOp(op=ast.Not(), operand=ast.BoolOp(op=op, values=[ast.UnaryOp(op=ast.Not(), operand=v) for v in t.values]))
        return t

    def visit_If(self, node):
        self.generic_visit(node)
        node.test = self._dm(node.test)
        return node

    def visit_While(self, node):
        self.generic_visit(node)
        node.test = self._dm(node.test)
        return node


class FlipCompare(ast.NodeTransformer):
    """a < b -> b > a (single-operator comparisons of side-effect-free operands: names, attributes, constants, arithmetic)"""
    FLIP = {ast.Lt: ast.Gt, ast.Gt: ast.Lt, ast.LtE: ast.GtE, ast.GtE: ast.LtE, ast.Eq: ast.Eq, ast.NotEq: ast.NotEq}

    def _pure(self, e):
        return all(isinstance(x, (ast.Name, ast.Attribute, ast.Constant, ast.BinOp, ast.UnaryOp, ast.operator, ast.unaryop, ast.expr_context,
                                  ast.Subscript)) for x in ast.walk(e))

    def visit_Compare(self, node):
        self.generic_visit(node)
        if len(node.ops) == 1 and type(node.ops[0]) in self.FLIP and self._pure(node.left) and self._pure(node.comparators[0]):
            # type(x) == T comparisons stay (left operand call) - they are not pure by the test above
            return ast.copy_location(ast.Compare(left=node.comparators[0], ops=[self.FLIP[type(node.ops[0])]()], comparators=[node.left]), node)
        return node


class AugToPlain(ast.NodeTransformer):
    """x += e -> x = x + e   for plain names and attributes of names holding numbers (not lists: += is in place there)"""

    def visit_AugAssign(self, node):
        self.generic_visit(node)
        if isinstance(node.value, ast.Constant) and isinstance(node.value.value, (int, float)) and \
                isinstance(node.target, (ast.Name, ast.Attribute)) and isinstance(node.op, (ast.Add, ast.Sub)):
            load = copy.deepcopy(node.target)
            for n in ast.walk(load):
                if hasattr(n, 'ctx'):
                    n.ctx = ast.Load()
            return ast.copy_location(ast.Assign(targets=[node.target], value=ast.BinOp(left=load, op=node.op, right=node.value)), node)
        return node


class TempReturn(ast.NodeTransformer):
    """return <expr>  ->  result_t = <expr>; return result_t      (expressions that are not plain names/constants)"""

    def visit_FunctionDef(self, node):
        self.generic_visit(node)

        def fix(body):
            out = []
            for s in body:
                for f in ('body', 'orelse', 'finalbody'):
                    if hasattr(s, f) and isinstance(getattr(s, f), list) and not isinstance(s, (ast.FunctionDef, ast.ClassDef)):
                        setattr(s, f, fix(getattr(s, f)))
                if isinstance(s, ast.Try):
                    for h in s.handlers:
                        h.body = fix(h.body)
                if isinstance(s, ast.Return) and s.value is not None and not isinstance(s.value, (ast.Name, ast.Constant)):
                    out.append(ast.copy_location(ast.Assign(targets=[ast.Name(id='result_t', ctx=ast.Store())], value=s.value), s))
                    out.append(ast.copy_location(ast.Return(value=ast.Name(id='result_t', ctx=ast.Load())), s))
                else:
                    out.append(s)
            return out
        node.body = fix(node.body)
        return node


class EarlyReturnElse(ast.NodeTransformer):
    """if c: <...raise/return> else: B   ->   if c: <...>  ;  B     (the else of a branch that cannot fall through is dropped)"""

    def _flat(self, body):
        out = []
        for s in body:
            if isinstance(s, ast.If) and s.orelse and s.body and isinstance(s.body[-1], (ast.Raise, ast.Return, ast.Continue, ast.Break)) \
                    and not (len(s.orelse) == 1 and isinstance(s.orelse[0], ast.If)):
                rest = s.orelse
                s.orelse = []
                out.append(s)
                out.extend(rest)
            else:
                out.append(s)
        return out

    def generic_visit(self, node):
        super().generic_visit(node)
        for f in ('body', 'orelse', 'finalbody'):
            if hasattr(node, f) and isinstance(getattr(node, f), list) and getattr(node, f) and isinstance(getattr(node, f)[0], ast.stmt):
                setattr(node, f, self._flat(getattr(node, f)))
        return node


class AnnotateAssign(ast.NodeTransformer):
    """`x = v` -> `x: object = v` for single Name / self-attribute targets (not names declared global/nonlocal)."""

    def visit_FunctionDef(self, node):
        decl = set()
        for x in ast.walk(node):
            if isinstance(x, (ast.Global, ast.Nonlocal)):
                decl.update(x.names)
        outer = getattr(self, 'decl', set())
        self.decl = outer | decl
        self.generic_visit(node)
        self.decl = outer
        return node

    def visit_Assign(self, node):
        if len(node.targets) == 1:
            t = node.targets[0]
            if (isinstance(t, ast.Name) and t.id not in getattr(self, 'decl', set())) or \
                    (isinstance(t, ast.Attribute) and isinstance(t.value, ast.Name) and t.value.id in ('self', 'cls')):
                return ast.copy_location(ast.AnnAssign(target=t, annotation=ast.Name(id='object', ctx=ast.Load()), value=node.value,
                                                       simple=1 if isinstance(t, ast.Name) else 0), node)
        return node


class KeysToIn(ast.NodeTransformer):
    """`k in d.keys()` -> `k in d`, `not a in b` -> `a not in b`, `for k in d.keys()` -> `for k in d`."""

    def visit_Compare(self, node):
        self.generic_visit(node)
        if len(node.ops) == 1 and isinstance(node.ops[0], (ast.In, ast.NotIn)):
            c = node.comparators[0]
            if isinstance(c, ast.Call) and isinstance(c.func, ast.Attribute) and c.func.attr == 'keys' and not c.args:
                node.comparators[0] = c.func.value
        return node

    def visit_UnaryOp(self, node):
        self.generic_visit(node)
        if isinstance(node.op, ast.Not) and isinstance(node.operand, ast.Compare) and len(node.operand.ops) == 1 \
                and isinstance(node.operand.ops[0], ast.In):
            return ast.copy_location(ast.Compare(left=node.operand.left, ops=[ast.NotIn()], comparators=node.operand.comparators), node)
        return node

    def visit_For(self, node):
        self.generic_visit(node)
        c = node.iter
        if isinstance(c, ast.Call) and isinstance(c.func, ast.Attribute) and c.func.attr == 'keys' and not c.args:
            node.iter = c.func.value
        return node


class GuardClause(ast.NodeTransformer):
    """A function ending in `if c: BODY` (no else) -> `if not c: return` followed by BODY."""

    def visit_FunctionDef(self, node):
        self.generic_visit(node)
        if any(isinstance(x, (ast.Yield, ast.YieldFrom)) for x in ast.walk(node)):
            return node
        last = node.body[-1]
        if isinstance(last, ast.If) and not last.orelse and len(last.body) >= 2:
            g = ast.If(test=ast.UnaryOp(op=ast.Not(), operand=last.test), body=[ast.Return(value=None)], orelse=[])
            node.body = node.body[:-1] + [ast.copy_location(g, last)] + last.body
        return node


class TempCond(ast.NodeTransformer):
    """`if <compound test>:` -> `_cond = <test>` then `if _cond:` (top of an if-chain only)."""

    def _block(self, body):
        out = []
        for s in body:
            if isinstance(s, ast.If) and isinstance(s.test, (ast.BoolOp, ast.Compare, ast.UnaryOp)) \
                    and not any(isinstance(x, ast.NamedExpr) for x in ast.walk(s.test)):
                self.k = getattr(self, 'k', 0) + 1
                nm = f"_cond{self.k}"
                out.append(ast.copy_location(ast.Assign(targets=[ast.Name(id=nm, ctx=ast.Store())], value=s.test), s))
                s.test = ast.Name(id=nm, ctx=ast.Load())
            out.append(s)
        return out

    def generic_visit(self, node):
        super().generic_visit(node)
        if isinstance(node, (ast.FunctionDef, ast.For, ast.While, ast.With, ast.Try)):
            node.body = self._block(node.body)
        elif isinstance(node, ast.If):
            node.body = self._block(node.body)
            if not (len(node.orelse) == 1 and isinstance(node.orelse[0], ast.If)):
                node.orelse = self._block(node.orelse)
        return node


class CompToLoop(ast.NodeTransformer):
    """`x = [e for v in it if c]` / `return [..]` (one generator, in a function body) -> an explicit loop with append."""

    def _expand(self, comp, name, at):
        self.k = getattr(self, 'k', 0) + 1
        g = comp.generators[0]
        ren = {n.id: f"{n.id}_l{self.k}" for n in ast.walk(g.target) if isinstance(n, ast.Name)}

        class R(ast.NodeTransformer):
            def visit_Name(s, n):
                if n.id in ren:
                    return ast.copy_location(ast.Name(id=ren[n.id], ctx=n.ctx), n)
                return n
        tgt = R().visit(copy.deepcopy(g.target))
        elt = R().visit(copy.deepcopy(comp.elt))
        ifs = [R().visit(copy.deepcopy(i)) for i in g.ifs]
        app = ast.Expr(value=ast.Call(func=ast.Attribute(value=ast.Name(id=name, ctx=ast.Load()), attr='append', ctx=ast.Load()), args=[elt], keywords=[]))
        body = [app]
        if ifs:
            test = ifs[0] if len(ifs) == 1 else ast.BoolOp(op=ast.And(), values=ifs)
            body = [ast.If(test=test, body=[app], orelse=[])]
        init = ast.Assign(targets=[ast.Name(id=name, ctx=ast.Store())], value=ast.List(elts=[], ctx=ast.Load()))
        loop = ast.For(target=tgt, iter=g.iter, body=body, orelse=[])
        return [ast.copy_location(init, at), ast.copy_location(loop, at)]

    def _ok(self, v):
        return isinstance(v, ast.ListComp) and len(v.generators) == 1 and not v.generators[0].is_async \
            and not any(isinstance(x, (ast.Lambda, ast.ListComp, ast.GeneratorExp, ast.DictComp, ast.SetComp, ast.NamedExpr))
                        for y in [v.elt] + v.generators[0].ifs for x in ast.walk(y))

    def _block(self, body):
        out = []
        for s in body:
            if isinstance(s, ast.Assign) and len(s.targets) == 1 and isinstance(s.targets[0], ast.Name) and self._ok(s.value) \
                    and not any(isinstance(x, ast.Name) and x.id == s.targets[0].id for x in ast.walk(s.value)):
                out.extend(self._expand(s.value, s.targets[0].id, s))
            elif isinstance(s, ast.Return) and s.value is not None and self._ok(s.value):
                self.k = getattr(self, 'k', 0) + 1
                nm = f"_out{self.k}"
                out.extend(self._expand(s.value, nm, s))
                out.append(ast.copy_location(ast.Return(value=ast.Name(id=nm, ctx=ast.Load())), s))
            else:
                out.append(s)
        return out

    def generic_visit(self, node):
        super().generic_visit(node)
        for f in ('body', 'orelse', 'finalbody'):
            b = getattr(node, f, None)
            if isinstance(b, list) and b and isinstance(b[0], ast.stmt) and not isinstance(node, (ast.Module, ast.ClassDef)):
                setattr(node, f, self._block(b))
        return node


class TernaryToIf(ast.NodeTransformer):
    """`x = a if c else b` / `return a if c else b` -> an if statement."""

    def _block(self, body):
        out = []
        for s in body:
            if isinstance(s, ast.Assign) and isinstance(s.value, ast.IfExp):
                a = ast.Assign(targets=copy.deepcopy(s.targets), value=s.value.body)
                b = ast.Assign(targets=copy.deepcopy(s.targets), value=s.value.orelse)
                out.append(ast.copy_location(ast.If(test=s.value.test, body=[a], orelse=[b]), s))
            elif isinstance(s, ast.Return) and isinstance(s.value, ast.IfExp):
                out.append(ast.copy_location(ast.If(test=s.value.test, body=[ast.Return(value=s.value.body)],
                                                    orelse=[ast.Return(value=s.value.orelse)]), s))
            else:
                out.append(s)
        return out

    def generic_visit(self, node):
        super().generic_visit(node)
        for f in ('body', 'orelse', 'finalbody'):
            b = getattr(node, f, None)
            if isinstance(b, list) and b and isinstance(b[0], ast.stmt) and not isinstance(node, (ast.Module, ast.ClassDef)):
                setattr(node, f, self._block(b))
        return node


class ItemsToKeys(ast.NodeTransformer):
    """`for k, v in d.items(): BODY` -> `for k in d: v = d[k]; BODY` (d a plain attribute chain or name)."""

    def visit_For(self, node):
        self.generic_visit(node)
        c = node.iter
        if isinstance(c, ast.Call) and isinstance(c.func, ast.Attribute) and c.func.attr == 'items' and not c.args \
                and isinstance(node.target, ast.Tuple) and len(node.target.elts) == 2 and all(isinstance(e, ast.Name) for e in node.target.elts):
            d = c.func.value
            x = d
            while isinstance(x, ast.Attribute):
                x = x.value
            if isinstance(x, ast.Name):
                k, v = node.target.elts
                get = ast.Assign(targets=[ast.Name(id=v.id, ctx=ast.Store())],
                                 value=ast.Subscript(value=copy.deepcopy(d), slice=ast.Name(id=k.id, ctx=ast.Load()), ctx=ast.Load()))
                node.target = ast.Name(id=k.id, ctx=ast.Store())
                node.iter = d
                node.body = [ast.copy_location(get, node)] + node.body
        return node


class ForToWhile(ast.NodeTransformer):
    """`for i in range(a, b): BODY` (no continue / else, i not assigned in BODY, i not read after the loop) -> counting while-loop."""

    def visit_FunctionDef(self, node):
        self.generic_visit(node)
        self.fn = node
        node.body = self._block(node.body, node)
        return node

    def _block(self, body, fn):
        out = []
        for idx, s in enumerate(body):
            for f in ('body', 'orelse'):
                b = getattr(s, f, None)
                if isinstance(b, list) and b and isinstance(b[0], ast.stmt) and not isinstance(s, (ast.FunctionDef, ast.ClassDef)):
                    setattr(s, f, self._block(b, fn))
            if isinstance(s, ast.For) and not s.orelse and isinstance(s.target, ast.Name) and isinstance(s.iter, ast.Call) \
                    and isinstance(s.iter.func, ast.Name) and s.iter.func.id == 'range' and len(s.iter.args) in (1, 2) and not s.iter.keywords \
                    and all(isinstance(a, (ast.Name, ast.Constant, ast.Attribute)) for a in s.iter.args) \
                    and not any(isinstance(x, ast.Continue) for x in ast.walk(s)) \
                    and not any(isinstance(x, ast.Name) and x.id == s.target.id and isinstance(x.ctx, ast.Store) for b in s.body for x in ast.walk(b)):
                i = s.target.id
                later = [x for t in ast.walk(fn) for x in [t] if isinstance(x, ast.Name) and x.id == i and getattr(x, 'lineno', 0) > s.end_lineno]
                bound_names = {x.id for a in s.iter.args for x in ast.walk(a) if isinstance(x, ast.Name)}
                writes = {x.id for b in s.body for x in ast.walk(b) if isinstance(x, ast.Name) and isinstance(x.ctx, ast.Store)}
                has_attr_bound = any(isinstance(a, ast.Attribute) for a in s.iter.args)
                if not later and not (bound_names & writes) and not has_attr_bound:
                    lo = s.iter.args[0] if len(s.iter.args) == 2 else ast.Constant(value=0)
                    hi = s.iter.args[-1]
                    init = ast.Assign(targets=[ast.Name(id=i, ctx=ast.Store())], value=lo)
                    inc = ast.AugAssign(target=ast.Name(id=i, ctx=ast.Store()), op=ast.Add(), value=ast.Constant(value=1))
                    w = ast.While(test=ast.Compare(left=ast.Name(id=i, ctx=ast.Load()), ops=[ast.Lt()], comparators=[hi]), body=s.body + [inc], orelse=[])
                    out.append(ast.copy_location(init, s))
                    out.append(ast.copy_location(w, s))
                    continue
            out.append(s)
        return out


class LoopToComp(ast.NodeTransformer):
    """`L = []` + `for T in IT: [if C:] L.append(E)` (adjacent, T not read afterwards) -> `L = [E for T in IT if C]`."""

    def visit_FunctionDef(self, node):
        self.generic_visit(node)
        self.fn = node
        node.body = self._block(node.body, node)
        return node

    def _block(self, body, fn):
        for s in body:
            for f in ('body', 'orelse', 'finalbody'):
                b = getattr(s, f, None)
                if isinstance(b, list) and b and isinstance(b[0], ast.stmt) and not isinstance(s, (ast.FunctionDef, ast.ClassDef)):
                    setattr(s, f, self._block(b, fn))
        out = []
        i = 0
        while i < len(body):
            s = body[i]
            nxt = body[i + 1] if i + 1 < len(body) else None
            if isinstance(s, ast.Assign) and len(s.targets) == 1 and isinstance(s.targets[0], ast.Name) and isinstance(s.value, ast.List) \
                    and not s.value.elts and isinstance(nxt, ast.For) and not nxt.orelse and len(nxt.body) == 1:
                L = s.targets[0].id
                inner = nxt.body[0]
                cond = None
                if isinstance(inner, ast.If) and not inner.orelse and len(inner.body) == 1:
                    cond, inner = inner.test, inner.body[0]
                tn = {y.id for y in ast.walk(nxt.target) if isinstance(y, ast.Name)}
                later = [y for t in ast.walk(fn) for y in [t] if isinstance(y, ast.Name) and y.id in tn and getattr(y, 'lineno', 0) > nxt.end_lineno]
                if isinstance(inner, ast.Expr) and isinstance(inner.value, ast.Call) and isinstance(inner.value.func, ast.Attribute) and \
                        inner.value.func.attr == 'append' and isinstance(inner.value.func.value, ast.Name) and inner.value.func.value.id == L \
                        and len(inner.value.args) == 1 and not inner.value.keywords and not later \
                        and not any(isinstance(y, ast.Name) and y.id == L for x in [nxt.iter, inner.value.args[0]] + ([cond] if cond else []) for y in ast.walk(x)) \
                        and not any(isinstance(y, (ast.Yield, ast.Await, ast.NamedExpr)) for y in ast.walk(nxt)):
                    comp = ast.ListComp(elt=inner.value.args[0], generators=[ast.comprehension(target=nxt.target, iter=nxt.iter, ifs=[cond] if cond else [], is_async=0)])
                    out.append(ast.copy_location(ast.Assign(targets=[ast.Name(id=L, ctx=ast.Store())], value=comp), s))
                    i += 2
                    continue
            out.append(s)
            i += 1
        return out


class Walrus(ast.NodeTransformer):
    """`n = e` immediately followed by `if n <cmp> ...:` / `if n:` / `if not n:` -> `if (n := e) ...:`."""

    def generic_visit(self, node):
        super().generic_visit(node)
        for f in ('body', 'orelse', 'finalbody'):
            b = getattr(node, f, None)
            if isinstance(b, list) and b and isinstance(b[0], ast.stmt) and not isinstance(node, (ast.Module, ast.ClassDef)):
                out = []
                i = 0
                while i < len(b):
                    s = b[i]
                    nxt = b[i + 1] if i + 1 < len(b) else None
                    done = False
                    if isinstance(s, ast.Assign) and len(s.targets) == 1 and isinstance(s.targets[0], ast.Name) and isinstance(nxt, ast.If) \
                            and not isinstance(s.value, (ast.Lambda, ast.Yield)):
                        n = s.targets[0].id
                        t = nxt.test
                        ne = ast.NamedExpr(target=ast.Name(id=n, ctx=ast.Store()), value=s.value)
                        if isinstance(t, ast.Compare) and isinstance(t.left, ast.Name) and t.left.id == n and \
                                not any(isinstance(y, ast.Name) and y.id == n for c in t.comparators for y in ast.walk(c)):
                            t.left = ne
                            done = True
                        elif isinstance(t, ast.Name) and t.id == n:
                            nxt.test = ne
                            done = True
                        elif isinstance(t, ast.UnaryOp) and isinstance(t.op, ast.Not) and isinstance(t.operand, ast.Name) and t.operand.id == n:
                            t.operand = ne
                            done = True
                    if done:
                        out.append(nxt)
                        i += 2
                    else:
                        out.append(s)
                        i += 1
                setattr(node, f, out)
        return node


TRANSFORMS = {
    'loop-to-comp': LoopToComp, 'walrus': Walrus,
    'ternary-to-if': TernaryToIf, 'items-to-keys': ItemsToKeys, 'for-to-while': ForToWhile,
    'keys-to-in': KeysToIn, 'guard-clause': GuardClause, 'temp-cond': TempCond, 'comp-to-loop': CompToLoop,
    'annotate-assign': AnnotateAssign,
    'rename-locals': RenameLocals, 'swap-if-else': SwapIfElse, 'unparse': ElifToNested, 'de-morgan': DeMorgan, 'flip-compare': FlipCompare,
    'aug-to-plain': AugToPlain, 'temp-return': TempReturn, 'drop-else-after-exit': EarlyReturnElse,
}


def rewrite(src: str, cls) -> str:
    crlf = '\r\n' in src
    tree = ast.parse(src.replace('\r\n', '\n'))
    tree = cls().visit(tree)
    ast.fix_missing_locations(tree)
    out = ast.unparse(tree) + '\n'
    return out.replace('\n', '\r\n') if crlf else out


def main():
    names = sys.argv[1:] or list(TRANSFORMS)
    bad = 0
    for name in names:
        scratch = tempfile.mkdtemp(prefix=f"autoref-{name}-", dir='/tmp')
        try:
            subprocess.run(f"git -C /repo archive HEAD | tar -x -C {scratch}", shell=True, check=True)
            changed = 0
            for f in sorted(os.listdir(os.path.join(scratch, 'ECAgent'))):
                if f.endswith('.py'):
                    p = os.path.join(scratch, 'ECAgent', f)
                    src = open(p, newline='').read()
                    new = rewrite(src, TRANSFORMS[name])
                    if ast.dump(ast.parse(new.replace('\r\n', '\n'))) != ast.dump(ast.parse(src.replace('\r\n', '\n'))):
                        changed += 1
                    open(p, 'w', newline='').write(new)
            env = dict(os.environ, PYTHONPATH=scratch, PYTHONDONTWRITEBYTECODE='1')
            t = subprocess.run(['/venv/bin/python', '-m', 'pytest', '-q', '-p', 'no:cacheprovider', '-x'], cwd=scratch, env=env,
                               capture_output=True, text=True, timeout=1800)
            tail = t.stdout.strip().splitlines()[-1] if t.stdout.strip() else t.stderr[-200:]
            alarms = []
            for q in IDS:
                r = subprocess.run([os.path.join(VERIF, 'vcheck'), q, '--repo', scratch, '--no-evidence', '--no-selftest'], capture_output=True,
                                   text=True, cwd=VERIF)
                if r.returncode != 0:
                    lines = [l for l in r.stdout.splitlines() if 'ANALYSIS-' in l or ': R-' in l]
                    alarms.append((q, r.returncode, lines[:2]))
            print(f"{name}: {changed} module(s) rewritten; suite: {tail}; alarms: {[(q, rc) for q, rc, _ in alarms] or 'none'}")
            for q, rc, lines in alarms:
                bad += 1
                for l in lines:
                    print('     ', q, rc, l[:330])
        finally:
            if '--keep' not in sys.argv:
                shutil.rmtree(scratch, ignore_errors=True)
    return 1 if bad else 0


if __name__ == '__main__':
    sys.exit(main())
