"""Obligations, findings, known-findings file, evidence and replay files, exit codes (DESIGN.md G4, section 7)."""
from __future__ import annotations

import hashlib
import json
import os
import re
import time
from dataclasses import dataclass, field
from typing import Dict, List, Optional

from .loader import Program, AnalysisError, FuncInfo
from .types import TypeInfer
from .walker import Walker, WalkOptions, Path
from .effects import Effects

VERIF = os.path.dirname(os.path.dirname(os.path.abspath(__file__)))


@dataclass
class Obligation:
    rule: str
    instance: str
    verdict: str               # ok | violation | inconclusive
    where: str = ''
    function: str = ''
    facts: dict = field(default_factory=dict)
    key: str = ''              # for violations: rule:construct:missing-fact (no line numbers)
    message: str = ''
    path: List[int] = field(default_factory=list)

    def to_json(self):
        d = {'rule': self.rule, 'instance': self.instance, 'verdict': self.verdict}
        for k in ('where', 'function', 'key', 'message'):
            if getattr(self, k):
                d[k] = getattr(self, k)
        if self.facts:
            d['facts'] = {k: _js(v) for k, v in self.facts.items()}
        if self.path:
            d['path_lines'] = self.path
        return d


def _js(v):
    if isinstance(v, (str, int, float, bool)) or v is None:
        return v
    if isinstance(v, (list, tuple, set, frozenset)):
        return [_js(x) for x in v]
    if isinstance(v, dict):
        return {str(k): _js(x) for k, x in v.items()}
    return repr(v)


def slug(s: str) -> str:
    return re.sub(r'[^A-Za-z0-9_.+-]+', '-', s).strip('-')


class Cx:
    """Analysis context for one property run on one program."""

    def __init__(self, pid: str, prog: Program, tier: str = 'quick'):
        self.pid = pid
        self.prog = prog
        self.tier = tier
        self.ti = TypeInfer(prog)
        self.walker = Walker(prog, self.ti)
        self._effects: Optional[Effects] = None
        self.obs: List[Obligation] = []
        self.floors: List[dict] = []
        self.notes: List[str] = []
        # rows of the container seed table that no longer describe the tree; a property may turn one into a
        # violation (and remove it here); whatever is left makes the run inconclusive (driver)
        self.seed_problems: List[str] = self.ti.validate_seeds()

    @property
    def effects(self) -> Effects:
        if self._effects is None:
            self._effects = Effects(self.prog, self.walker)
        return self._effects

    # ------------------------------------------------------------------ recording
    def ok(self, rule, instance, where='', function='', **facts):
        self.obs.append(Obligation(rule, instance, 'ok', where, function, facts))

    def violation(self, rule, construct, missing, message, where='', function='', path=None, **facts):
        key = f"{rule}:{construct}:{slug(missing)}"
        self.obs.append(Obligation(rule, f"{construct} {missing}", 'violation', where, function or construct, facts,
                                   key=key, message=message, path=list(path or [])))

    def inconclusive(self, rule, instance, message, where='', function='', **facts):
        self.obs.append(Obligation(rule, instance, 'inconclusive', where, function, facts, message=message))

    def floor(self, what: str, count: int, minimum: int):
        self.floors.append({'what': what, 'count': count, 'floor': minimum})
        if count < minimum:
            self.inconclusive('FLOOR', what, f"instance count {count} fell below the floor {minimum} confirmed by hand: "
                                             f"the rule would pass vacuously")

    def note(self, s: str):
        self.notes.append(s)

    # ------------------------------------------------------------------ helpers
    def fn(self, qualname: str) -> FuncInfo:
        f = self.prog.func(qualname)
        self._check_positional_api(f)
        return f

    def _check_positional_api(self, f: FuncInfo) -> None:
        """R-API: a documented function keeps its documented positional parameters, in order, as a prefix of its positional
        parameters (new ones come after them, or are keyword-only): otherwise an existing positional call binds its arguments to
        other parameters - execute_systems(True) no longer asks for the error.  Checked once for every function a rule looks at."""
        seen = self.__dict__.setdefault('_api_checked', set())
        if f.qualname in seen or getattr(self, 'is_premise', False) and False:
            return
        seen.add(f.qualname)
        try:
            sigs = self.walker._sigs()
        except Exception:
            return
        pinned = sigs.get('#pos:' + f.qualname.split('@')[0])
        if pinned is None:
            return
        cur = list(f.params)
        if f.cls is not None and not f.is_static and f.parent is None and cur and pinned:
            cur, pinned = cur[1:], list(pinned)[1:]         # the receiver's name is not part of the interface
        had_var = any(n.startswith('*') and not n.startswith('**') for n in sigs.get(f.qualname.split('@')[0], []))
        # a documented parameter that is still there keeps its position (a renamed one is a different matter: positions are unchanged)
        ok = all(cur.index(q) == i for i, q in enumerate(pinned) if q in cur) and (not had_var or len(cur) == len(pinned))
        # ... and stays positional: made keyword-only (behind a new *args) it no longer receives the argument of a positional call
        ok = ok and not any(q in f.kwonly for q in pinned)
        gone = [q for q in pinned if q not in cur and q not in f.kwonly and not q.startswith('*')]
        if ok and gone and not f.name.startswith('_') and f.node.args.kwarg is None:
            # ... and its name: a documented parameter of a public function can be passed by keyword
            self.violation('R-API', f.qualname, 'documented-parameter-names-kept',
                           f"{f.qualname} no longer has the documented parameter(s) {gone} (it takes {cur}): a call that passes "
                           f"{gone[0]!r} by keyword - env.get_agent(id=...) - now raises TypeError instead of doing what is documented",
                           where=self.where(f))
        # ... and its default: a call that leaves the argument out gets what it used to get (tag=None -> tag=Tags.NONE turns "no tag
        # filter" into "tag 0 only"); a default spelled through a named constant of the same value is the same default
        pdefs = sigs.get('#def:' + f.qualname.split('@')[0]) or {}
        if pdefs and not f.name.startswith('_') or (pdefs and f.name == '__init__'):
            try:
                import ast as _ast
                from .walker import _Ctx, State
                c_ = _Ctx(self.walker, f, WalkOptions())
                c_.class_scope = True
                for pn, src in sorted(pdefs.items()):
                    if pn not in f.params + f.kwonly:
                        continue
                    cur_d = f.param_default(pn)
                    if cur_d is None:
                        changed = 'no default any more'
                    else:
                        a_, b_ = c_.ev(cur_d, State()), c_.ev(_ast.parse(src, mode='eval').body, State())

                        def dotted(t):
                            from .terms import Sym as _S, Attr as _A
                            if isinstance(t, _S):
                                return t.name
                            if isinstance(t, _A):
                                b0 = dotted(t.base)
                                return None if b0 is None else b0 + '.' + t.name
                            return None
                        same = a_ == b_ or _ast.unparse(cur_d) == src or (dotted(a_) is not None and dotted(a_) in (dotted(b_), src))
                        changed = None if same else f"{_ast.unparse(cur_d)} instead of {src}"
                    if changed:
                        self.violation('R-API', f.qualname, 'documented-defaults-kept',
                                       f"{f.qualname}: the default of `{pn}` is {changed}: a call that leaves `{pn}` out no longer does what "
                                       f"is documented for it", where=self.where(f))
                        break
            except AnalysisError:
                raise
            except Exception:
                pass
        if not ok:
            self.violation('R-API', f.qualname, 'documented-positional-parameters-kept',
                           f"{f.qualname} takes the positional parameters {cur}; the documented ones are {pinned}"
                           f"{' followed by *args' if had_var else ''}: a call that passes them by position now binds its arguments to other "
                           f"parameters", where=self.where(f))

    def paths(self, fn, **kw) -> List[Path]:
        if isinstance(fn, str):
            fn = self.fn(fn)
        return self.walker.paths(fn, WalkOptions(**kw))

    def where(self, fn: FuncInfo, line: int = None) -> str:
        return f"{fn.module.relpath}:{line or fn.node.lineno}"

    def violations(self) -> List[Obligation]:
        return [o for o in self.obs if o.verdict == 'violation']

    def inconclusives(self) -> List[Obligation]:
        return [o for o in self.obs if o.verdict == 'inconclusive']


# ---------------------------------------------------------------------- known findings
@dataclass
class Known:
    status: str      # open | fixed
    pid: str
    key: str
    text: str


def load_known(path: str = None) -> List[Known]:
    path = path or os.path.join(VERIF, 'known-findings.txt')
    out = []
    if not os.path.exists(path):
        return out
    for line in open(path, encoding='utf-8'):
        line = line.strip()
        if not line or line.startswith('#'):
            continue
        m = re.match(r'^(open|fixed):\s+property=(C\d+)\s+(?:key=(\S+)\s+)?(.*)$', line)
        if not m:
            continue
        out.append(Known(m.group(1), m.group(2), m.group(3) or '', m.group(4)))
    return out


# ---------------------------------------------------------------------- evidence
def write_evidence(pid: str, tier: str, cx_obs: List[Obligation], floors, notes, prog: Optional[Program], stats: dict,
                   wall: float, explanation: str, assumptions: List[str], extra: dict = None, nviol: int = 0,
                   outdir: str = None):
    outdir = outdir or os.path.join(VERIF, 'evidence')
    os.makedirs(outdir, exist_ok=True)
    matched = [o for o in cx_obs if o.where]      # obligations that matched a real construct of /repo
    distinct = len({(o.rule, o.instance, o.where) for o in matched})
    cov = {
        'explanation': explanation,
        'obligations': len(cx_obs),
        'discharged': sum(1 for o in cx_obs if o.verdict == 'ok'),
        'evaluations': len(cx_obs),
        'distinct_nontrivial': distinct,
        'rule': 'one obligation per (rule, instance) enumerated from the current /repo sources; non-trivial = bound to a '
                'real construct (file:line) of the analysed tree; witnesses and mutants are counted separately',
        'samples': [o.to_json() for o in cx_obs][:60],
        'exhaustive': True,
        'floors': floors,
        'analysed': stats,
        'checker_cmd': f"./vcheck {pid} --tier {tier}",
        'trusted_base': ['CPython 3.12 ast parser', 'language/library facts listed in DESIGN.md section 8',
                         'frozen tables of documented errors / field disciplines / callbacks (re-validated each run)'],
    }
    if notes:
        cov['notes'] = notes
    if extra:
        cov.update(extra)
    ev = {'property_id': pid, 'tier': tier, 'seed': int(os.environ.get('VERIF_SEED', '0') or 0), 'level': 'other',
          'coverage': cov, 'assumptions': assumptions, 'wall_s': round(wall, 3), 'violations': nviol}
    p = os.path.join(outdir, f"{pid}.json")
    tmp = p + '.tmp'
    with open(tmp, 'w') as fh:
        json.dump(ev, fh, indent=1, default=repr)
    os.replace(tmp, p)
    return p


def write_replay(pid: str, o: Obligation, prog: Program) -> str:
    d = os.path.join(VERIF, 'replay', pid)
    os.makedirs(d, exist_ok=True)
    name = slug(o.key)[:150] + '.json'
    p = os.path.join(d, name)
    body = o.to_json()
    body['property_id'] = pid
    body['digests'] = prog.digest()
    body['how_to_replay'] = f"cd /verif && ./vcheck --replay {p}"
    with open(p, 'w') as fh:
        json.dump(body, fh, indent=1, default=repr)
    return p
