"""Syntactic normal forms applied to every function before it is analysed.

Each rewrite replaces a statement pattern by the construct it abbreviates or spells out, under side conditions that make the
two forms equivalent for every execution; the rules then have one loop shape to recognise.  Line numbers are kept.

N1  counting while-loop           i = a; ...; while i < b: PRE; i += 1; POST      ->  for i in range(a, b): PRE; POST
N2  index loop over a sequence    for i in range(len(X)): v = X[i]; BODY          ->  for v in X: BODY          (i unused in BODY)
                                                                                      for i, v in enumerate(X): BODY   (otherwise)
N3  clamp written as a statement  if a < m: m = a      (any of < <= > >=, `not`)  ->  m = a if a < m else m    (read as min/max later)
"""
from __future__ import annotations

import ast
import copy
from typing import List, Optional, Set


def _names_loaded(nodes, name: str) -> int:
    n = 0
    for x in nodes:
        for y in ast.walk(x):
            if isinstance(y, ast.Name) and y.id == name and isinstance(y.ctx, ast.Load):
                n += 1
    return n


def _names_stored(nodes, name: str) -> int:
    n = 0
    for x in nodes:
        for y in ast.walk(x):
            if isinstance(y, ast.Name) and y.id == name and isinstance(y.ctx, (ast.Store, ast.Del)):
                n += 1
            if isinstance(y, (ast.Global, ast.Nonlocal)) and name in y.names:
                n += 10
    return n


def _is_incr(s: ast.stmt, name: str) -> bool:
    if isinstance(s, ast.AugAssign) and isinstance(s.target, ast.Name) and s.target.id == name and isinstance(s.op, ast.Add) and \
            isinstance(s.value, ast.Constant) and s.value.value == 1 and type(s.value.value) is int:
        return True
    if isinstance(s, ast.Assign) and len(s.targets) == 1 and isinstance(s.targets[0], ast.Name) and s.targets[0].id == name and \
            isinstance(s.value, ast.BinOp) and isinstance(s.value.op, ast.Add):
        l, r = s.value.left, s.value.right
        one = lambda e: isinstance(e, ast.Constant) and e.value == 1 and type(e.value) is int
        me = lambda e: isinstance(e, ast.Name) and e.id == name
        return (me(l) and one(r)) or (one(l) and me(r))
    return False


def _access_path(e) -> Optional[str]:
    """'a.b.c' for a name / attribute chain."""
    parts = []
    while isinstance(e, ast.Attribute):
        parts.append(e.attr)
        e = e.value
    if isinstance(e, ast.Name):
        parts.append(e.id)
        return '.'.join(reversed(parts))
    return None


def _has_nested_scope_use(nodes, name: str) -> bool:
    for x in nodes:
        for y in ast.walk(x):
            if isinstance(y, (ast.FunctionDef, ast.AsyncFunctionDef, ast.Lambda, ast.ListComp, ast.SetComp, ast.DictComp, ast.GeneratorExp)):
                for z in ast.walk(y):
                    if isinstance(z, ast.Name) and z.id == name:
                        return True
    return False


def _seq_untouched(body: List[ast.stmt], path: str, local_only: bool) -> bool:
    """Nothing in the loop body can change the sequence named by `path` (a local name, or an attribute chain)."""
    root = path.split('.')[0]
    for s in body:
        for y in ast.walk(s):
            # rebinding of the name / attribute
            if isinstance(y, (ast.Name, ast.Attribute)) and isinstance(getattr(y, 'ctx', None), (ast.Store, ast.Del)) and _access_path(y) == path:
                return False
            if isinstance(y, ast.Name) and isinstance(y.ctx, (ast.Store, ast.Del)) and y.id == root:
                return False
            # item stores / deletes
            if isinstance(y, ast.Subscript) and isinstance(y.ctx, (ast.Store, ast.Del)) and _access_path(y.value) == path:
                return False
            # method calls on the sequence (append / insert / remove / sort / ...)
            if isinstance(y, ast.Call) and isinstance(y.func, ast.Attribute) and _access_path(y.func.value) == path:
                return False
            if isinstance(y, ast.AugAssign) and _access_path(y.target) == path:
                return False
            # the sequence handed to something else that might change it
            if isinstance(y, ast.Call):
                for a in list(y.args) + [k.value for k in y.keywords]:
                    if _access_path(a) == path:
                        return False
            # any call at all can reach a shared (attribute) sequence
            if not local_only and isinstance(y, ast.Call):
                return False
    return True


def _is_list_expr(v) -> bool:
    if isinstance(v, (ast.List, ast.ListComp, ast.Tuple)):
        return True
    if isinstance(v, ast.Call) and isinstance(v.func, ast.Name) and v.func.id in ('list', 'sorted', 'tuple'):
        return True
    if isinstance(v, ast.BinOp) and isinstance(v.op, (ast.Mult, ast.Add)):
        return _is_list_expr(v.left) or _is_list_expr(v.right)
    return False


def list_fields_of(tree: ast.Module) -> Set[str]:
    """Attribute names that some method of the module initialises with a list (and never with anything else)."""
    yes, no = set(), set()
    for n in ast.walk(tree):
        if isinstance(n, (ast.Assign, ast.AnnAssign)) and getattr(n, 'value', None) is not None:
            tgts = n.targets if isinstance(n, ast.Assign) else [n.target]
            pairs = []
            for t in tgts:
                if isinstance(t, (ast.Tuple, ast.List)) and isinstance(n.value, (ast.Tuple, ast.List)) and len(t.elts) == len(n.value.elts):
                    pairs += list(zip(t.elts, n.value.elts))
                else:
                    pairs.append((t, n.value))
            for t, v in pairs:
                if isinstance(t, ast.Attribute) and isinstance(t.value, ast.Name):
                    (yes if _is_list_expr(v) else no).add(t.attr)
    return yes - no


def map_fields_of(tree: ast.Module) -> Set[str]:
    """Attribute names that some method of the module assigns a dict / table."""
    out = set()
    for n in ast.walk(tree):
        if isinstance(n, (ast.Assign, ast.AnnAssign)) and getattr(n, 'value', None) is not None:
            tgts = n.targets if isinstance(n, ast.Assign) else [n.target]
            pairs = []
            for t in tgts:
                if isinstance(t, (ast.Tuple, ast.List)) and isinstance(n.value, (ast.Tuple, ast.List)) and len(t.elts) == len(n.value.elts):
                    pairs += list(zip(t.elts, n.value.elts))
                else:
                    pairs.append((t, n.value))
            for t, v in pairs:
                if isinstance(t, ast.Attribute) and isinstance(t.value, ast.Name):
                    f = v.func if isinstance(v, ast.Call) else None
                    nm = f.id if isinstance(f, ast.Name) else (f.attr if isinstance(f, ast.Attribute) else '')
                    if isinstance(v, (ast.Dict, ast.DictComp)) or nm in ('dict', 'DataFrame', 'OrderedDict', 'defaultdict', 'Series'):
                        out.add(t.attr)
    return out


class _Normaliser:
    def __init__(self, fn: ast.AST, list_fields: Set[str] = frozenset(), map_fields: Set[str] = frozenset()):
        self.fn = fn
        self.list_fields = list_fields
        self.map_fields = map_fields
        self.changed = 0
        self.dead: Set[int] = set()      # nodes of statements that were replaced (still reachable from the old tree)

    # ------------------------------------------------------------------ driver
    def run(self):
        self._blocks(self.fn)
        return self.changed

    def _blocks(self, node):
        for fld in ('body', 'orelse', 'finalbody'):
            b = getattr(node, fld, None)
            if isinstance(b, list) and b and isinstance(b[0], ast.stmt):
                for s in b:
                    if not isinstance(s, (ast.FunctionDef, ast.AsyncFunctionDef, ast.ClassDef)):
                        self._blocks(s)
                setattr(node, fld, self._rewrite_block(b))
        for h in getattr(node, 'handlers', []) or []:
            self._blocks(h)

    def _rewrite_block(self, block: List[ast.stmt]) -> List[ast.stmt]:
        out = list(block)
        i = 0
        while i < len(out):
            s = out[i]
            if isinstance(s, ast.While):
                r = self._n1(out, i)
                if r is not None:
                    out = r
                    self.changed += 1
                    i = max(0, i - 1)     # the initialisation was removed: the new for-loop sits one position earlier
                    continue              # re-examine it for N2
            if isinstance(s, ast.If):
                r3 = self._n3(s)
                if r3 is not None:
                    out[i] = r3
                    self.changed += 1
                r4 = self._n4(s)
                if r4 is not None:
                    out = out[:i] + r4 + out[i + 1:]
                    self.changed += 1
                    continue
            if isinstance(s, ast.If):
                r6 = self._n6(out, i)
                if r6 is not None:
                    out = r6
                    self.changed += 1
                    continue
            if isinstance(s, ast.Try):
                r5 = self._n5(s)
                if r5 is not None:
                    out[i] = r5
                    self.changed += 1
            if isinstance(s, ast.For):
                r7 = self._n7(out, i)
                if r7 is not None:
                    out[i] = r7
                    s = r7
                    self.changed += 1
                self._resolve_len_bound(out, i)
                r2 = self._n2(s)
                if r2 is not None:
                    out[i] = r2
                    self.changed += 1
            i += 1
        return out

    # ------------------------------------------------------------------ N7
    @staticmethod
    def _n7(block: List[ast.stmt], fi: int) -> Optional[ast.For]:
        """`L = []` directly before `for v in X:` whose body appends to L exactly once, unconditionally, as its last top-level use of
        L, and otherwise only reads `len(L)` before that append: `len(L)` there is the number of completed iterations, i.e. the
        index `enumerate` would give - `for i, v in enumerate(X)` with `len(L)` replaced by `i`."""
        f = block[fi]
        if fi == 0 or f.orelse or not isinstance(f.target, ast.Name):
            return None
        pre = block[fi - 1]
        if not (isinstance(pre, ast.Assign) and len(pre.targets) == 1 and isinstance(pre.targets[0], ast.Name) and
                isinstance(pre.value, ast.List) and not pre.value.elts):
            return None
        L = pre.targets[0].id

        def is_append(st):
            return isinstance(st, ast.Expr) and isinstance(st.value, ast.Call) and isinstance(st.value.func, ast.Attribute) and \
                st.value.func.attr == 'append' and isinstance(st.value.func.value, ast.Name) and st.value.func.value.id == L and \
                len(st.value.args) == 1 and not st.value.keywords
        apps = [k for k, st in enumerate(f.body) if is_append(st)]
        if len(apps) != 1:
            return None
        k = apps[0]
        if any(isinstance(y, (ast.Continue, ast.Break, ast.Return)) for st in f.body for y in ast.walk(st)):
            return None
        lens = []
        for j, st in enumerate(f.body):
            for y in ast.walk(st):
                if isinstance(y, ast.Name) and y.id == L:
                    if j == k and y is f.body[k].value.func.value:
                        continue
                    par_ok = False
                    for z in ast.walk(st):
                        if isinstance(z, ast.Call) and isinstance(z.func, ast.Name) and z.func.id == 'len' and len(z.args) == 1 and z.args[0] is y:
                            par_ok = True
                            lens.append(z)
                    if not par_ok or j > k:
                        return None
        if not lens:
            return None
        if any(isinstance(y, (ast.FunctionDef, ast.Lambda, ast.ClassDef)) for st in f.body for y in ast.walk(st)):
            return None
        idx = f"_n7i{f.lineno}"
        import copy
        f2 = copy.deepcopy(f)
        orig = list(ast.walk(f))
        cp = list(ast.walk(f2))
        ids = {id(z) for z in lens}
        repl = {id(c): True for o, c in zip(orig, cp) if id(o) in ids}

        class R(ast.NodeTransformer):
            def visit_Call(self, n):
                if id(n) in repl:
                    return ast.copy_location(ast.Name(id=idx, ctx=ast.Load()), n)
                return self.generic_visit(n)
        f2 = R().visit(f2)
        f2.target = ast.Tuple(elts=[ast.Name(id=idx, ctx=ast.Store()), f2.target], ctx=ast.Store())
        f2.iter = ast.Call(func=ast.Name(id='enumerate', ctx=ast.Load()), args=[f2.iter], keywords=[])
        ast.copy_location(f2.target, f)
        ast.fix_missing_locations(f2)
        return f2

    # ------------------------------------------------------------------ N1
    def _n1(self, block: List[ast.stmt], wi: int) -> Optional[List[ast.stmt]]:
        w: ast.While = block[wi]
        if w.orelse or not isinstance(w.test, ast.Compare) or len(w.test.ops) != 1 or not isinstance(w.test.ops[0], ast.Lt):
            return None
        if not isinstance(w.test.left, ast.Name):
            return None
        name = w.test.left.id
        bound = w.test.comparators[0]
        # the increment: exactly one, at the top level of the body
        incs = [k for k, s in enumerate(w.body) if _is_incr(s, name)]
        if len(incs) != 1 or _names_stored(w.body, name) != 1:
            return None
        k = incs[0]
        pre, post = w.body[:k], w.body[k + 1:]
        if _names_loaded(post, name):
            return None       # would see the incremented value
        for s in pre:
            for y in ast.walk(s):
                if isinstance(y, ast.Continue):
                    return None   # skipping the increment: not a counting loop
        if _has_nested_scope_use(w.body, name):
            return None
        # the initialisation: the closest preceding statement of this block that assigns the counter; nothing in between reads or
        # writes it
        ii = None
        for j in range(wi - 1, -1, -1):
            s = block[j]
            if isinstance(s, ast.Assign) and len(s.targets) == 1 and isinstance(s.targets[0], ast.Name) and s.targets[0].id == name:
                ii = j
                break
            if _names_loaded([s], name) or _names_stored([s], name):
                return None
            if isinstance(s, (ast.For, ast.While, ast.If, ast.Try, ast.With, ast.Return, ast.Raise, ast.FunctionDef, ast.ClassDef)):
                return None
        if ii is None:
            return None
        start = block[ii].value
        if any(isinstance(y, ast.Call) for y in ast.walk(start)) or _names_loaded([start], name):
            return None
        # the counter is dead after the loop
        if _names_loaded(block[wi + 1:], name):
            return None
        if self._used_elsewhere(name, block, ii, wi):
            return None
        # the bound is the same on every test
        if isinstance(bound, ast.Name):
            if _names_stored(w.body, bound.id):
                return None
        elif isinstance(bound, ast.Constant):
            pass
        elif isinstance(bound, ast.Call) and isinstance(bound.func, ast.Name) and bound.func.id == 'len' and len(bound.args) == 1 \
                and not bound.keywords and _access_path(bound.args[0]) is not None:
            path = _access_path(bound.args[0])
            if not _seq_untouched(w.body, path, local_only='.' not in path):
                return None
        else:
            return None
        zero = isinstance(start, ast.Constant) and start.value == 0 and type(start.value) is int
        rng = ast.Call(func=ast.Name(id='range', ctx=ast.Load()), args=([] if zero else [start]) + [bound], keywords=[])
        loop = ast.For(target=ast.Name(id=name, ctx=ast.Store()), iter=rng, body=(pre + post) or [ast.Pass()], orelse=[], type_comment=None)
        ast.copy_location(loop, w)
        ast.fix_missing_locations(loop)
        self.dead |= {id(y) for st_ in (block[ii], w) for y in ast.walk(st_)}
        return block[:ii] + block[ii + 1:wi] + [loop] + block[wi + 1:]

    def _used_elsewhere(self, name: str, block, ii: int, wi: int) -> bool:
        """Any use of the counter in the function outside its initialisation and the loop (other blocks, later code)."""
        inside = {id(y) for s in (block[ii], block[wi]) for y in ast.walk(s)}
        # other counting loops that reuse the name bring their own initialisation
        for z in ast.walk(self.fn):
            if isinstance(z, ast.While) and isinstance(z.test, ast.Compare) and isinstance(z.test.left, ast.Name) and z.test.left.id == name:
                inside |= {id(y) for y in ast.walk(z)}
            if isinstance(z, ast.Assign) and len(z.targets) == 1 and isinstance(z.targets[0], ast.Name) and z.targets[0].id == name and \
                    not _names_loaded([z.value], name):
                inside |= {id(y) for y in ast.walk(z)}
            # a nested function / lambda / comprehension that binds the name itself (parameter, comprehension target) is another variable
            if z is not self.fn and isinstance(z, (ast.FunctionDef, ast.AsyncFunctionDef, ast.Lambda)):
                a = z.args
                ps = {p.arg for p in a.posonlyargs + a.args + a.kwonlyargs} | ({a.vararg.arg} if a.vararg else set()) | \
                     ({a.kwarg.arg} if a.kwarg else set())
                if name in ps:
                    inside |= {id(y) for y in ast.walk(z)}
        for y in ast.walk(self.fn):
            if isinstance(y, ast.Name) and y.id == name and id(y) not in inside:
                # stores in unrelated places (another counting loop reusing the name) are harmless only if they come with their own
                # initialisation; loads are not
                if isinstance(y.ctx, ast.Load):
                    return True
        return False

    # ------------------------------------------------------------------ N6
    @staticmethod
    def _n6(block: List[ast.stmt], i: int) -> Optional[List[ast.stmt]]:
        """`if T: return True` followed by `return False` (or as if/else; or with the constants swapped) where T is made of
        comparisons, `not`, `and` / `or`, isinstance: `return T` / `return not T` - T already is the bool that is returned."""
        s = block[i]
        if not isinstance(s, ast.If):
            return None         # an earlier normal form already rewrote this statement

        def boolish(t):
            if isinstance(t, ast.Compare):
                return True
            if isinstance(t, ast.UnaryOp) and isinstance(t.op, ast.Not):
                return True
            if isinstance(t, ast.BoolOp):
                return all(boolish(v) for v in t.values)
            return isinstance(t, ast.Call) and isinstance(t.func, ast.Name) and t.func.id in ('isinstance', 'issubclass', 'callable', 'hasattr', 'bool')

        def const_ret(st_):
            if isinstance(st_, ast.Return) and isinstance(st_.value, ast.Constant) and isinstance(st_.value.value, bool):
                return st_.value.value
            return None
        if len(s.body) != 1 or const_ret(s.body[0]) is None or not boolish(s.test):
            return None
        a = const_ret(s.body[0])
        if len(s.orelse) == 1 and const_ret(s.orelse[0]) is not None:
            b, rest = const_ret(s.orelse[0]), block[i + 1:]
        elif not s.orelse and i + 1 < len(block) and const_ret(block[i + 1]) is not None:
            b, rest = const_ret(block[i + 1]), block[i + 2:]
        else:
            return None
        if a == b:
            return None
        val = s.test if a else ast.UnaryOp(op=ast.Not(), operand=s.test)
        ret = ast.Return(value=val)
        ast.copy_location(ret, s)
        ast.fix_missing_locations(ret)
        return block[:i] + [ret] + rest

    # ------------------------------------------------------------------ N5
    @staticmethod
    def _n5(s: ast.Try) -> Optional[ast.stmt]:
        """`try: return getattr(o, n)` / `x = getattr(o, n)` with `except AttributeError: return D` / `x = D` (D a constant or a
        name) -> `getattr(o, n, D)`: the three-argument form catches exactly the same AttributeError."""
        if s.orelse or s.finalbody or len(s.body) != 1 or len(s.handlers) != 1:
            return None
        h = s.handlers[0]
        if not (isinstance(h.type, ast.Name) and h.type.id == 'AttributeError' and h.name is None and len(h.body) == 1):
            return None
        b, hb = s.body[0], h.body[0]

        def ga(v):
            return isinstance(v, ast.Call) and isinstance(v.func, ast.Name) and v.func.id == 'getattr' and len(v.args) == 2 and not v.keywords \
                and all(_access_path(a) is not None or isinstance(a, (ast.Constant, ast.Subscript)) for a in v.args) \
                and not any(isinstance(y, ast.Call) for a in v.args for y in ast.walk(a))

        def const(v):
            return isinstance(v, (ast.Constant, ast.Name))
        if isinstance(b, ast.Return) and isinstance(hb, ast.Return) and ga(b.value) and hb.value is not None and const(hb.value):
            call = ast.Call(func=b.value.func, args=list(b.value.args) + [hb.value], keywords=[])
            return ast.fix_missing_locations(ast.copy_location(ast.Return(value=ast.copy_location(call, b.value)), s))
        if isinstance(b, ast.Assign) and isinstance(hb, ast.Assign) and ga(b.value) and const(hb.value) and len(b.targets) == 1 and \
                len(hb.targets) == 1 and isinstance(b.targets[0], ast.Name) and ast.dump(b.targets[0]) == ast.dump(hb.targets[0]):
            call = ast.Call(func=b.value.func, args=list(b.value.args) + [hb.value], keywords=[])
            return ast.fix_missing_locations(ast.copy_location(ast.Assign(targets=b.targets, value=ast.copy_location(call, b.value), type_comment=None), s))
        return None

    # ------------------------------------------------------------------ N4
    @staticmethod
    def _n4(s: ast.If) -> Optional[List[ast.stmt]]:
        """`if X: [name = <attribute chain>]*; for v in X: BODY` (no else) -> the statements themselves: a loop over an empty X runs
        zero times, and the hoisted attribute reads have no effect (X a name or attribute chain, tested by truthiness or len())."""
        if s.orelse or not s.body or not isinstance(s.body[-1], ast.For) or s.body[-1].orelse:
            return None
        t = s.test
        if isinstance(t, ast.Compare) and len(t.ops) == 1 and isinstance(t.comparators[0], ast.Constant) and t.comparators[0].value == 0 \
                and type(t.comparators[0].value) is int and isinstance(t.ops[0], (ast.Gt, ast.NotEq)):
            t = t.left
        if isinstance(t, ast.Call) and isinstance(t.func, ast.Name) and t.func.id == 'len' and len(t.args) == 1 and not t.keywords:
            t = t.args[0]
        if _access_path(t) is None or ast.dump(t) != ast.dump(s.body[-1].iter):
            return None
        xname = _access_path(t)
        for a in s.body[:-1]:
            if not (isinstance(a, ast.Assign) and len(a.targets) == 1 and isinstance(a.targets[0], ast.Name)
                    and _access_path(a.value) is not None and a.targets[0].id != xname.split('.')[0]):
                return None
        return list(s.body)

    # ------------------------------------------------------------------ N3
    @staticmethod
    def _n3(s: ast.If) -> Optional[ast.stmt]:
        if s.orelse or len(s.body) != 1:
            return None
        b = s.body[0]
        if not (isinstance(b, ast.Assign) and len(b.targets) == 1 and isinstance(b.targets[0], ast.Name)):
            return None
        test = s.test
        neg = False
        while isinstance(test, ast.UnaryOp) and isinstance(test.op, ast.Not):
            test = test.operand
            neg = not neg
        if not (isinstance(test, ast.Compare) and len(test.ops) == 1 and isinstance(test.ops[0], (ast.Lt, ast.LtE, ast.Gt, ast.GtE))):
            return None
        l, r = test.left, test.comparators[0]
        tname = b.targets[0].id
        v = b.value
        for e in (l, r, v):
            if any(isinstance(y, (ast.Call, ast.NamedExpr, ast.Await, ast.Yield)) and not (
                    isinstance(y, ast.Call) and isinstance(y.func, ast.Name) and y.func.id in ('len', 'abs', 'int', 'float', 'min', 'max'))
                   for y in ast.walk(e)):
                return None
        dl, dr, dv = ast.dump(l), ast.dump(r), ast.dump(v)
        dt = ast.dump(ast.Name(id=tname, ctx=ast.Load()))
        if {dl, dr} != {dt, dv} or dt == dv:
            return None
        keep = ast.Name(id=tname, ctx=ast.Load())
        new = ast.Assign(targets=[b.targets[0]], value=ast.IfExp(test=s.test, body=v, orelse=keep))
        ast.copy_location(new, s)
        ast.fix_missing_locations(new)
        return new

    def _resolve_len_bound(self, block: List[ast.stmt], fi: int):
        """`n = len(X); ...; for i in range(n)`: the bound written out as len(X) when nothing in between touches n or X."""
        f = block[fi]
        if not (isinstance(f.iter, ast.Call) and isinstance(f.iter.func, ast.Name) and f.iter.func.id == 'range' and not f.iter.keywords
                and f.iter.args and isinstance(f.iter.args[-1], ast.Name) and len(f.iter.args) <= 2):
            return
        b = f.iter.args[-1].id
        for j in range(fi - 1, -1, -1):
            st_ = block[j]
            if isinstance(st_, ast.Assign) and len(st_.targets) == 1 and isinstance(st_.targets[0], ast.Name) and st_.targets[0].id == b:
                v = st_.value
                if isinstance(v, ast.Call) and isinstance(v.func, ast.Name) and v.func.id == 'len' and len(v.args) == 1 and not v.keywords:
                    path = _access_path(v.args[0])
                    if path and _seq_untouched(block[j + 1:fi] + f.body, path, local_only='.' not in path) and not _names_stored(f.body, b):
                        f.iter.args[-1] = copy.deepcopy(v)
                return
            if _names_stored([st_], b) or isinstance(st_, (ast.For, ast.While, ast.If, ast.Try, ast.With)):
                return

    # ------------------------------------------------------------------ N2
    def _n2(self, f: ast.For) -> Optional[ast.For]:
        if f.orelse and False:
            return None
        if not isinstance(f.target, ast.Name) or not isinstance(f.iter, ast.Call) or not isinstance(f.iter.func, ast.Name) \
                or f.iter.func.id != 'range' or f.iter.keywords:
            return None
        a = f.iter.args
        if len(a) == 1:
            hi = a[0]
        elif len(a) == 2 and isinstance(a[0], ast.Constant) and a[0].value == 0 and type(a[0].value) is int:
            hi = a[1]
        else:
            return None
        if not (isinstance(hi, ast.Call) and isinstance(hi.func, ast.Name) and hi.func.id == 'len' and len(hi.args) == 1 and not hi.keywords):
            return None
        path = _access_path(hi.args[0])
        if path is None:
            return None
        idx = f.target.id
        if self._may_be_mapping(path):
            return None       # X[i] for i in range(len(X)) enumerates X only if X is a sequence (not a dict / table keyed 0..n-1)
        if not _seq_untouched(f.body, path, local_only='.' not in path):
            return None
        if _names_stored(f.body, idx) or _has_nested_scope_use(f.body, idx):
            return None
        if not f.body:
            return None
        def is_elem(e):
            return isinstance(e, ast.Subscript) and isinstance(e.ctx, ast.Load) and _access_path(e.value) == path and \
                isinstance(e.slice, ast.Name) and e.slice.id == idx
        # the element read `v = X[i]`: a top-level statement of the body; what precedes it does not touch v (so binding v at the
        # head of the iteration changes nothing - X[i] cannot fail for i in range(len(X)) with X untouched)
        pos = None
        for k, st_ in enumerate(f.body):
            if isinstance(st_, ast.Assign) and len(st_.targets) == 1 and isinstance(st_.targets[0], ast.Name) and is_elem(st_.value):
                pos = k
                break
        if pos is None:
            return self._n2_inline(f, hi, path, idx, is_elem)
        first = f.body[pos]
        var = first.targets[0].id
        before = f.body[:pos]
        if _names_loaded(before, var) or _names_stored(before, var):
            return None
        rest = before + f.body[pos + 1:]
        if var == idx or _names_stored(rest, var):
            return None
        used = _names_loaded(rest, idx)
        seq = copy.deepcopy(hi.args[0])
        if used == 0 and not self._idx_used_after(f, idx):
            target = ast.Name(id=var, ctx=ast.Store())
            it = seq
        else:
            target = ast.Tuple(elts=[ast.Name(id=idx, ctx=ast.Store()), ast.Name(id=var, ctx=ast.Store())], ctx=ast.Store())
            it = ast.Call(func=ast.Name(id='enumerate', ctx=ast.Load()), args=[seq], keywords=[])
        loop = ast.For(target=target, iter=it, body=rest or [ast.Pass()], orelse=f.orelse, type_comment=None)
        ast.copy_location(loop, f)
        ast.fix_missing_locations(loop)
        return loop

    def _n2_inline(self, f: ast.For, hi, path: str, idx: str, is_elem) -> Optional[ast.For]:
        """No `v = X[i]` statement: every X[i] in the body becomes a fresh element variable bound by the loop."""
        reads = [y for st_ in f.body for y in ast.walk(st_) if is_elem(y)]
        if not reads:
            return None
        var = f"{idx}__elem"
        if _names_loaded(f.body, var) or _names_stored(f.body, var):
            return None
        read_ids = {id(r) for r in reads}

        class R(ast.NodeTransformer):
            def visit_Subscript(self, n):
                if id(n) in read_ids:
                    return ast.copy_location(ast.Name(id=var, ctx=ast.Load()), n)
                return self.generic_visit(n)
        body = [R().visit(st_) for st_ in f.body]
        used = _names_loaded(body, idx)
        seq = copy.deepcopy(hi.args[0])
        if used == 0 and not self._idx_used_after(f, idx):
            target = ast.Name(id=var, ctx=ast.Store())
            it = seq
        else:
            target = ast.Tuple(elts=[ast.Name(id=idx, ctx=ast.Store()), ast.Name(id=var, ctx=ast.Store())], ctx=ast.Store())
            it = ast.Call(func=ast.Name(id='enumerate', ctx=ast.Load()), args=[seq], keywords=[])
        loop = ast.For(target=target, iter=it, body=body, orelse=f.orelse, type_comment=None)
        ast.copy_location(loop, f)
        ast.fix_missing_locations(loop)
        return loop

    def _may_be_mapping(self, path: str) -> bool:
        """The name / attribute is (syntactically) known to hold a dict or a table somewhere in this function / module."""
        def mapping_expr(v):
            if isinstance(v, (ast.Dict, ast.DictComp)):
                return True
            if isinstance(v, ast.Call):
                f = v.func
                nm = f.id if isinstance(f, ast.Name) else (f.attr if isinstance(f, ast.Attribute) else '')
                return nm in ('dict', 'DataFrame', 'OrderedDict', 'defaultdict', 'Series')
            return False
        if '.' in path:
            return path.split('.')[-1] in self.map_fields
        for y in ast.walk(self.fn):
            if isinstance(y, ast.Assign) and any(isinstance(t, ast.Name) and t.id == path for t in y.targets) and mapping_expr(y.value):
                return True
            if isinstance(y, ast.AnnAssign) and isinstance(y.target, ast.Name) and y.target.id == path and y.value is not None and mapping_expr(y.value):
                return True
        return False

    def _is_sequence(self, path: str) -> bool:
        """The name / attribute is known to hold a list or tuple: a local only ever assigned list-valued expressions, the
        *args tuple, or a field that the module's classes initialise with a list."""
        if '.' in path:
            return path.count('.') == 1 and path.split('.')[1] in self.list_fields
        a = self.fn.args
        if a.vararg is not None and a.vararg.arg == path:
            return True
        vals = []
        for y in ast.walk(self.fn):
            if isinstance(y, ast.Assign):
                for t in y.targets:
                    if isinstance(t, ast.Name) and t.id == path:
                        vals.append(y.value)
                    elif isinstance(t, (ast.Tuple, ast.List)) and any(isinstance(e, ast.Name) and e.id == path for e in t.elts):
                        vals.append(None)
            elif isinstance(y, (ast.AnnAssign, ast.AugAssign)) and isinstance(y.target, ast.Name) and y.target.id == path:
                vals.append(y.value if isinstance(y, ast.AnnAssign) else None)
            elif isinstance(y, (ast.For, ast.comprehension)) and any(isinstance(e, ast.Name) and e.id == path for e in ast.walk(y.target)):
                vals.append(None)
        return bool(vals) and all(v is not None and _is_list_expr(v) for v in vals)

    def _idx_used_after(self, f: ast.For, idx: str) -> bool:
        inside = {id(y) for y in ast.walk(f)}
        for y in ast.walk(self.fn):
            if isinstance(y, ast.Name) and y.id == idx and isinstance(y.ctx, ast.Load) and id(y) not in inside and id(y) not in self.dead:
                return True
        return False


class _DropAnnotations(ast.NodeTransformer):
    """N0: `x: T = v` is `x = v` (annotations of assignments are not evaluated for effect in this package: no dataclasses,
    no reads of __annotations__); a bare `x: T` declares nothing the analysis needs."""

    def __init__(self):
        self.n = 0

    def visit_AnnAssign(self, node):
        self.n += 1
        if node.value is None:
            return ast.copy_location(ast.Pass(), node)
        return ast.copy_location(ast.Assign(targets=[node.target], value=node.value, type_comment=None), node)


def _expand_wrapping_decorators(tree: ast.Module) -> int:
    """ND: a function decorated with a module-level decorator of the standard shape

        def deco(m):
            @functools.wraps(m)
            def wrapper(p1, p2, ...):        # the same positional parameters as the decorated function
                PRE                          # does not mention m
                return m(p1, p2, ...)        # every parameter forwarded, in order
            return wrapper

    is the function whose body is PRE (wrapper's parameter names renamed to the function's own) followed by its own body, with
    the wrapper's defaults.  That is what the decorated name is bound to, statement for statement."""
    import copy
    decos = {}
    for node in tree.body:
        if not isinstance(node, ast.FunctionDef) or len(node.args.args) != 1 or node.args.vararg or node.args.kwarg or node.args.kwonlyargs:
            continue
        body = [s for s in node.body if not (isinstance(s, ast.Expr) and isinstance(s.value, ast.Constant))]
        if len(body) != 2 or not isinstance(body[0], ast.FunctionDef) or not isinstance(body[1], ast.Return) or \
                not (isinstance(body[1].value, ast.Name) and body[1].value.id == body[0].name):
            continue
        m = node.args.args[0].arg
        w = body[0]
        if w.args.vararg or w.args.kwarg or w.args.kwonlyargs or w.args.posonlyargs:
            continue
        wb = [s for s in w.body if not (isinstance(s, ast.Expr) and isinstance(s.value, ast.Constant))]
        wparams = [a.arg for a in w.args.args]
        # exactly one use of m: a statement `return m(p1, p2, ...)` somewhere in the wrapper
        uses = [y for s in wb for y in ast.walk(s) if isinstance(y, ast.Name) and y.id == m]
        rets = [y for s in wb for y in ast.walk(s) if isinstance(y, ast.Return) and isinstance(y.value, ast.Call) and
                isinstance(y.value.func, ast.Name) and y.value.func.id == m and not y.value.keywords and
                [a.id if isinstance(a, ast.Name) else None for a in y.value.args] == wparams]
        if len(uses) != 1 or len(rets) != 1:
            continue
        if any(isinstance(y, (ast.Nonlocal, ast.Global, ast.Yield, ast.YieldFrom, ast.FunctionDef, ast.Lambda)) for s in wb for y in ast.walk(s)):
            continue
        if any(isinstance(y, (ast.For, ast.While)) and any(z is rets[0] for z in ast.walk(y)) for s in wb for y in ast.walk(s)):
            continue            # the call site is inside a loop of the wrapper
        decos[node.name] = (w, (wb, rets[0]), wparams)
    if not decos:
        return 0
    n = 0
    for node in ast.walk(tree):
        if not isinstance(node, ast.FunctionDef) or not node.decorator_list:
            continue
        for d in list(node.decorator_list):
            if isinstance(d, ast.Name) and d.id in decos:
                w, pre, wparams = decos[d.id]
                fparams = [a.arg for a in node.args.args]
                if len(fparams) != len(wparams) or node.args.vararg or node.args.kwarg or node.args.kwonlyargs or node.args.posonlyargs:
                    continue
                ren = dict(zip(wparams, fparams))
                wb, site = pre
                site._nd_site = True
                wb = copy.deepcopy(wb)          # every decorated function gets its own copy of the wrapper's statements
                del site._nd_site
                site = [y for s_ in wb for y in ast.walk(s_) if getattr(y, '_nd_site', False)][0]
                locals_f = {y.id for s in node.body for y in ast.walk(s) if isinstance(y, ast.Name)}
                pre_locals = {y.id for s in wb for y in ast.walk(s) if isinstance(y, ast.Name) and isinstance(y.ctx, ast.Store)}
                if pre_locals & (locals_f | set(fparams)):
                    continue            # the wrapper's own locals would capture names of the function
                doc = [s for s in node.body[:1] if isinstance(s, ast.Expr) and isinstance(s.value, ast.Constant)]
                own_body = node.body[len(doc):] + [ast.Return(value=None)]

                class R(ast.NodeTransformer):
                    def visit_Name(s, x):
                        return ast.copy_location(ast.Name(id=ren.get(x.id, x.id), ctx=x.ctx), x)

                def splice(stmts):
                    out = []
                    for s_ in stmts:
                        if s_ is site:
                            out.extend(own_body)            # `return m(...)`: the function's own body, then return
                            continue
                        s2 = copy.copy(s_)
                        for fld in ('body', 'orelse', 'finalbody'):
                            b_ = getattr(s_, fld, None)
                            if isinstance(b_, list) and b_ and isinstance(b_[0], ast.stmt):
                                setattr(s2, fld, splice(b_))
                        if isinstance(s_, ast.Try):
                            s2.handlers = [copy.copy(h) for h in s_.handlers]
                            for h2, h in zip(s2.handlers, s_.handlers):
                                h2.body = splice(h.body)
                        out.append(s2)
                    return out
                spliced = splice(wb)
                # rename the wrapper's parameter names to the function's own, outside the function's own statements
                own_ids = {id(y) for s_ in own_body for y in ast.walk(s_)}

                class R2(ast.NodeTransformer):
                    def visit_Name(s, x):
                        if id(x) in own_ids:
                            return x
                        return ast.copy_location(ast.Name(id=ren.get(x.id, x.id), ctx=x.ctx), x)
                node.body = doc + [R2().visit(s_) for s_ in spliced]
                node.args.defaults = copy.deepcopy(w.args.defaults)
                node.decorator_list.remove(d)
                ast.fix_missing_locations(node)
                n += 1
    return n


def _straight_line_generators(tree: ast.Module) -> int:
    """NG: a generator whose body is plain assignments followed by a fixed sequence of `yield <call-free expression>` statements
    produces exactly those values in that order: for every consumer (unpacking, a for loop, tuple()) it is the tuple of them."""
    n = 0
    for node in ast.walk(tree):
        if not isinstance(node, ast.FunctionDef):
            continue
        body = [s for s in node.body if not (isinstance(s, ast.Expr) and isinstance(s.value, ast.Constant))]
        k = 0
        while k < len(body) and isinstance(body[k], ast.Assign) and len(body[k].targets) == 1 and isinstance(body[k].targets[0], ast.Name) \
                and not any(isinstance(y, (ast.Call, ast.Yield, ast.YieldFrom)) for y in ast.walk(body[k].value)):
            k += 1
        ys = body[k:]
        if len(ys) < 2 or len(ys) > 8 or not all(isinstance(s, ast.Expr) and isinstance(s.value, ast.Yield) and s.value.value is not None and
                                                not any(isinstance(y, (ast.Call, ast.Yield, ast.YieldFrom, ast.NamedExpr))
                                                        for y in ast.walk(s.value.value)) for s in ys):
            continue
        doc = [s for s in node.body[:1] if isinstance(s, ast.Expr) and isinstance(s.value, ast.Constant)]
        ret = ast.Return(value=ast.Tuple(elts=[s.value.value for s in ys], ctx=ast.Load()))
        ast.copy_location(ret, ys[0])
        node.body = doc + body[:k] + [ret]
        ast.fix_missing_locations(node)
        n += 1
    return n


def _drop_overload_stubs(tree: ast.Module) -> int:
    """NO: `@overload` stubs are typing declarations; the name is bound by the last, undecorated definition."""
    n = 0
    for node in ast.walk(tree):
        body = getattr(node, 'body', None)
        if not isinstance(body, list) or not isinstance(node, (ast.Module, ast.ClassDef)):
            continue
        keep = []
        for s in body:
            if isinstance(s, ast.FunctionDef) and any((isinstance(d, ast.Name) and d.id == 'overload') or
                                                      (isinstance(d, ast.Attribute) and d.attr == 'overload') for d in s.decorator_list):
                n += 1
                continue
            keep.append(s)
        if len(keep) != len(body):
            node.body = keep or [ast.Pass()]
    return n


def _synthesise_dataclass_inits(tree: ast.Module) -> int:
    """NC: a @dataclass class without an explicit __init__ gets the constructor the decorator generates - one parameter per
    annotated class-level field, in order, with the field's default, stored as `self.<field> = <field>` - so that constructing
    it, reading its fields and calling its methods are analysed like any hand-written class.  Classes that use `field(...)`
    with a factory, `InitVar`, `kw_only` or `__post_init__` are left alone (unsupported: their constructor calls stay opaque)."""
    n = 0
    aliases = {}
    nt_names = {'NamedTuple'}
    for s0 in tree.body:
        if isinstance(s0, ast.ImportFrom) and s0.module == 'typing':
            nt_names |= {a.asname for a in s0.names if a.name == 'NamedTuple' and a.asname}
    for s0 in tree.body:
        if isinstance(s0, ast.Assign) and len(s0.targets) == 1 and isinstance(s0.targets[0], ast.Name) and isinstance(s0.value, ast.Call):
            f0 = s0.value.func
            if (isinstance(f0, ast.Name) and f0.id == 'dataclass') or (isinstance(f0, ast.Attribute) and f0.attr == 'dataclass'):
                aliases[s0.targets[0].id] = s0.value        # _holder = dataclass(eq=False, ...)
    for node in ast.walk(tree):
        if not isinstance(node, ast.ClassDef):
            continue
        deco = None
        for d in node.decorator_list:
            if isinstance(d, ast.Name) and d.id in aliases:
                d = aliases[d.id]
            nm = d.func if isinstance(d, ast.Call) else d
            nm = nm.id if isinstance(nm, ast.Name) else (nm.attr if isinstance(nm, ast.Attribute) else None)
            if nm == 'dataclass':
                deco = d
        # `class _Slot(NamedTuple): a: int; b: int = 0` has the same generated constructor (and is a tuple of its fields besides)
        is_nt = any((isinstance(b, ast.Name) and b.id in nt_names) or (isinstance(b, ast.Attribute) and b.attr == 'NamedTuple')
                    for b in node.bases)
        if deco is None and not is_nt:
            continue
        if isinstance(deco, ast.Call) and any(k.arg in ('init', 'kw_only') and not (isinstance(k.value, ast.Constant) and k.value.value is
                                                                                   (True if k.arg == 'init' else False)) for k in deco.keywords):
            continue
        if any(isinstance(s, ast.FunctionDef) and s.name in ('__init__', '__post_init__') for s in node.body):
            continue
        if not is_nt and any(isinstance(b, ast.Name) and b.id != 'object' or isinstance(b, ast.Attribute) for b in node.bases):
            continue            # inherited dataclass fields are not collected
        if is_nt and len(node.bases) != 1:
            continue
        fields, ok = [], True
        for s in node.body:
            if isinstance(s, ast.AnnAssign) and isinstance(s.target, ast.Name):
                ann = ast.unparse(s.annotation)
                if 'ClassVar' in ann:
                    continue
                if 'InitVar' in ann:
                    ok = False
                default = s.value
                if isinstance(default, ast.Call) and (getattr(default.func, 'id', None) == 'field' or getattr(default.func, 'attr', None) == 'field'):
                    kws = {k.arg: k.value for k in default.keywords}
                    if set(kws) - {'default', 'repr', 'compare', 'hash', 'metadata'}:
                        ok = False
                    default = kws.get('default')
                fields.append((s.target.id, s.annotation, default))
        if not ok or not fields:
            continue
        seen_default = False
        for _, _, d in fields:
            if d is not None:
                seen_default = True
            elif seen_default:
                ok = False
        if not ok:
            continue
        import copy
        args = ast.arguments(posonlyargs=[], args=[ast.arg(arg='self')] + [ast.arg(arg=f, annotation=copy.deepcopy(a)) for f, a, _ in fields],
                             vararg=None, kwonlyargs=[], kw_defaults=[], kwarg=None,
                             defaults=[copy.deepcopy(d) for _, _, d in fields if d is not None])
        body = [ast.Assign(targets=[ast.Attribute(value=ast.Name(id='self', ctx=ast.Load()), attr=f, ctx=ast.Store())],
                           value=ast.Name(id=f, ctx=ast.Load())) for f, _, _ in fields]
        init = ast.FunctionDef(name='__init__', args=args, body=body, decorator_list=[], returns=None, type_comment=None)
        try:
            init.type_params = []
        except Exception:
            pass
        ast.copy_location(init, node)
        ast.fix_missing_locations(init)
        for y in ast.walk(init):
            if hasattr(y, 'lineno'):
                y.lineno = y.end_lineno = node.lineno
        # class-level defaults stay (they are also class attributes); the annotations without values are dropped by N0
        node.body.append(init)
        if is_nt:
            node._namedtuple_fields = [f for f, _, _ in fields]
        n += 1
    return n


def normalise_module(tree: ast.Module) -> int:
    """Apply the normal forms to every function of the module, in place; returns the number of rewrites."""
    n = _synthesise_dataclass_inits(tree) + _drop_overload_stubs(tree) + _expand_wrapping_decorators(tree) + _straight_line_generators(tree)
    uses_annotations = any(isinstance(x, ast.Attribute) and x.attr == '__annotations__' or
                           isinstance(x, ast.Name) and x.id in ('dataclass', 'get_type_hints', 'NamedTuple') for x in ast.walk(tree))
    if not uses_annotations:
        d = _DropAnnotations()
        d.visit(tree)
        ast.fix_missing_locations(tree)
        n += d.n
    lf = list_fields_of(tree)
    mf = map_fields_of(tree)
    for node in ast.walk(tree):
        if isinstance(node, (ast.FunctionDef, ast.AsyncFunctionDef)):
            n += _Normaliser(node, lf, mf).run()
    return n
