"""Symbolic terms, polynomial normal form, predicates and their comparison.

These are rewrite rules with stated side conditions (DESIGN.md 3.3 `norm`).  Nothing of the analysed package is
ever computed on concrete inputs; the only "evaluation" is of *predicate skeletons* over the finite set of
order-regions induced by the thresholds that occur in them (a truth table), used to compare two guards.
"""
from __future__ import annotations

import itertools
from dataclasses import dataclass
from fractions import Fraction
from typing import Dict, Iterable, List, Optional, Tuple


# ============================================================================ terms
class Term:
    __slots__ = ()

    def key(self) -> str:
        return repr(self)


@dataclass(frozen=True)
class Sym(Term):
    name: str

    def __repr__(self):
        return self.name


@dataclass(frozen=True)
class Const(Term):
    value: object     # str / None / bool / bytes / Ellipsis

    def __repr__(self):
        return repr(self.value)


@dataclass(frozen=True)
class Num(Term):
    value: object     # Fraction or float

    def __repr__(self):
        v = self.value
        if isinstance(v, Fraction) and v.denominator == 1:
            return str(v.numerator)
        return str(v)


@dataclass(frozen=True)
class Attr(Term):
    base: Term
    name: str

    def __repr__(self):
        return f"{self.base!r}.{self.name}"


@dataclass(frozen=True)
class Sub(Term):
    base: Term
    index: Term

    def __repr__(self):
        return f"{self.base!r}[{self.index!r}]"


@dataclass(frozen=True)
class App(Term):
    fn: str
    args: Tuple[Term, ...]
    kw: Tuple[Tuple[str, Term], ...] = ()

    def __repr__(self):
        a = [repr(x) for x in self.args] + [f"{k}={v!r}" for k, v in self.kw]
        return f"{self.fn}({', '.join(a)})"


@dataclass(frozen=True)
class TupleT(Term):
    items: Tuple[Term, ...]

    def __repr__(self):
        return '(' + ', '.join(map(repr, self.items)) + ',)'


@dataclass(frozen=True)
class Fresh(Term):
    """A container allocated in this activation (list/dict/set literal, comprehension, list(), dict(), ...)."""
    kind: str                  # 'list' | 'dict' | 'set' | 'listcomp' | 'dictcomp' | 'gen' | 'call:<name>'
    items: Tuple[Term, ...] = ()
    site: int = 0              # line number of the allocation (distinguishes allocations; not compared by rules)
    detail: object = None      # for comprehensions: CompInfo

    def __repr__(self):
        return f"fresh-{self.kind}@{self.site}" + (f"{list(self.items)!r}" if self.items else '')


@dataclass(frozen=True)
class CompInfo:
    elt: Term
    gens: Tuple[Tuple[Term, Term, Tuple["Formula", ...]], ...]    # (target, iter, conditions)
    key: Optional[Term] = None


@dataclass(frozen=True)
class BoolT(Term):
    f: "Formula"

    def __repr__(self):
        return f"bool[{self.f!r}]"


@dataclass(frozen=True)
class IfT(Term):
    cond: "Formula"
    a: Term
    b: Term

    def __repr__(self):
        return f"({self.a!r} if {self.cond!r} else {self.b!r})"


@dataclass(frozen=True)
class Opaque(Term):
    text: str

    def __repr__(self):
        return f"<{self.text}>"


@dataclass(frozen=True)
class Poly(Term):
    """Sum of monomials; `mons` is a sorted tuple of (monomial, coefficient); a monomial is a sorted tuple of atoms."""
    mons: Tuple[Tuple[Tuple[Term, ...], object], ...]

    def __repr__(self):
        parts = []
        for mon, c in self.mons:
            cs = str(c.numerator) if isinstance(c, Fraction) and c.denominator == 1 else str(c)
            if not mon:
                parts.append(cs)
            else:
                ms = '*'.join(repr(a) for a in mon)
                parts.append(ms if c == 1 else (f"-{ms}" if c == -1 else f"{cs}*{ms}"))
        return '(' + ' + '.join(parts).replace('+ -', '- ') + ')'


def _num(v):
    if isinstance(v, bool):
        return Fraction(int(v))
    if isinstance(v, int):
        return Fraction(v)
    if isinstance(v, float):
        if v == v and v not in (float('inf'), float('-inf')) and v == int(v) and abs(v) < 1e15:
            return Fraction(int(v))
        return v
    return v


def to_mons(t: Term) -> Dict[Tuple[Term, ...], object]:
    if isinstance(t, Poly):
        return dict(t.mons)
    if isinstance(t, Num):
        return {(): t.value} if t.value != 0 else {}
    return {(t,): Fraction(1)}


def from_mons(m: Dict[Tuple[Term, ...], object]) -> Term:
    m = {k: v for k, v in m.items() if v != 0}
    if not m:
        return Num(Fraction(0))
    if len(m) == 1:
        (mon, c), = m.items()
        if not mon:
            return Num(c)
        if c == 1 and len(mon) == 1:
            return mon[0]
    return Poly(tuple(sorted(m.items(), key=lambda kv: (tuple(a.key() for a in kv[0]), str(kv[1])))))


# monomials that cancelled exactly in an addition (x + (u - x)): exact over the rationals the analysis computes in, but not in
# floating point - the walker reports them per assignment so that rules about stored coordinates can ask for exact stores
CANCEL_LOG: list = []


def add(a: Term, b: Term, sign=1) -> Term:
    m = to_mons(a)
    for mon, c in to_mons(b).items():
        prev = m.get(mon, 0)
        new = prev + sign * c
        if mon and prev != 0 and new == 0 and len(CANCEL_LOG) < 100000:
            CANCEL_LOG.append(mon)
        m[mon] = new
    return from_mons(m)


def sub(a: Term, b: Term) -> Term:
    return add(a, b, -1)


def mul(a: Term, b: Term) -> Term:
    out: Dict[Tuple[Term, ...], object] = {}
    for m1, c1 in to_mons(a).items():
        for m2, c2 in to_mons(b).items():
            mon = tuple(sorted(m1 + m2, key=lambda x: x.key()))
            out[mon] = out.get(mon, 0) + c1 * c2
    return from_mons(out)


def neg(a: Term) -> Term:
    return from_mons({k: -v for k, v in to_mons(a).items()})


def const_part(t: Term):
    return to_mons(t).get((), Fraction(0))


def is_num(t: Term) -> bool:
    return isinstance(t, Num)


def split_const(t: Term) -> Tuple[Term, object]:
    m = to_mons(t)
    c = m.pop((), Fraction(0))
    return from_mons(m), c


def leading_coeff(t: Term):
    m = to_mons(t)
    m.pop((), None)
    if not m:
        return None
    mon = min(m, key=lambda k: tuple(a.key() for a in k))
    return m[mon]


def sign_normalise(t: Term) -> Tuple[Term, int]:
    """Return (±t, sign) with the leading non-constant coefficient positive."""
    lc = leading_coeff(t)
    if lc is not None and lc < 0:
        return neg(t), -1
    return t, 1


def scale(t: Term, k) -> Term:
    return from_mons({m: c * k for m, c in to_mons(t).items()})


def mk_minmax(fn: str, args: Iterable[Term]) -> Term:
    """min/max algebra: flatten, dedupe, pull the common additive part out, prefer the positive orientation
    (min(p-a, p-l) -> p - max(a, l)).  Valid for all real arguments."""
    flat: List[Term] = []
    for a in args:
        if isinstance(a, App) and a.fn == fn and not a.kw:
            flat.extend(a.args)
        else:
            flat.append(a)
    uniq = sorted(set(flat), key=lambda x: x.key())
    if len(uniq) == 1:
        return uniq[0]
    if all(isinstance(a, Num) for a in uniq):
        vals = [a.value for a in uniq]
        return Num(min(vals) if fn == 'min' else max(vals))
    mons = [to_mons(a) for a in uniq]
    common = {}
    for mon, c in mons[0].items():
        if mon and all(m.get(mon) == c for m in mons[1:]):
            common[mon] = c
    rest = []
    for m in mons:
        rest.append(from_mons({k: v for k, v in m.items() if k not in common}))
    negs = sum(1 for r in rest if (leading_coeff(r) or 0) < 0)
    if negs * 2 > len(rest):
        other = 'max' if fn == 'min' else 'min'
        inner = App(other, tuple(sorted({neg(r) for r in rest}, key=lambda x: x.key())))
        core = neg(inner)
    else:
        core = App(fn, tuple(sorted(set(rest), key=lambda x: x.key())))
    return add(from_mons(common), core) if common else core


def mk_abs(a: Term) -> Term:
    if isinstance(a, Num):
        return Num(abs(a.value))
    a, _ = sign_normalise(a)
    return App('abs', (a,))


# ============================================================================ formulas
class Formula:
    __slots__ = ()


@dataclass(frozen=True)
class FConst(Formula):
    v: bool

    def __repr__(self):
        return 'TRUE' if self.v else 'FALSE'


FTrue = FConst(True)
FFalse = FConst(False)


@dataclass(frozen=True)
class FAnd(Formula):
    parts: Tuple[Formula, ...]

    def __repr__(self):
        return '(' + ' and '.join(map(repr, self.parts)) + ')'


@dataclass(frozen=True)
class FOr(Formula):
    parts: Tuple[Formula, ...]

    def __repr__(self):
        return '(' + ' or '.join(map(repr, self.parts)) + ')'


@dataclass(frozen=True)
class FNot(Formula):
    f: Formula

    def __repr__(self):
        return f"not {self.f!r}"


@dataclass(frozen=True)
class ACmp(Formula):
    """base OP k, base a sign-normalised polynomial without constant term, leading coefficient 1."""
    base: Term
    op: str           # '<=', '<', '>=', '>', '==', '!='
    k: object

    def __repr__(self):
        return f"{self.base!r} {self.op} {Num(self.k)!r}"


@dataclass(frozen=True)
class AIn(Formula):
    x: Term
    container: Term

    def __repr__(self):
        return f"{self.x!r} in {self.container!r}"


@dataclass(frozen=True)
class AIs(Formula):
    a: Term
    b: Term

    def __repr__(self):
        return f"{self.a!r} is {self.b!r}"


@dataclass(frozen=True)
class AEq(Formula):
    a: Term
    b: Term

    def __repr__(self):
        return f"{self.a!r} == {self.b!r}"


@dataclass(frozen=True)
class ATruthy(Formula):
    t: Term

    def __repr__(self):
        return f"truthy({self.t!r})"


@dataclass(frozen=True)
class ADiv(Formula):
    """`e % mod == 0`; e is sign-normalised because divisibility is invariant under negation."""
    mod: Term
    e: Term

    def __repr__(self):
        return f"{self.mod!r} | {self.e!r}"


@dataclass(frozen=True)
class AIsInst(Formula):
    x: Term
    t: Term

    def __repr__(self):
        return f"isinstance({self.x!r}, {self.t!r})"


def f_and(*ps: Formula) -> Formula:
    out = []
    for p in ps:
        if p == FTrue:
            continue
        if p == FFalse:
            return FFalse
        if isinstance(p, FAnd):
            out.extend(p.parts)
        else:
            out.append(p)
    out = list(dict.fromkeys(out))
    if not out:
        return FTrue
    so = set(out)
    for p in out:
        if isinstance(p, FNot) and p.f in so:
            return FFalse           # p and not p
    # absorption: a conjunct (a or b) one of whose disjuncts is itself a conjunct is redundant; a disjunct whose negation is a
    # conjunct drops out
    if len(out) > 1 and any(isinstance(p, FOr) for p in out):
        red = []
        for p in out:
            if isinstance(p, FOr):
                if any(q in so for q in p.parts):
                    continue
                keep = tuple(q for q in p.parts if not ((isinstance(q, FNot) and q.f in so) or FNot(q) in so))
                if len(keep) != len(p.parts):
                    p = f_or(*keep)
                    if p == FFalse:
                        return FFalse
                    if p == FTrue:
                        continue
            red.append(p)
        red = list(dict.fromkeys(red))
        if not red:
            return FTrue
        if red != out:
            return f_and(*red)
    return out[0] if len(out) == 1 else FAnd(tuple(out))


def f_or(*ps: Formula) -> Formula:
    out = []
    for p in ps:
        if p == FFalse:
            continue
        if p == FTrue:
            return FTrue
        if isinstance(p, FOr):
            out.extend(p.parts)
        else:
            out.append(p)
    out = list(dict.fromkeys(out))
    if not out:
        return FFalse
    so = set(out)
    for p in out:
        if isinstance(p, FNot) and p.f in so:
            return FTrue            # p or not p
    if len(out) > 1 and any(isinstance(p, FAnd) for p in out):
        red = []
        for p in out:
            if isinstance(p, FAnd):
                if any(q in so for q in p.parts):
                    continue        # (a and b) or a  ==  a
                keep = tuple(q for q in p.parts if not ((isinstance(q, FNot) and q.f in so) or FNot(q) in so))
                if len(keep) != len(p.parts):
                    p = f_and(*keep)    # (not a and b) or a  ==  b or a
                    if p == FTrue:
                        return FTrue
                    if p == FFalse:
                        continue
            red.append(p)
        red = list(dict.fromkeys(red))
        if not red:
            return FFalse
        if red != out:
            return f_or(*red)
    return out[0] if len(out) == 1 else FOr(tuple(out))


_NEG_OP = {'<=': '>', '<': '>=', '>=': '<', '>': '<=', '==': '!=', '!=': '=='}
_FLIP_OP = {'<=': '>=', '<': '>', '>=': '<=', '>': '<', '==': '==', '!=': '!='}


def f_not(p: Formula) -> Formula:
    if isinstance(p, FConst):
        return FConst(not p.v)
    if isinstance(p, FNot):
        return p.f
    if isinstance(p, ACmp):
        return ACmp(p.base, _NEG_OP[p.op], p.k)
    if isinstance(p, FAnd):
        return f_or(*[f_not(x) for x in p.parts])
    if isinstance(p, FOr):
        return f_and(*[f_not(x) for x in p.parts])
    return FNot(p)


def mk_cmp(lhs: Term, op: str, rhs: Term) -> Formula:
    """Canonical comparison atom of two numeric/symbolic terms."""
    # divisibility idiom: (e % m) == 0 / != 0
    for a, b in ((lhs, rhs), (rhs, lhs)):
        if isinstance(a, App) and a.fn == '%' and isinstance(b, Num) and b.value == 0 and op in ('==', '!='):
            e, _ = sign_normalise(a.args[0])
            d = ADiv(a.args[1], e)
            return d if op == '==' else FNot(d)
    nonnum = (Const, TupleT, Fresh, BoolT)
    if isinstance(lhs, nonnum) or isinstance(rhs, nonnum):
        if op in ('==', '!='):
            a, b = sorted((lhs, rhs), key=lambda x: x.key())
            e = AEq(a, b)
            if isinstance(lhs, Const) and isinstance(rhs, Const):
                e = FConst(lhs.value == rhs.value)
            return e if op == '==' else f_not(e)
        return ATruthy(App(op, (lhs, rhs)))
    d = sub(lhs, rhs)
    # |e| + r <= 0  <=>  e + r <= 0 and -e + r <= 0 ;  -|e| + r <= 0  <=>  r - e <= 0 or r + e <= 0   (all reals)
    if op in ('<=', '<', '>=', '>'):
        dm = to_mons(d)
        absm = [(m, cf) for m, cf in dm.items() if len(m) == 1 and isinstance(m[0], App) and m[0].fn == 'abs' and cf in (1, -1)]
        if len(absm) == 1:
            (m, cf), = absm
            e = m[0].args[0]
            r = from_mons({k: v for k, v in dm.items() if k != m})
            upper = (op in ('<=', '<')) == (cf == 1)      # the comparison bounds |e| from above
            zero = Num(Fraction(0))
            if cf == 1:
                a1, a2 = mk_cmp(add(e, r), op, zero), mk_cmp(add(neg(e), r), op, zero)
            else:
                a1, a2 = mk_cmp(sub(r, e), op, zero), mk_cmp(add(r, e), op, zero)
            return f_and(a1, a2) if upper else f_or(a1, a2)
    base, c = split_const(d)
    if isinstance(base, Num):      # constant comparison
        v = c
        res = {'<=': v <= 0, '<': v < 0, '>=': v >= 0, '>': v > 0, '==': v == 0, '!=': v != 0}[op]
        return FConst(bool(res))
    lc = leading_coeff(base)
    k = -c
    if lc != 1:
        base = scale(base, Fraction(1) / lc if isinstance(lc, Fraction) else 1.0 / lc)
        k = k / lc
        if lc < 0:
            op = _FLIP_OP[op]
    return ACmp(base, op, k)


def drop_literals(f: Formula, pred) -> Formula:
    """Remove (replace by TRUE) every literal - an atom or its negation - whose atom satisfies pred.  Used to set
    aside conjuncts that are another rule's business before two guards are compared."""
    if isinstance(f, FAnd):
        return f_and(*[drop_literals(p, pred) for p in f.parts])
    if isinstance(f, FOr):
        return f_or(*[drop_literals(p, pred) for p in f.parts])
    if isinstance(f, FNot):
        return FTrue if pred(f.f) else f
    if isinstance(f, FConst):
        return f
    return FTrue if pred(f) else f


def atoms_of(f: Formula, acc=None) -> List[Formula]:
    if acc is None:
        acc = []
    if isinstance(f, (FAnd, FOr)):
        for p in f.parts:
            atoms_of(p, acc)
    elif isinstance(f, FNot):
        atoms_of(f.f, acc)
    elif isinstance(f, FConst):
        pass
    else:
        if f not in acc:
            acc.append(f)
    return acc


def subst_atoms(f: Formula, mapping) -> Formula:
    """Replace atoms (mapping: atom -> Formula or callable(atom)->Formula|None)."""
    if isinstance(f, FAnd):
        return f_and(*[subst_atoms(p, mapping) for p in f.parts])
    if isinstance(f, FOr):
        return f_or(*[subst_atoms(p, mapping) for p in f.parts])
    if isinstance(f, FNot):
        return f_not(subst_atoms(f.f, mapping))
    if isinstance(f, FConst):
        return f
    if callable(mapping):
        r = mapping(f)
        return f if r is None else r
    return mapping.get(f, f)


def eval_formula(f: Formula, basevals: Dict[Term, object], boolvals: Dict[Formula, bool]) -> bool:
    if isinstance(f, FConst):
        return f.v
    if isinstance(f, FAnd):
        return all(eval_formula(p, basevals, boolvals) for p in f.parts)
    if isinstance(f, FOr):
        return any(eval_formula(p, basevals, boolvals) for p in f.parts)
    if isinstance(f, FNot):
        return not eval_formula(f.f, basevals, boolvals)
    if isinstance(f, ACmp):
        v = basevals[f.base]
        k = f.k
        return {'<=': v <= k, '<': v < k, '>=': v >= k, '>': v > k, '==': v == k, '!=': v != k}[f.op]
    return boolvals[f]


class TooManyRegions(Exception):
    """The guards to compare induce more order regions than the cap: the comparison is inconclusive (exit 2)."""


def compare(f: Formula, g: Formula, assume: Formula = FTrue, domain: str = 'int', cap: int = 400000):
    """Decide f <=> g under `assume` by enumerating the order-regions of every comparison base and the truth
    values of every other atom.  Bases are treated as independent quantities (side condition: the caller
    compares guards whose bases are distinct program quantities).  Returns None if equivalent, else a
    counterexample (dict) showing a region where they differ."""
    ats = atoms_of(f) + [a for a in atoms_of(g) if a not in atoms_of(f)]
    for a in atoms_of(assume):
        if a not in ats:
            ats.append(a)
    bases: Dict[Term, List[object]] = {}
    bools: List[Formula] = []
    for a in ats:
        if isinstance(a, ACmp):
            bases.setdefault(a.base, [])
            if a.k not in bases[a.base]:
                bases[a.base].append(a.k)
        else:
            bools.append(a)
    for b in list(bases):
        # library fact: len(x) >= 0
        if isinstance(b, App) and b.fn == 'len':
            assume = f_and(assume, ACmp(b, '>=', Fraction(0)))
            if Fraction(0) not in bases[b]:
                bases[b].append(Fraction(0))
    reps: Dict[Term, List[object]] = {}
    for b, ks in bases.items():
        ks = sorted(ks)
        vals = set()
        if domain == 'int':
            import math
            for k in ks:
                fl = math.floor(k)
                for d in (-1, 0, 1, 2):
                    vals.add(Fraction(fl + d))
        else:
            for i, k in enumerate(ks):
                vals.add(k)
                vals.add(k - 1)
                vals.add(k + 1)
                if i + 1 < len(ks):
                    vals.add((k + ks[i + 1]) / 2)
        reps[b] = sorted(vals)
    # conjuncts of the assumption that speak about a single base prune that base's representatives up front
    rest_assume = []
    for cj in (assume.parts if isinstance(assume, FAnd) else (assume,)):
        cats = atoms_of(cj)
        bs = {a.base for a in cats if isinstance(a, ACmp)}
        if cats and len(bs) == 1 and all(isinstance(a, ACmp) for a in cats):
            b = next(iter(bs))
            reps[b] = [v for v in reps[b] if eval_formula(cj, {b: v}, {})]
        else:
            rest_assume.append(cj)
    assume = f_and(*rest_assume)
    total = 1
    for v in reps.values():
        total *= len(v)
    total *= 2 ** len(bools)
    if total > cap:
        raise TooManyRegions(f"{total} regions")
    bkeys = list(reps)
    bidx = {b: i for i, b in enumerate(bkeys)}
    boolidx = {a: i for i, a in enumerate(bools)}
    _cmp = {'<=': lambda v, k: v <= k, '<': lambda v, k: v < k, '>=': lambda v, k: v >= k, '>': lambda v, k: v > k,
            '==': lambda v, k: v == k, '!=': lambda v, k: v != k}

    def comp(h):
        """Compile a formula into a function of (base representative indices, boolean atom values)."""
        if isinstance(h, FConst):
            v = h.v
            return lambda bi, bo: v
        if isinstance(h, FAnd):
            ps = [comp(p) for p in h.parts]
            return lambda bi, bo: all(p(bi, bo) for p in ps)
        if isinstance(h, FOr):
            ps = [comp(p) for p in h.parts]
            return lambda bi, bo: any(p(bi, bo) for p in ps)
        if isinstance(h, FNot):
            q = comp(h.f)
            return lambda bi, bo: not q(bi, bo)
        if isinstance(h, ACmp):
            i = bidx[h.base]
            tab = [_cmp[h.op](v, h.k) for v in reps[h.base]]
            return lambda bi, bo: tab[bi[i]]
        j = boolidx[h]
        return lambda bi, bo: bo[j]
    cf, cg, ca = comp(f), comp(g), comp(assume)
    bool_combos = list(itertools.product((False, True), repeat=len(bools)))
    for bi in itertools.product(*[range(len(reps[b])) for b in bkeys]):
        for bo in bool_combos:
            if not ca(bi, bo):
                continue
            x, y = cf(bi, bo), cg(bi, bo)
            if x != y:
                cex = {repr(b): str(reps[b][bi[i]]) for b, i in bidx.items()}
                cex.update({repr(a): bo[j] for a, j in boolidx.items()})
                cex['_left'] = x
                cex['_right'] = y
                return cex
    return None


def _keys_of(f: Formula):
    return {a.base if isinstance(a, ACmp) else a for a in atoms_of(f)}


def _relevant(conjuncts: List[Formula], seed_keys: set) -> List[Formula]:
    """Conjuncts connected (through shared comparison bases / atoms) to the seed; the others are independent of it in
    the region model and cannot contribute to an implication."""
    keys = set(seed_keys)
    pool = [(c, _keys_of(c)) for c in conjuncts]
    out = []
    changed = True
    while changed:
        changed = False
        rest = []
        for c, ks in pool:
            if ks & keys:
                out.append(c)
                keys |= ks
                changed = True
            else:
                rest.append((c, ks))
        pool = rest
    return out


def implies(f: Formula, g: Formula, assume: Formula = FTrue, domain='int'):
    """None if f => g under assume, else a counterexample."""
    seed = _keys_of(g)
    fparts = list(f.parts) if isinstance(f, FAnd) else [f]
    aparts = list(assume.parts) if isinstance(assume, FAnd) else [assume]
    rel = _relevant(fparts + aparts, seed)
    f2 = f_and(*[c for c in fparts if c in rel])
    a2 = f_and(*[c for c in aparts if c in rel])
    return compare(f_or(f_not(f2), g), FTrue, a2, domain)


def term_symbols(t, acc=None):
    """All Sym/Attr leaves mentioned by a term or formula (for 'does this guard read X' questions)."""
    if acc is None:
        acc = set()
    if isinstance(t, (Sym,)):
        acc.add(t)
    elif isinstance(t, Attr):
        acc.add(t)
        term_symbols(t.base, acc)
    elif isinstance(t, Sub):
        term_symbols(t.base, acc)
        term_symbols(t.index, acc)
    elif isinstance(t, App):
        for a in t.args:
            term_symbols(a, acc)
        for _, v in t.kw:
            term_symbols(v, acc)
    elif isinstance(t, Poly):
        for mon, _ in t.mons:
            for a in mon:
                term_symbols(a, acc)
    elif isinstance(t, TupleT):
        for a in t.items:
            term_symbols(a, acc)
    elif isinstance(t, Fresh):
        for a in t.items:
            term_symbols(a, acc)
        if isinstance(t.detail, CompInfo):
            term_symbols(t.detail.elt, acc)
            for tg, it, conds in t.detail.gens:
                term_symbols(it, acc)
                for c in conds:
                    term_symbols(c, acc)
    elif isinstance(t, BoolT):
        term_symbols(t.f, acc)
    elif isinstance(t, IfT):
        term_symbols(t.cond, acc)
        term_symbols(t.a, acc)
        term_symbols(t.b, acc)
    elif isinstance(t, (FAnd, FOr)):
        for p in t.parts:
            term_symbols(p, acc)
    elif isinstance(t, FNot):
        term_symbols(t.f, acc)
    elif isinstance(t, ACmp):
        term_symbols(t.base, acc)
    elif isinstance(t, (AIn,)):
        term_symbols(t.x, acc)
        term_symbols(t.container, acc)
    elif isinstance(t, (AIs, AEq)):
        term_symbols(t.a, acc)
        term_symbols(t.b, acc)
    elif isinstance(t, ATruthy):
        term_symbols(t.t, acc)
    elif isinstance(t, ADiv):
        term_symbols(t.mod, acc)
        term_symbols(t.e, acc)
    elif isinstance(t, AIsInst):
        term_symbols(t.x, acc)
        term_symbols(t.t, acc)
    return acc


def subst_term(t, mapping: Dict[Term, Term]):
    """Structural substitution of sub-terms (used to instantiate callee summaries with actual arguments)."""
    if t in mapping:
        return mapping[t]
    if isinstance(t, Attr):
        return Attr(subst_term(t.base, mapping), t.name)
    if isinstance(t, Sub):
        return Sub(subst_term(t.base, mapping), subst_term(t.index, mapping))
    if isinstance(t, App):
        args = tuple(subst_term(a, mapping) for a in t.args)
        kw = tuple((k, subst_term(v, mapping)) for k, v in t.kw)
        if t.fn in ('min', 'max') and not kw:
            return mk_minmax(t.fn, args)
        if t.fn in ('%', '//') and len(args) == 2 and all(isinstance(a, Num) and isinstance(a.value, Fraction) and
                                                           a.value.denominator == 1 for a in args) and args[1].value != 0:
            a, b = int(args[0].value), int(args[1].value)
            return Num(Fraction(a % b if t.fn == '%' else a // b))
        if t.fn == 'abs' and len(args) == 1:
            return mk_abs(args[0])
        return App(t.fn, args, kw)
    if isinstance(t, Poly):
        out = Num(Fraction(0))
        for mon, c in t.mons:
            term = Num(c)
            for a in mon:
                term = mul(term, subst_term(a, mapping))
            out = add(out, term)
        return out
    if isinstance(t, TupleT):
        return TupleT(tuple(subst_term(a, mapping) for a in t.items))
    if isinstance(t, BoolT):
        return BoolT(subst_formula(t.f, mapping))
    if isinstance(t, IfT):
        return IfT(subst_formula(t.cond, mapping), subst_term(t.a, mapping), subst_term(t.b, mapping))
    return t


def subst_formula(f, mapping):
    if isinstance(f, FAnd):
        return f_and(*[subst_formula(p, mapping) for p in f.parts])
    if isinstance(f, FOr):
        return f_or(*[subst_formula(p, mapping) for p in f.parts])
    if isinstance(f, FNot):
        return f_not(subst_formula(f.f, mapping))
    if isinstance(f, FConst):
        return f
    if isinstance(f, ACmp):
        return mk_cmp(subst_term(f.base, mapping), f.op, Num(f.k))
    if isinstance(f, AIn):
        x, c = subst_term(f.x, mapping), subst_term(f.container, mapping)
        if isinstance(x, Num) and isinstance(c, (TupleT, Fresh)) and c.items and all(isinstance(i, Num) for i in c.items) \
                and getattr(c, 'detail', None) is None:
            return FConst(any(i.value == x.value for i in c.items))
        return AIn(x, c)
    if isinstance(f, AIs):
        return AIs(subst_term(f.a, mapping), subst_term(f.b, mapping))
    if isinstance(f, AEq):
        a, b = subst_term(f.a, mapping), subst_term(f.b, mapping)
        if any(isinstance(t, App) and t.fn == 'type' for t in (a, b)):
            return AEq(a, b)
        return mk_cmp(a, '==', b)
    if isinstance(f, ATruthy):
        t = subst_term(f.t, mapping)
        if isinstance(t, Const):
            return FConst(bool(t.value))
        if isinstance(t, Num):
            return FConst(t.value != 0)
        if isinstance(t, BoolT):
            return t.f
        return ATruthy(t)
    if isinstance(f, ADiv):
        e, _ = sign_normalise(subst_term(f.e, mapping))
        m = subst_term(f.mod, mapping)
        if isinstance(e, Num) and isinstance(m, Num) and isinstance(e.value, Fraction) and isinstance(m.value, Fraction) \
                and m.value != 0 and e.value.denominator == 1 and m.value.denominator == 1:
            return FConst(int(e.value) % int(m.value) == 0)
        return ADiv(m, e)
    if isinstance(f, AIsInst):
        return AIsInst(subst_term(f.x, mapping), subst_term(f.t, mapping))
    return f


def strip_epochs(x):
    """Remove the '@t' (state epoch) and '@v' (container version) wrappers from a term or formula."""
    if isinstance(x, App) and x.fn in ('@t', '@v'):
        return strip_epochs(x.args[0])
    if isinstance(x, Attr):
        return Attr(strip_epochs(x.base), x.name)
    if isinstance(x, Sub):
        return Sub(strip_epochs(x.base), strip_epochs(x.index))
    if isinstance(x, App):
        args = tuple(strip_epochs(a) for a in x.args)
        kw = tuple((k, strip_epochs(v)) for k, v in x.kw)
        if x.fn in ('min', 'max') and not kw:
            return mk_minmax(x.fn, args)
        return App(x.fn, args, kw)
    if isinstance(x, Poly):
        out = Num(Fraction(0))
        for mon, c in x.mons:
            term = Num(c)
            for a in mon:
                term = mul(term, strip_epochs(a))
            out = add(out, term)
        return out
    if isinstance(x, TupleT):
        return TupleT(tuple(strip_epochs(a) for a in x.items))
    if isinstance(x, BoolT):
        return BoolT(strip_epochs(x.f))
    if isinstance(x, IfT):
        return IfT(strip_epochs(x.cond), strip_epochs(x.a), strip_epochs(x.b))
    if isinstance(x, FAnd):
        return f_and(*[strip_epochs(p) for p in x.parts])
    if isinstance(x, FOr):
        return f_or(*[strip_epochs(p) for p in x.parts])
    if isinstance(x, FNot):
        return f_not(strip_epochs(x.f))
    if isinstance(x, ACmp):
        return mk_cmp(strip_epochs(x.base), x.op, Num(x.k))
    if isinstance(x, AIn):
        return AIn(strip_epochs(x.x), strip_epochs(x.container))
    if isinstance(x, AIs):
        return AIs(strip_epochs(x.a), strip_epochs(x.b))
    if isinstance(x, AEq):
        return AEq(strip_epochs(x.a), strip_epochs(x.b))
    if isinstance(x, ATruthy):
        return ATruthy(strip_epochs(x.t))
    if isinstance(x, ADiv):
        e, _ = sign_normalise(strip_epochs(x.e))
        return ADiv(strip_epochs(x.mod), e)
    if isinstance(x, AIsInst):
        return AIsInst(strip_epochs(x.x), strip_epochs(x.t))
    return x


def subterms_of(t, skip=None):
    """Every subterm of a term (pre-order), looking through polynomials, tuples and formulas carried by terms; `skip(sub)` prunes
    below a subterm (the subterm itself is still yielded)."""
    import dataclasses
    out = []
    stack = [t]
    while stack:
        x = stack.pop()
        if isinstance(x, (str, int, bool, float, Fraction, type(None))):
            continue
        if isinstance(x, (tuple, list, frozenset)):
            stack.extend(x)
            continue
        out.append(x)
        if skip is not None and skip(x):
            continue
        if dataclasses.is_dataclass(x):
            for f in dataclasses.fields(x):
                stack.append(getattr(x, f.name, None))
    return out
