"""Minimal unified-diff applier working on in-memory sources (used to replay the seeded changes as regression operators in
the thorough tier; nothing is written to disk)."""
from __future__ import annotations

import re
from typing import Dict, Optional


def apply_unified(diff_text: str, sources: Dict[str, str]) -> Optional[Dict[str, str]]:
    out = dict(sources)
    files = re.split(r'^diff --git .*$', diff_text, flags=re.M)
    for chunk in files:
        m = re.search(r'^\+\+\+ b/(\S+)', chunk, flags=re.M)
        if not m:
            continue
        path = m.group(1)
        if path not in out:
            if re.search(r'^--- /dev/null', chunk, flags=re.M):
                continue        # new file outside the analysed set (or a new module): ignore
            return None
        src = out[path]
        crlf = '\r\n' in src
        lines = src.replace('\r\n', '\n').split('\n')
        hunks = re.split(r'^@@ .*?@@.*$', chunk, flags=re.M)[1:]
        heads = re.findall(r'^@@ -(\d+)(?:,(\d+))? \+(\d+)(?:,(\d+))? @@', chunk, flags=re.M)
        offset = 0
        for head, body in zip(heads, hunks):
            start = int(head[0])
            old, new = [], []
            for l in body.split('\n')[1:]:
                if l.startswith('\\'):
                    continue
                if l.startswith('-'):
                    old.append(l[1:])
                elif l.startswith('+'):
                    new.append(l[1:])
                elif l.startswith(' ') or l == '':
                    if l == '' and not (old or new):
                        continue
                    old.append(l[1:] if l else '')
                    new.append(l[1:] if l else '')
            while old and new and old[-1] == '' and new[-1] == '':
                old.pop(); new.pop()
            old = [x.rstrip('\r') for x in old]
            new = [x.rstrip('\r') for x in new]
            pos = start - 1 + offset
            found = None
            for delta in [0] + [d for k in range(1, 60) for d in (k, -k)]:
                p = pos + delta
                if 0 <= p <= len(lines) - len(old) and lines[p:p + len(old)] == old:
                    found = p
                    break
            if found is None:
                return None
            lines[found:found + len(old)] = new
            offset += len(new) - len(old) + (found - pos)
        text = '\n'.join(lines)
        out[path] = text.replace('\n', '\r\n') if crlf else text
    return out
