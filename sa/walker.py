"""Per-function CFG path enumeration over the structured statement kinds the package uses, with copy
propagation of locals and stored access paths, normalised branch conditions, classified store/call events,
exceptional edges for resolved callees' tabled raises, and infeasible-path pruning for the correlation
idioms of the package (DESIGN.md 3.3).

The walk is syntax-directed: Python's structured control flow makes the CFG of these functions reducible, so
"all acyclic CFG paths with each loop taken 0..unroll times" is enumerated directly from the statement tree.
No statement of the package is executed; values are terms (sa.terms), never Python objects of the package.
"""
from __future__ import annotations

import ast
from dataclasses import dataclass, field
from fractions import Fraction
from typing import Callable, Dict, List, Optional, Tuple

from .loader import Program, FuncInfo, ClassInfo, AnalysisError
from .types import TypeInfer, CallTarget, MUTATORS
from .terms import (Term, Sym, Const, Num, Attr, Sub, App, TupleT, Fresh, CompInfo, BoolT, IfT, Opaque, Poly,
                    add, sub, mul, neg, mk_minmax, mk_abs, mk_cmp, Formula, FConst, FTrue, FFalse, FAnd, FOr, FNot,
                    ACmp, AIn, AIs, AEq, ATruthy, ADiv, AIsInst, f_and, f_or, f_not, implies, subst_term,
                    subst_formula, atoms_of)


class PathExplosion(AnalysisError):
    pass


@dataclass(eq=False)
class Event:
    kind: str                 # cond | assign | store | call | return | raise | loop | iter | endloop | except | with
    node: ast.AST
    data: dict = field(default_factory=dict)
    loops: Tuple[int, ...] = ()      # ids (lineno) of enclosing loops / comprehensions at this event
    inlined: Tuple[str, ...] = ()    # qualnames of helpers this event was inlined from

    @property
    def line(self):
        return getattr(self.node, 'lineno', 0)

    def __repr__(self):
        d = {k: v for k, v in self.data.items() if k not in ('target_info',)}
        return f"<{self.kind}@{self.line} {d}>"


@dataclass
class Path:
    events: List[Event]
    end: str                   # 'return' | 'raise' | 'fall'
    conds: List[Formula]
    truncated: bool = False    # some loop was cut at the unroll bound

    @property
    def cond(self) -> Formula:
        return f_and(*self.conds)

    def of(self, kind) -> List[Event]:
        return [e for e in self.events if e.kind == kind]

    @property
    def last(self) -> Optional[Event]:
        return self.events[-1] if self.events else None

    def lines(self) -> List[int]:
        out = []
        for e in self.events:
            if e.line and (not out or out[-1] != e.line):
                out.append(e.line)
        return out


class State:
    __slots__ = ('env', 'heap', 'ver', 'events', 'conds', 'known', 'loops', 'status', 'truncated', 'retfacts', 'epoch', 'contents', 'approx')

    def __init__(self):
        self.env: Dict[str, Term] = {}
        self.heap: Dict[Term, Term] = {}
        self.ver: Dict[Term, int] = {}
        self.events: List[Event] = []
        self.conds: List[Formula] = []
        self.known: Dict[Formula, bool] = {}
        self.loops: Tuple[int, ...] = ()
        self.status = 'normal'       # normal | break | continue | return | raise
        self.truncated = False
        self.retfacts: Dict[Term, list] = {}
        self.epoch = 0
        self.contents: Dict[Term, Optional[tuple]] = {}   # exact element lists of lists allocated in the activation
        self.approx = 0          # > 0 while inside a loop body that stands for arbitrarily many iterations

    def fork(self) -> "State":
        s = State()
        s.env = dict(self.env)
        s.heap = dict(self.heap)
        s.ver = dict(self.ver)
        s.events = list(self.events)
        s.conds = list(self.conds)
        s.known = dict(self.known)
        s.loops = self.loops
        s.status = self.status
        s.truncated = self.truncated
        s.retfacts = dict(self.retfacts)
        s.epoch = self.epoch
        s.contents = dict(self.contents)
        s.approx = self.approx
        return s


@dataclass
class RaiseSummary:
    exc: str                    # exception class name
    cond: Formula               # over callee-frame terms (params as Sym, self paths)
    writes_before: List[Event]  # shared-state stores preceding the raise inside the callee
    line: int
    via: Tuple[str, ...] = ()
    exact: bool = True          # cond is expressed purely over entry-state terms


_BUILTIN_EXC = {n for n in dir(__import__('builtins')) if isinstance(getattr(__import__('builtins'), n), type)
                and issubclass(getattr(__import__('builtins'), n), BaseException)}


def _never_none(t) -> bool:
    """An exception object built from a builtin class, a string constant or an f-string: objects, never None."""
    if isinstance(t, App) and (t.fn in _BUILTIN_EXC or (t.fn == 'call' and t.args and isinstance(t.args[0], Sym) and
                                                        t.args[0].name.rsplit('.', 1)[-1] in _BUILTIN_EXC)):
        return True
    if isinstance(t, Const) and isinstance(t.value, (str, bytes)):
        return True
    if isinstance(t, Opaque) and t.text.startswith('fstring'):
        return True
    return False


def strip_at(t):
    """The term without a top-level invalidation-epoch / container-version wrapper."""
    while isinstance(t, App) and t.fn in ('@t', '@v') and t.args:
        t = t.args[0]
    return t


@dataclass
class WalkOptions:
    unroll: int = 2
    inline_depth: int = 3
    no_inline: frozenset = frozenset()
    callee_raises: bool = True
    max_paths: int = 20000
    prune: bool = True
    domain: str = 'int'
    raise_depth: int = 3
    axioms: Optional[Callable] = None     # (known: dict, atom) -> Optional[bool]; invariants the caller may assume
    inline_full: frozenset = frozenset({'<private>'})  # callees walked inline: qualnames, or '<private>' = every private helper
    invalidate: bool = True               # forget facts about fields a call may have written
    # the package's own established private API that rules anchor on by name: kept as opaque calls
    no_full_inline: frozenset = frozenset({'_get_cell_pos_as_tuple', '_score_model_for_search', '_run_model_for_search',
                                           '_run_model_for_batch'})


def _is_single_return(fn: FuncInfo, chains: bool = True) -> Optional[ast.expr]:
    b = fn.body
    if len(b) == 1 and isinstance(b[0], ast.Return) and b[0].value is not None:
        return b[0].value
    # `for x in XS: if T: return False` + `return True` is `all(not T for x in XS)` (and the mirror image `any(T for x in XS)`)
    if len(b) == 2 and isinstance(b[0], ast.For) and not b[0].orelse and len(b[0].body) == 1 and isinstance(b[0].body[0], ast.If) \
            and not b[0].body[0].orelse and len(b[0].body[0].body) == 1 and isinstance(b[0].body[0].body[0], ast.Return) \
            and isinstance(b[1], ast.Return) and isinstance(b[0].target, (ast.Name, ast.Tuple)):
        k_in, k_out = b[0].body[0].body[0].value, b[1].value
        if isinstance(k_in, ast.Constant) and isinstance(k_out, ast.Constant) and isinstance(k_in.value, bool) \
                and isinstance(k_out.value, bool) and k_in.value != k_out.value:
            cached = getattr(fn, '_quantifier', None)
            if cached is None:
                t = b[0].body[0].test
                elt = t if k_in.value else (t.operand if isinstance(t, ast.UnaryOp) and isinstance(t.op, ast.Not) else
                                            ast.UnaryOp(op=ast.Not(), operand=t))
                g = ast.GeneratorExp(elt=elt, generators=[ast.comprehension(target=b[0].target, iter=b[0].iter, ifs=[], is_async=0)])
                cached = ast.Call(func=ast.Name(id='any' if k_in.value else 'all', ctx=ast.Load()), args=[g], keywords=[])
                ast.copy_location(cached, b[0])
                ast.fix_missing_locations(cached)
                fn._quantifier = cached
            return cached
    # guard clauses in front of the answer - `if C: return X` ... `return Y` - are the conditional expression `X if C else Y`
    if chains and len(b) >= 2 and isinstance(b[-1], ast.Return) and b[-1].value is not None and all(
            isinstance(g, ast.If) and not g.orelse and len(g.body) == 1 and isinstance(g.body[0], ast.Return)
            and g.body[0].value is not None for g in b[:-1]):
        cached = getattr(fn, '_guard_chain', None)
        if cached is None:
            cached = b[-1].value
            for g in reversed(b[:-1]):
                cached = ast.IfExp(test=g.test, body=g.body[0].value, orelse=cached)
                ast.copy_location(cached, g)
            ast.fix_missing_locations(cached)
            fn._guard_chain = cached
        return cached
    return None


def _straight_line(fn: FuncInfo):
    """A helper whose body is `name = expr` assignments followed by one `return expr` (no branches, no stores to
    anything but plain locals): it can be evaluated in place of the call like a single expression."""
    b = fn.body
    if len(b) < 2 or not isinstance(b[-1], ast.Return) or b[-1].value is None:
        return None
    for st in b[:-1]:
        if not (isinstance(st, ast.Assign) and len(st.targets) == 1 and isinstance(st.targets[0], (ast.Name, ast.Tuple))):
            return None
        tg = st.targets[0]
        if isinstance(tg, ast.Tuple) and not all(isinstance(e, ast.Name) for e in tg.elts):
            return None
    return b


class Walker:
    def __init__(self, prog: Program, ti: TypeInfer = None):
        self.prog = prog
        self.ti = ti or TypeInfer(prog)
        self._raise_cache: Dict[Tuple[str, int], List[RaiseSummary]] = {}
        self._raise_stack: List[str] = []
        self.stats = {'functions_walked': 0, 'paths': 0, 'calls_resolved': 0, 'calls_unresolved': 0}

    # ================================================================== public API
    def paths(self, fn: FuncInfo, opts: WalkOptions = None, body: List[ast.stmt] = None,
              init_env: Dict[str, Term] = None) -> List[Path]:
        opts = opts or WalkOptions()
        st = State()
        for p in fn.params + fn.kwonly:
            st.env[p] = Sym(p)
        if fn.vararg:
            st.env[fn.vararg] = Sym('*' + fn.vararg)
        if fn.node.args.kwarg:
            st.env[fn.node.args.kwarg.arg] = Sym('**' + fn.node.args.kwarg.arg)
        ctx = _Ctx(self, fn, opts)
        for p, d in self.extension_defaults(fn).items():
            # a parameter the documented API does not have (and no package call passes): analysed at its default
            try:
                ctx.class_scope = True
                v = ctx.ev(d, st)
            except Exception:
                continue
            finally:
                ctx.class_scope = False
            if not st.events and isinstance(v, (Const, Num, Sym)):
                st.env[p] = v
            else:
                del st.events[:]
        if init_env:
            st.env.update(init_env)
        states = ctx.block(body if body is not None else fn.body, [st])
        out = []
        for s in states:
            end = {'normal': 'fall', 'return': 'return', 'raise': 'raise'}.get(s.status, 'fall')
            out.append(Path(s.events, end, s.conds, s.truncated))
        self.stats['functions_walked'] += 1
        self.stats['paths'] += len(out)
        return out

    # ------------------------------------------------------------------ extension parameters
    _SIGS = None

    def class_constant(self, ci, name: str):
        """The AST of `NAME = <literal>` in the body of `ci` or a base class, when nothing in the package ever stores to an
        attribute of that name (so `Cls.NAME`, `self.NAME` and a bare NAME in a default expression all read the literal)."""
        if not hasattr(self, '_attr_stores'):
            self._attr_stores = set()
            for mi in self.prog.modules.values():
                for n in ast.walk(mi.tree):
                    if isinstance(n, ast.Attribute) and isinstance(n.ctx, (ast.Store, ast.Del)):
                        self._attr_stores.add(n.attr)
                    elif isinstance(n, ast.Call) and isinstance(n.func, ast.Name) and n.func.id in ('setattr', 'delattr') and len(n.args) >= 2:
                        self._attr_stores.add(n.args[1].value if isinstance(n.args[1], ast.Constant) else '*')
        if name in self._attr_stores or '*' in self._attr_stores and False:
            return None
        for c in self.prog.mro(ci):
            v = c.class_assigns.get(name)
            if v is None:
                continue
            if isinstance(v, ast.Constant) or (isinstance(v, ast.UnaryOp) and isinstance(v.op, ast.USub) and isinstance(v.operand, ast.Constant)):
                return v
            if isinstance(v, ast.Name) and name.startswith('_'):
                # `_position_type = PositionComponent`: a private class-level name for a class of the package
                r = self.prog.resolve_name(v.id, c.module) if hasattr(c, 'module') else None
                if r is not None and r[0] == 'class':
                    return v
            return None
        return None

    def _sigs(self):
        if Walker._SIGS is None:
            import json, os
            try:
                Walker._SIGS = json.load(open(os.path.join(os.path.dirname(os.path.abspath(__file__)), 'signatures.json')))
            except Exception:
                Walker._SIGS = {}
        return Walker._SIGS

    def is_new_function(self, fn: FuncInfo) -> bool:
        """A module-level function or method the pinned API does not have and that does not override an inherited method: an
        implementation detail of (or an addition to) the documented functions, treated like a private helper - walked inline,
        and its writes attributed to the documented functions that call it."""
        sigs = self._sigs()
        if not sigs or fn.parent is not None or fn.qualname.split('@')[0] in sigs:
            return False
        if fn.name.startswith('__') and fn.name.endswith('__'):
            return False            # a new dunder changes the behaviour of operators on the documented classes
        if fn.cls is not None:
            if fn.is_property or fn.is_setter:
                return False
            for c in self.prog.mro(fn.cls):
                if c is not fn.cls and fn.name in getattr(c, 'methods', {}):
                    return False
        return True

    def extension_defaults(self, fn: FuncInfo) -> Dict[str, ast.expr]:
        """Parameters of `fn` that the pinned API does not have (sa/signatures.json), that carry a default, and that no call inside
        the package passes: the properties quantify over the documented API, so `fn` is analysed with them at their defaults.  A
        parameter some package call passes stays symbolic - its non-default behaviour is reachable from the documented API."""
        known = self._sigs().get(fn.qualname.split('@')[0])
        if known is None:
            return {}
        if not hasattr(self, '_passed'):
            # every call of the package by callee name: (call node, enclosing function or None)
            self._passed = {}
            encl = {}
            for fi in sorted(self.prog.all_functions, key=lambda f: f.node.lineno):
                for n in ast.walk(fi.node):
                    if isinstance(n, ast.Call):
                        encl[id(n)] = fi            # inner functions start later: they override the enclosing one
            for mi in self.prog.modules.values():
                for c in ast.walk(mi.tree):
                    if isinstance(c, ast.Call):
                        nm = c.func.attr if isinstance(c.func, ast.Attribute) else (c.func.id if isinstance(c.func, ast.Name) else None)
                        if nm is not None:
                            self._passed.setdefault(nm, []).append((c, encl.get(id(c))))
            self._ext_busy = set()
        key = fn.qualname
        if key in self._ext_busy:
            return {}
        self._ext_busy.add(key)
        try:
            out = {}
            names = [fn.name] + ([fn.cls.name] if fn.name == '__init__' and fn.cls is not None else [])
            a = fn.node.args
            pos = [x.arg for x in a.posonlyargs + a.args]
            bound = fn.cls is not None and not fn.is_static        # the receiver is not among a call's arguments
            for p in fn.params + fn.kwonly:
                if p in known:
                    continue
                d = fn.param_default(p)
                if d is None:
                    continue
                passed = False
                for nm in names:
                    for c, ef in self._passed.get(nm, ()):
                        vals = [k.value for k in c.keywords if k.arg == p]
                        if any(k.arg is None for k in c.keywords) or (p in pos and any(isinstance(x, ast.Starred) for x in c.args)):
                            passed = True       # **kw may carry any name; *args only reaches positional parameters
                        if p in pos:
                            i = pos.index(p) - (1 if bound else 0)
                            if 0 <= i < len(c.args):
                                vals.append(c.args[i])
                        for v in vals:
                            if not self._forwards_default(v, ef, d):
                                passed = True
                if not passed:
                    out[p] = d
            return out
        finally:
            self._ext_busy.discard(key)

    def _forwards_default(self, v: ast.expr, ef: Optional[FuncInfo], d: ast.expr) -> bool:
        """The argument is the callee's own default, or the caller's extension parameter of the same default passed through."""
        if ast.dump(v) == ast.dump(d) and isinstance(v, ast.Constant):
            return True
        if ef is None or not isinstance(v, ast.Name) or v.id not in ef.params + ef.kwonly:
            return False
        for n in ast.walk(ef.node):
            if isinstance(n, ast.Name) and n.id == v.id and isinstance(n.ctx, (ast.Store, ast.Del)):
                return False
        d2 = ef.param_default(v.id)
        if d2 is None or ast.dump(d2) != ast.dump(d) or v.id in (self._sigs().get(ef.qualname.split('@')[0]) or [v.id]):
            return False
        # coinductive: a cycle of calls that only pass the default along never produces another value
        return ef.qualname in self._ext_busy or v.id in self.extension_defaults(ef)

    def is_abstract(self, fn: FuncInfo) -> bool:
        """A hook meant to be overridden outside the package: body is `pass` or `raise NotImplementedError`."""
        b = fn.body
        if len(b) != 1:
            return False
        s0 = b[0]
        if isinstance(s0, ast.Pass):
            return True
        if isinstance(s0, ast.Raise) and s0.exc is not None:
            e = s0.exc.func if isinstance(s0.exc, ast.Call) else s0.exc
            return isinstance(e, ast.Name) and e.id == 'NotImplementedError'
        return False

    def written_fields(self, fn: FuncInfo, _seen=None) -> frozenset:
        """Names of attributes a call of fn may store to or mutate, transitively over resolved package callees
        (syntactic over-approximation, used only to forget path facts)."""
        if not hasattr(self, '_wf_cache'):
            self._wf_cache = {}
        key = fn.qualname + ('#setter' if fn.is_setter else '')
        if key in self._wf_cache:
            return self._wf_cache[key]
        _seen = _seen if _seen is not None else set()
        if key in _seen:
            return frozenset()
        _seen.add(key)
        out = set()
        for n in ast.walk(fn.node):
            tgts = []
            if isinstance(n, ast.Assign):
                tgts = n.targets
            elif isinstance(n, (ast.AugAssign, ast.AnnAssign)):
                tgts = [n.target]
            elif isinstance(n, ast.Delete):
                tgts = n.targets
            for t in tgts:
                for tt in (t.elts if isinstance(t, (ast.Tuple, ast.List)) else [t]):
                    cur = tt
                    while isinstance(cur, ast.Subscript):
                        cur = cur.value
                    if isinstance(cur, ast.Attribute):
                        out.add(cur.attr)
            if isinstance(n, ast.Call):
                f = n.func
                if isinstance(f, ast.Attribute) and f.attr in MUTATORS:
                    cur = f.value
                    while isinstance(cur, ast.Subscript):
                        cur = cur.value
                    if isinstance(cur, ast.Attribute):
                        out.add(cur.attr)
                try:
                    tgt = self.ti.resolve_call(n, fn)
                except Exception:
                    tgt = None
                if tgt is not None and tgt.kind == 'pkg':
                    for c in tgt.funcs:
                        if self.is_abstract(c):
                            out.add('*')
                        else:
                            out |= self.written_fields(c, _seen)
                elif tgt is not None and tgt.kind == 'unknown':
                    out.add('*')
        res = frozenset(out)
        self._wf_cache[key] = res
        return res

    def return_summaries(self, fn: FuncInfo, opts: WalkOptions):
        """[(path condition, returned term)] of a small pure callee, over callee-frame terms; None if not summarisable."""
        key = fn.qualname
        if not hasattr(self, '_ret_cache'):
            self._ret_cache = {}
            self._ret_stack = []
        if key in self._ret_cache:
            return self._ret_cache[key]
        if key in self._ret_stack or len(self._ret_stack) > 2:
            return None
        self._ret_stack.append(key)
        try:
            try:
                ps = self.paths(fn, WalkOptions(unroll=1, inline_depth=opts.inline_depth, callee_raises=False,
                                                max_paths=64, prune=opts.prune, domain=opts.domain))
            except AnalysisError:
                ps = None
            res = None
            if ps is not None and len(ps) <= 8:
                rows = []
                ok = True
                for p in ps:
                    if any(e.kind == 'store' and e.data.get('shared') for e in p.events):
                        ok = False
                        break
                    if p.end == 'raise':
                        continue
                    v = p.last.data.get('value') if p.end == 'return' else Const(None)
                    rows.append((p.cond, v))
                res = rows if ok and rows else None
            self._ret_cache[key] = res
            return res
        finally:
            self._ret_stack.pop()

    def raise_summaries(self, fn: FuncInfo, opts: WalkOptions, depth: int = 0) -> List[RaiseSummary]:
        key = (fn.qualname + ('#setter' if fn.is_setter else ''), opts.unroll)
        if key in self._raise_cache:
            return self._raise_cache[key]
        if fn.qualname in self._raise_stack or depth > opts.raise_depth:
            return []
        self._raise_stack.append(fn.qualname)
        try:
            sub_opts = WalkOptions(unroll=min(opts.unroll, 1), inline_depth=opts.inline_depth,
                                   no_inline=opts.no_inline, callee_raises=True, max_paths=opts.max_paths,
                                   prune=opts.prune, domain=opts.domain, raise_depth=opts.raise_depth - 1,
                                   axioms=opts.axioms, inline_full=opts.inline_full)
            try:
                ps = self.paths(fn, sub_opts)
            except PathExplosion:
                ps = []
            out = []
            for p in ps:
                if p.end != 'raise':
                    continue
                last = p.last
                writes = [e for e in p.events if e.kind == 'store' and e.data.get('shared')]
                writes += list(last.data.get('callee_writes', []))
                exact = all(e.kind not in ('store',) or not e.data.get('shared') for e in p.events)
                out.append(RaiseSummary(last.data.get('exc', '?'), p.cond, writes, last.line,
                                        tuple(last.data.get('via', ())) , exact))
            self._raise_cache[key] = out
            return out
        finally:
            self._raise_stack.pop()


# ======================================================================== the walk
class _Ctx:
    def __init__(self, walker: Walker, fn: FuncInfo, opts: WalkOptions, inline_stack: Tuple[str, ...] = (), root_types=None):
        self.root_types = root_types      # types of the outermost frame's names (free symbols of inlined bodies live there)
        self.w = walker
        self.prog = walker.prog
        self.ti = walker.ti
        self.fn = fn
        self.opts = opts
        self.inline_stack = inline_stack
        self.types = self.ti.local_types(fn)

    # ------------------------------------------------------------------ helpers
    def _own_locals(self):
        """Names bound inside this (inlined) function other than its parameters: loop variables, assignments."""
        if not hasattr(self, '_ol'):
            ps = set(self.fn.params + self.fn.kwonly)
            self._ol = {k for k in self.types if k not in ps}
        return self._ol

    def emit(self, st: State, kind: str, node: ast.AST, **data) -> Event:
        ev = Event(kind, node, data, st.loops, self.inline_stack)
        st.events.append(ev)
        return ev

    def check_cap(self, states):
        if len(states) > self.opts.max_paths:
            raise PathExplosion(f"{self.fn.qualname}: more than {self.opts.max_paths} CFG paths (unroll={self.opts.unroll})")

    # ------------------------------------------------------------------ knowledge / pruning
    def assert_cond(self, st: State, f: Formula):
        st.conds.append(f)
        self._learn(st, f, True)

    def _learn(self, st: State, f: Formula, val: bool):
        if isinstance(f, FConst):
            return
        if isinstance(f, FNot):
            self._learn(st, f.f, not val)
        elif isinstance(f, FAnd):
            if val:
                for p in f.parts:
                    self._learn(st, p, True)
        elif isinstance(f, FOr):
            if not val:
                for p in f.parts:
                    self._learn(st, p, False)
        else:
            st.known[f] = val
            if isinstance(f, ACmp):
                st.known[f_not(f)] = not val
            if isinstance(f, AIs) and f.b == Const(None) and f.a in st.retfacts:
                # return-value correlation: the callee returns None on exactly the paths summarised here
                rows = st.retfacts[f.a]
                nones = [c for c, v in rows if v == Const(None)]
                others = [c for c, v in rows if v != Const(None)]
                pick = nones if val else others
                if len(pick) == 1 and (nones and others):
                    self._learn(st, pick[0], True)

    def invalidate(self, st: State, fields) -> None:
        """A call may have changed shared state: forget the literals that mention the affected fields.  fields is a set
        of attribute names, or None for an open-world callback (anything reachable may have changed); in that case
        access paths that were already read get a new version so that later reads are distinct quantities."""
        if not self.opts.invalidate:
            return
        from .terms import term_symbols

        def hit(sym):
            return isinstance(sym, Attr) and (fields is None or sym.name in fields)
        dropped = []
        for a in list(st.known):
            syms = term_symbols(a)
            if any(hit(x) for x in syms):
                dropped.append((a, syms))
                del st.known[a]
        if fields is None:
            st.epoch += 1
            paths = set()
            for a, syms in dropped:
                for x in syms:
                    if isinstance(x, Attr) and x.name not in ('model', 'systems', 'environment'):
                        paths.add(x)
            for pth in paths:
                if not (isinstance(pth, Attr) and isinstance(pth.base, Attr) and False):
                    st.heap[pth] = App('@t', (pth, Num(Fraction(st.epoch))))

    def decide(self, st: State, f: Formula) -> Optional[bool]:
        """Three-valued evaluation of f under the literals already established on this path."""
        if isinstance(f, FConst):
            return f.v
        if isinstance(f, FNot):
            r = self.decide(st, f.f)
            return None if r is None else (not r)
        if isinstance(f, FAnd):
            vals = [self.decide(st, p) for p in f.parts]
            if any(v is False for v in vals):
                return False
            if all(v is True for v in vals):
                return True
            return None
        if isinstance(f, FOr):
            vals = [self.decide(st, p) for p in f.parts]
            if any(v is True for v in vals):
                return True
            if all(v is False for v in vals):
                return False
            return None
        if f in st.known:
            return st.known[f]
        if self.opts.axioms is not None:
            r = self.opts.axioms(st.known, f)
            if r is not None:
                return r
        if isinstance(f, ACmp):
            facts = [a if v else f_not(a) for a, v in st.known.items() if isinstance(a, ACmp) and a.base == f.base]
            if facts:
                ctxf = f_and(*facts)
                try:
                    if implies(ctxf, f, domain=self.opts.domain) is None:
                        return True
                    if implies(ctxf, f_not(f), domain=self.opts.domain) is None:
                        return False
                except Exception:
                    return None
        return None

    # ------------------------------------------------------------------ statements
    def _loop_over(self, target: ast.expr, it: ast.expr, body: List[ast.stmt], depth=0) -> Optional[List[ast.stmt]]:
        """`for target in it: body` where `it` is a generator expression / map / filter written in place: the nested loop it
        abbreviates (one generator, evaluated lazily element by element - the same order of effects)."""
        g = it
        if isinstance(g, ast.Call):
            g = self._functional_as_genexp(g, State())
        if isinstance(g, ast.Call) and isinstance(g.func, ast.Name) and g.func.id in ('list', 'tuple', 'iter') and len(g.args) == 1 and not g.keywords:
            return self._loop_over(target, g.args[0], body, depth)
        if not isinstance(g, (ast.GeneratorExp, ast.ListComp)) or len(g.generators) != 1 or g.generators[0].is_async or depth > 3:
            return None
        gen = g.generators[0]
        inner = [ast.Assign(targets=[target], value=g.elt)] + body
        if isinstance(target, ast.Name) and isinstance(g.elt, ast.Name) and g.elt.id == target.id:
            inner = body
        for c in reversed(gen.ifs):
            inner = [ast.If(test=c, body=inner, orelse=[])]
        nested = self._loop_over(gen.target, gen.iter, inner, depth + 1)
        if nested is not None:
            return nested
        return [ast.For(target=gen.target, iter=gen.iter, body=inner, orelse=[], type_comment=None)]

    def _desugar_pop_marker(self, s: ast.stmt) -> Optional[List[ast.stmt]]:
        """`x = d.pop(k, MARKER)` with a module-level `MARKER = object()`: `if k in d: x = d.pop(k)` / `else: x = MARKER` - the pop
        happens exactly when the key is there (also with a walrus: `(x := d.pop(k, MARKER))` as a statement's test is not touched)."""
        import copy

        def marker_pop(c):
            if not (isinstance(c, ast.Call) and isinstance(c.func, ast.Attribute) and c.func.attr == 'pop' and len(c.args) == 2
                    and not c.keywords and isinstance(c.args[1], ast.Name)):
                return False
            r_ = self.prog.resolve_name(c.args[1].id, self.fn.module)
            mv = r_[1][0].assigns.get(r_[1][1]) if r_ is not None and r_[0] == 'modattr' else None
            if not (isinstance(mv, ast.Call) and isinstance(mv.func, ast.Name) and mv.func.id == 'object' and not mv.args):
                return False
            return not any(isinstance(y, ast.Call) for a in (c.func.value, c.args[0]) for y in ast.walk(a))
        if isinstance(s, ast.If) and isinstance(s.test, ast.Compare) and len(s.test.ops) == 1 and isinstance(s.test.ops[0], (ast.Is, ast.IsNot)) \
                and isinstance(s.test.comparators[0], ast.Name):
            # `if d.pop(k, MARKER) is MARKER:` / `if (x := d.pop(k, MARKER)) is not MARKER:`
            left = s.test.left
            tgt_ = None
            if isinstance(left, ast.NamedExpr) and isinstance(left.target, ast.Name):
                tgt_, left = left.target, left.value
            if marker_pop(left) and left.args[1].id == s.test.comparators[0].id:
                d, k = left.func.value, left.args[0]
                popc = ast.Call(func=copy.deepcopy(left.func), args=[copy.deepcopy(k)], keywords=[])
                hit = [ast.Assign(targets=[ast.Name(id=tgt_.id, ctx=ast.Store())], value=popc)] if tgt_ is not None else [ast.Expr(value=popc)]
                miss = [ast.Assign(targets=[ast.Name(id=tgt_.id, ctx=ast.Store())], value=copy.deepcopy(left.args[1]))] if tgt_ is not None else []
                absent_branch, present_branch = (s.body, s.orelse) if isinstance(s.test.ops[0], ast.Is) else (s.orelse, s.body)
                out = [ast.If(test=ast.Compare(left=copy.deepcopy(k), ops=[ast.In()], comparators=[copy.deepcopy(d)]),
                              body=hit + list(present_branch) or [ast.Pass()], orelse=miss + list(absent_branch))]
                for o in out:
                    ast.copy_location(o, s)
                    ast.fix_missing_locations(o)
                return out
        if not (isinstance(s, ast.Assign) and len(s.targets) == 1 and isinstance(s.targets[0], ast.Name) and marker_pop(s.value)):
            return None
        c = s.value
        d, k = c.func.value, c.args[0]
        hit = ast.Assign(targets=[copy.deepcopy(s.targets[0])], value=ast.Call(func=copy.deepcopy(c.func), args=[copy.deepcopy(k)], keywords=[]))
        miss = ast.Assign(targets=[copy.deepcopy(s.targets[0])], value=copy.deepcopy(c.args[1]))
        out = [ast.If(test=ast.Compare(left=copy.deepcopy(k), ops=[ast.In()], comparators=[copy.deepcopy(d)]), body=[hit], orelse=[miss])]
        for o in out:
            ast.copy_location(o, s)
            ast.fix_missing_locations(o)
        return out

    def _desugar_list_of_generator(self, s: ast.stmt) -> Optional[List[ast.stmt]]:
        """`x = list(gen(...))` / `return list(gen(...))` with gen a generator function of the package: the loop that fills the
        list from it (which the generator expansion then reads as the generator's own loop)."""
        if isinstance(s, ast.Return) and isinstance(s.value, ast.Call):
            c, name = s.value, f"_lg{s.lineno}_{s.col_offset}"
        elif isinstance(s, ast.Assign) and len(s.targets) == 1 and isinstance(s.targets[0], ast.Name) and isinstance(s.value, ast.Call):
            c, name = s.value, s.targets[0].id
        else:
            return None
        if not (isinstance(c.func, ast.Name) and c.func.id == 'list' and len(c.args) == 1 and not c.keywords and isinstance(c.args[0], ast.Call)):
            return None
        try:
            tgt = self.ti.resolve_call(c.args[0], self.fn, self.types)
        except Exception:
            return None
        if tgt.kind != 'pkg' or len(tgt.funcs) != 1 or tgt.via == 'ctor':
            return None
        g = tgt.funcs[0]
        if not any(isinstance(y, (ast.Yield, ast.YieldFrom)) for b in g.node.body for y in self._walk_own(b)):
            return None
        var = f"_gv{s.lineno}_{s.col_offset}"
        out = [ast.Assign(targets=[ast.Name(id=name, ctx=ast.Store())], value=ast.List(elts=[], ctx=ast.Load())),
               ast.For(target=ast.Name(id=var, ctx=ast.Store()), iter=c.args[0],
                       body=[ast.Expr(value=ast.Call(func=ast.Attribute(value=ast.Name(id=name, ctx=ast.Load()), attr='append', ctx=ast.Load()),
                                                     args=[ast.Name(id=var, ctx=ast.Load())], keywords=[]))], orelse=[], type_comment=None)]
        if isinstance(s, ast.Return):
            out.append(ast.Return(value=ast.Name(id=name, ctx=ast.Load())))
        for o in out:
            ast.copy_location(o, s)
            ast.fix_missing_locations(o)
        return out

    def _desugar_multicomp(self, s: ast.stmt) -> Optional[List[ast.stmt]]:
        """`x = [e for a in A for b in B if c]` / `return [...]` with two or more generators: the nested loops with `append` that
        the comprehension is defined as (targets renamed apart - comprehension variables are local to it)."""
        if isinstance(s, ast.Return) and isinstance(s.value, ast.ListComp):
            comp, name = s.value, f"_lc{s.lineno}_{s.col_offset}"
        elif isinstance(s, ast.Assign) and len(s.targets) == 1 and isinstance(s.targets[0], ast.Name) and isinstance(s.value, ast.ListComp) \
                and not any(isinstance(y, ast.Name) and y.id == s.targets[0].id for y in ast.walk(s.value)):
            comp, name = s.value, s.targets[0].id
        else:
            return None
        if any(g.is_async for g in comp.generators) or \
                any(isinstance(y, (ast.Lambda, ast.ListComp, ast.SetComp, ast.DictComp, ast.GeneratorExp, ast.NamedExpr)) for y in ast.walk(comp.elt)):
            return None
        if len(comp.generators) < 2 and not self._is_pkg_generator_call(comp.generators[0].iter):
            return None         # (one generator over a package generator function: the loop form lets the generator be expanded in place)
        import copy
        tnames = {y.id for g in comp.generators for y in ast.walk(g.target) if isinstance(y, ast.Name)}
        ren = {n: f"{n}_c{s.lineno}" for n in tnames}

        class R(ast.NodeTransformer):
            def visit_Name(s_, x):
                return ast.copy_location(ast.Name(id=ren.get(x.id, x.id), ctx=x.ctx), x)
        # a generator's iterable is evaluated in the scope of the generators before it: rename there too, except in the first
        gens = []
        for i, g in enumerate(comp.generators):
            it = copy.deepcopy(g.iter) if i == 0 else R().visit(copy.deepcopy(g.iter))
            gens.append((R().visit(copy.deepcopy(g.target)), it, [R().visit(copy.deepcopy(c)) for c in g.ifs]))
        body = [ast.Expr(value=ast.Call(func=ast.Attribute(value=ast.Name(id=name, ctx=ast.Load()), attr='append', ctx=ast.Load()),
                                        args=[R().visit(copy.deepcopy(comp.elt))], keywords=[]))]
        # loops are identified by their line: the generators of a one-line comprehension would all be "the loop at line n"
        glines = [getattr(g.target, 'lineno', s.lineno) for g in comp.generators]
        if len(set(glines)) != len(glines):
            if len(comp.generators) > 1:
                return None
        fors = []
        for (tgt, it, ifs), gl in zip(reversed(gens), reversed(glines)):
            for c in reversed(ifs):
                body = [ast.If(test=c, body=body, orelse=[])]
            fnode = ast.For(target=tgt, iter=it, body=body, orelse=[], type_comment=None)
            fors.append((fnode, gl))
            body = [fnode]
        out = [ast.Assign(targets=[ast.Name(id=name, ctx=ast.Store())], value=ast.List(elts=[], ctx=ast.Load()))] + body
        if isinstance(s, ast.Return):
            out.append(ast.Return(value=ast.Name(id=name, ctx=ast.Load())))
        for o in out:
            ast.copy_location(o, s)
            ast.fix_missing_locations(o)
        for fnode, gl in fors:
            fnode.lineno = gl
        return out

    def _is_pkg_generator_call(self, e: ast.expr) -> bool:
        if not isinstance(e, ast.Call):
            return False
        try:
            tgt = self.ti.resolve_call(e, self.fn, self.types)
        except Exception:
            return False
        if tgt.kind != 'pkg' or len(tgt.funcs) != 1 or tgt.via == 'ctor':
            return False
        return any(isinstance(y, (ast.Yield, ast.YieldFrom)) for st_ in tgt.funcs[0].node.body for y in self._walk_own(st_))

    def _desugar_extend(self, s: ast.stmt) -> Optional[List[ast.stmt]]:
        """`lst.extend(<generator expression / map / filter>)` on a local list: the loop with `lst.append(element)`."""
        if not (isinstance(s, ast.Expr) and isinstance(s.value, ast.Call) and isinstance(s.value.func, ast.Attribute) and
                s.value.func.attr == 'extend' and isinstance(s.value.func.value, ast.Name) and len(s.value.args) == 1 and not s.value.keywords):
            return None
        lst = s.value.func.value
        var = f"_x{s.lineno}_{s.col_offset}"
        app = ast.Expr(value=ast.Call(func=ast.Attribute(value=ast.Name(id=lst.id, ctx=ast.Load()), attr='append', ctx=ast.Load()),
                                      args=[ast.Name(id=var, ctx=ast.Load())], keywords=[]))
        out = self._loop_over(ast.Name(id=var, ctx=ast.Store()), s.value.args[0], [app])
        if out is None:
            it = s.value.args[0]
            if isinstance(it, (ast.List, ast.Tuple, ast.Constant, ast.Name, ast.BinOp)):
                return None          # extending by a list value: one store, handled as such
            out = [ast.For(target=ast.Name(id=var, ctx=ast.Store()), iter=it, body=[app], orelse=[], type_comment=None)]
        for o in out:
            ast.copy_location(o, s)
            ast.fix_missing_locations(o)
        return out

    @staticmethod
    def _desugar_setdefault(s: ast.stmt) -> Optional[List[ast.stmt]]:
        """`x = d.setdefault(k, v)` / `d.setdefault(k, v)` / `d.setdefault(k, v).m(...)` as the test-and-store it abbreviates:
        `if k not in d: d[k] = v` followed by the statement with `d[k]` in place of the call (k and d free of effects)."""
        def pure(e):
            for n in ast.walk(e):
                if isinstance(n, ast.Call) and not (isinstance(n.func, ast.Name) and n.func.id == 'type'):
                    return False
                if isinstance(n, (ast.NamedExpr, ast.Yield, ast.Await, ast.Lambda)):
                    return False
            return True

        def is_sd(c):
            return isinstance(c, ast.Call) and isinstance(c.func, ast.Attribute) and c.func.attr == 'setdefault' and len(c.args) == 2 \
                and not c.keywords and pure(c.func.value) and pure(c.args[0])
        call = None
        if isinstance(s, ast.Assign) and is_sd(s.value):
            call = s.value
        elif isinstance(s, ast.Expr) and is_sd(s.value):
            call = s.value
        elif isinstance(s, ast.Expr) and isinstance(s.value, ast.Call) and isinstance(s.value.func, ast.Attribute) and is_sd(s.value.func.value):
            call = s.value.func.value
        if call is None:
            return None
        import copy
        d, k, v = call.func.value, call.args[0], call.args[1]
        test = ast.Compare(left=copy.deepcopy(k), ops=[ast.NotIn()], comparators=[copy.deepcopy(d)])
        store = ast.Assign(targets=[ast.Subscript(value=copy.deepcopy(d), slice=copy.deepcopy(k), ctx=ast.Store())], value=v)
        guard = ast.If(test=test, body=[store], orelse=[])
        entry = ast.Subscript(value=copy.deepcopy(d), slice=copy.deepcopy(k), ctx=ast.Load())
        out = [guard]
        if isinstance(s, ast.Assign):
            out.append(ast.Assign(targets=s.targets, value=entry))
        elif isinstance(s.value, ast.Call) and s.value is not call:
            out.append(ast.Expr(value=ast.Call(func=ast.Attribute(value=entry, attr=s.value.func.attr, ctx=ast.Load()), args=s.value.args,
                                               keywords=s.value.keywords)))
        for o in out:
            ast.copy_location(o, s)
            ast.fix_missing_locations(o)
        return out

    @staticmethod
    def _desugar_ifexp(s: ast.stmt) -> Optional[List[ast.stmt]]:
        """`return a if c else b` / `x = a if c else b` as the if-statement they abbreviate (c is evaluated once and only the
        selected arm is evaluated in both spellings), so that every rule sees one value per path."""
        if isinstance(s, ast.Return) and isinstance(s.value, ast.IfExp):
            e = s.value
            out = ast.If(test=e.test, body=[ast.Return(value=e.body)], orelse=[ast.Return(value=e.orelse)])
        elif isinstance(s, ast.Assign) and isinstance(s.value, ast.IfExp) and len(s.targets) == 1 and isinstance(s.targets[0], ast.Name):
            e = s.value
            t = e.test
            while isinstance(t, ast.UnaryOp) and isinstance(t.op, ast.Not):
                t = t.operand
            if isinstance(t, ast.Compare) and len(t.ops) == 1 and isinstance(t.ops[0], (ast.Lt, ast.LtE, ast.Gt, ast.GtE)) and \
                    {ast.dump(t.left), ast.dump(t.comparators[0])} == {ast.dump(e.body), ast.dump(e.orelse)}:
                return None     # a min / max written as a conditional expression: kept as one value (term-level normal form)
            import copy
            out = ast.If(test=e.test, body=[ast.Assign(targets=[copy.deepcopy(s.targets[0])], value=e.body)],
                         orelse=[ast.Assign(targets=[copy.deepcopy(s.targets[0])], value=e.orelse)])
        else:
            return None
        ast.copy_location(out, s)
        for ch in out.body + out.orelse:
            ast.copy_location(ch, s)
        ast.fix_missing_locations(out)
        return [out]

    @staticmethod
    def _desugar_shortcircuit(s: ast.stmt) -> Optional[List[ast.stmt]]:
        """`if a and (x := f()) ...:` - a later operand of and/or binds a name: written out as the nested ifs that the
        short-circuit evaluation is, so that the binding (and its call) happens only on the paths that reach it."""
        if not (isinstance(s, ast.If) and isinstance(s.test, ast.BoolOp) and len(s.test.values) >= 2):
            return None
        if not any(isinstance(y, ast.NamedExpr) for v in s.test.values[1:] for y in ast.walk(v)):
            return None
        import copy
        first, rest = s.test.values[0], s.test.values[1:]
        rest_test = rest[0] if len(rest) == 1 else ast.BoolOp(op=s.test.op, values=rest)
        if isinstance(s.test.op, ast.And):
            inner = ast.If(test=rest_test, body=s.body, orelse=copy.deepcopy(s.orelse))
            out = ast.If(test=first, body=[inner], orelse=s.orelse)
        else:
            inner = ast.If(test=rest_test, body=copy.deepcopy(s.body), orelse=s.orelse)
            out = ast.If(test=first, body=s.body, orelse=[inner])
        for n in (inner, out):
            ast.copy_location(n, s)
        ast.fix_missing_locations(out)
        return [out]

    def ex_NamedExpr(self, e, st):
        v = self.ev(e.value, st)
        self.assign(e.target, v, st, e)
        return v

    def block(self, stmts: List[ast.stmt], states: List[State]) -> List[State]:
        for s in stmts:
            ds = getattr(s, '_desugared', None)
            if ds is None:
                ds = self._desugar_setdefault(s) or self._desugar_ifexp(s) or self._desugar_shortcircuit(s) or self._desugar_extend(s) or \
                    self._desugar_multicomp(s) or self._desugar_pop_marker(s) or self._desugar_list_of_generator(s) or False
                try:
                    s._desugared = ds
                except Exception:
                    pass
            if ds:
                states = self.block(ds, states)
                continue
            live = [x for x in states if x.status == 'normal']
            done = [x for x in states if x.status != 'normal']
            if not live:
                return states
            states = done + self.stmt(s, live)
            self.check_cap(states)
        return states

    def stmt(self, s: ast.stmt, states: List[State]) -> List[State]:
        if self.opts.inline_full and not getattr(s, '_hoisted', False):
            s, states = self._hoist_nested(s, states)
            try:
                s._hoisted = True
            except Exception:
                pass
            live = [x for x in states if x.status == 'normal']
            done = [x for x in states if x.status != 'normal']
            if done:
                m0 = getattr(self, 'st_' + type(s).__name__, None)
                if m0 is None:
                    raise AnalysisError(f"{self.fn.module.relpath}:{s.lineno}: statement kind {type(s).__name__} is not supported by the CFG builder")
                out0 = list(done)
                for st0 in live:
                    out0.extend(m0(s, st0))
                return out0
        m = getattr(self, 'st_' + type(s).__name__, None)
        if m is None:
            raise AnalysisError(f"{self.fn.module.relpath}:{s.lineno}: statement kind {type(s).__name__} is not "
                                f"supported by the CFG builder")
        out = []
        for st in states:
            out.extend(m(s, st))
        return out

    def st_Match(self, s, st):
        """`match subject:` with value / singleton / class (no sub-patterns) / or / wildcard / capture patterns: the if-elif chain
        it is defined as (subject evaluated once; `case Cls():` is isinstance, `case 'lit':` is ==, `case None:` is `is`)."""
        ds = getattr(s, '_match_chain', None)
        if ds is None:
            pre = []
            subj = s.subject
            if not isinstance(subj, ast.Name):
                tmp = f"_m{s.lineno}_{s.col_offset}"
                pre.append(ast.Assign(targets=[ast.Name(id=tmp, ctx=ast.Store())], value=subj))
                subj = ast.Name(id=tmp, ctx=ast.Load())

            def test(pat):
                """(test expression or None for always-true, [binding statements])"""
                if isinstance(pat, ast.MatchValue):
                    return ast.Compare(left=subj, ops=[ast.Eq()], comparators=[pat.value]), []
                if isinstance(pat, ast.MatchSingleton):
                    return ast.Compare(left=subj, ops=[ast.Is()], comparators=[ast.Constant(value=pat.value)]), []
                if isinstance(pat, ast.MatchClass) and not pat.patterns and not pat.kwd_patterns:
                    return ast.Call(func=ast.Name(id='isinstance', ctx=ast.Load()), args=[subj, pat.cls], keywords=[]), []
                if isinstance(pat, ast.MatchOr):
                    parts = [test(q) for q in pat.patterns]
                    if any(b for _, b in parts):
                        raise AnalysisError(f"{self.fn.module.relpath}:{s.lineno}: captures inside an or-pattern are not supported by the CFG builder")
                    if any(t is None for t, _ in parts):
                        return None, []
                    return ast.BoolOp(op=ast.Or(), values=[t for t, _ in parts]), []
                if isinstance(pat, ast.MatchAs):
                    bind = [ast.Assign(targets=[ast.Name(id=pat.name, ctx=ast.Store())], value=subj)] if pat.name else []
                    if pat.pattern is None:
                        return None, bind
                    t, b = test(pat.pattern)
                    return t, b + bind
                raise AnalysisError(f"{self.fn.module.relpath}:{s.lineno}: match pattern {type(pat).__name__} is not supported by the CFG builder")
            chain = None
            for case in reversed(s.cases):
                t, bind = test(case.pattern)
                body = bind + case.body
                if case.guard is not None:
                    if bind:
                        raise AnalysisError(f"{self.fn.module.relpath}:{s.lineno}: a guard on a capturing case is not supported by the CFG builder")
                    t = case.guard if t is None else ast.BoolOp(op=ast.And(), values=[t, case.guard])
                if t is None:
                    chain = body
                else:
                    chain = [ast.If(test=t, body=body, orelse=chain or [])]
            ds = pre + (chain or [])
            for o in ds:
                ast.copy_location(o, s)
                ast.fix_missing_locations(o)
            try:
                s._match_chain = ds
            except Exception:
                pass
        return self.block(ds, [st])

    def st_Pass(self, s, st):
        return [st]

    st_Global = st_Nonlocal = st_Pass

    def st_Import(self, s, st):
        # a function-local import binds a local name to the module
        for a in s.names:
            st.env[a.asname or a.name.split('.')[0]] = Sym(a.name if a.asname else a.name.split('.')[0])
        return [st]

    def st_ImportFrom(self, s, st):
        for a in s.names:
            if a.name != '*' and s.module and not s.level:
                st.env[a.asname or a.name] = Sym(f"{s.module}.{a.name}")
        return [st]

    def st_FunctionDef(self, s, st):
        q = f"{self.fn.qualname}.<locals>.{s.name}"
        fi = self.prog.functions.get(q)
        if fi is not None and fi.node is not s and f"{q}@{s.lineno}" in self.prog.functions:
            q = f"{q}@{s.lineno}"       # the def of this branch, not its namesake in another branch
        st.env[s.name] = Sym('<func ' + q + '>')
        return [st]

    def st_ClassDef(self, s, st):
        st.env[s.name] = Sym('<class ' + s.name + '>')
        return [st]

    def _full_inline_target(self, e, st: State):
        """If e is a call to a single package function selected for full inlining, return (callee, tgt)."""
        if not self.opts.inline_full or not isinstance(e, ast.Call) or len(self.inline_stack) >= 4:
            return None
        tgt = self.ti.resolve_call(e, self.fn, self.types)
        if tgt.kind != 'pkg' or len(tgt.funcs) != 1 or tgt.via == 'ctor':
            return None
        callee = tgt.funcs[0]
        if any(isinstance(y, (ast.Yield, ast.YieldFrom)) for b in callee.node.body for y in self._walk_own(b)):
            return None         # a generator function: calling it runs nothing; its body runs in the loop that consumes it
        wanted = callee.qualname in self.opts.inline_full or \
            ('<private>' in self.opts.inline_full and callee.name.startswith('_') and not callee.name.startswith('__')
             and callee.parent is None) or \
            ('<private>' in self.opts.inline_full and self.w.is_new_function(callee)) or \
            ('<private>' in self.opts.inline_full and callee.parent is not None and callee.parent.qualname == self.fn.qualname
             and not any(isinstance(y, (ast.Nonlocal, ast.Global)) for y in ast.walk(callee.node)))
        if not wanted or callee.qualname in self.inline_stack or callee.qualname == self.fn.qualname or \
                callee.name in self.opts.no_full_inline:
            return None
        if _is_single_return(callee, chains=False) is not None or _straight_line(callee) is not None:
            return None         # evaluated in place like an expression (a guard-clause chain forks the path like its if-statements)
        return callee, tgt

    def _hoist_nested(self, s: ast.stmt, states: List[State]):
        """Calls to fully-inlined helpers nested inside a statement's expressions are evaluated first, into temporaries
        (A-normal form), so that their bodies can fork the path like any statement-level call."""
        if not self.opts.inline_full:
            return s, states
        exprs = []
        if isinstance(s, (ast.Expr, ast.Return)) and s.value is not None:
            exprs = [s.value]
        elif isinstance(s, (ast.Assign, ast.AugAssign, ast.AnnAssign)) and s.value is not None:
            exprs = [s.value]
        elif isinstance(s, (ast.If, ast.While)):
            exprs = [s.test] if isinstance(s, ast.If) else []
        elif isinstance(s, ast.For):
            exprs = [s.iter]
        if not exprs or not states:
            return s, states
        top = exprs[0]
        found = []

        def visit(n, is_top):
            # calls evaluated per element (comprehensions), later (lambdas) or conditionally (conditional expressions,
            # the right operands of and/or) cannot be moved in front of the statement
            if isinstance(n, (ast.ListComp, ast.SetComp, ast.DictComp, ast.GeneratorExp)):
                # ... except the iterable of the leftmost `for`, which is evaluated once, in the enclosing scope, before anything else
                visit(n.generators[0].iter, False)
                return
            if isinstance(n, ast.Lambda):
                return
            for c in ast.iter_child_nodes(n):
                if isinstance(n, ast.IfExp) and c is not n.test:
                    continue
                if isinstance(n, ast.BoolOp) and c is not n.values[0]:
                    continue
                visit(c, False)
            if isinstance(n, ast.Call) and not (is_top and isinstance(s, (ast.Expr, ast.Return, ast.Assign))):
                if self._full_inline_target(n, states[0]) is not None:
                    found.append(n)
        visit(top, True)
        if not found:
            return s, states
        import copy
        s2 = copy.deepcopy(s)
        # map original nodes to their copies by position
        orig_nodes = list(ast.walk(s))
        copy_nodes = list(ast.walk(s2))
        mapping = {id(o): c for o, c in zip(orig_nodes, copy_nodes)}
        for k, n in enumerate(found):
            name = f"__h{getattr(n, 'lineno', 0)}_{k}"
            pre = ast.Assign(targets=[ast.Name(id=name, ctx=ast.Store())], value=n, lineno=n.lineno, col_offset=0)
            ast.fix_missing_locations(pre)
            states = self.stmt(pre, [x for x in states if x.status == 'normal']) + [x for x in states if x.status != 'normal']
            cn = mapping[id(n)]
            repl = ast.Name(id=name, ctx=ast.Load())
            ast.copy_location(repl, cn)
            for parent in ast.walk(s2):
                for fld, val in ast.iter_fields(parent):
                    if val is cn:
                        setattr(parent, fld, repl)
                    elif isinstance(val, list):
                        for i, x in enumerate(val):
                            if x is cn:
                                val[i] = repl
        return s2, states

    def inline_statement_call(self, e: ast.Call, st: State, callee: FuncInfo, tgt: CallTarget):
        """Walk the callee's body in place of the call: returns [(state, returned term)]."""
        f = e.func
        args = self._splice_star([self.ev(a, st) for a in e.args])
        kw = {k.arg if k.arg is not None else '**': self.ev(k.value, st) for k in e.keywords}
        recv = None
        if isinstance(f, ast.Attribute):
            if isinstance(f.value, ast.Call) and isinstance(f.value.func, ast.Name) and f.value.func.id == 'super':
                sn = self.ti._self_name(self.fn) or 'self'
                recv = st.env.get(sn, Sym(sn))
            else:
                recv = self.ev(f.value, st)
        skip_self = callee.cls is not None and not callee.is_static and callee.parent is None and tgt.via in ('method', 'super', 'byname')
        benv = self.bind_args(callee, recv if skip_self else None, args, kw, st, skip_self)
        if benv is None:
            return None
        self.emit(st, 'call', e, targets=[callee], target_kind='pkg', callee_name=callee.qualname, recv=recv if skip_self else None,
                  args=tuple(args), kw=tuple(sorted(kw.items())), via=tgt.via, expr=e, result=None, inlined=True, full_inline=True)
        sub = _Ctx(self.w, callee, self.opts, self.inline_stack + (callee.qualname,),
                   root_types=self.root_types if self.root_types is not None else self.types)
        saved = dict(st.env)
        if callee.parent is not None and callee.parent.qualname == self.fn.qualname:
            # a local closure: its free variables are the enclosing function's locals as they are now
            st.env = dict(saved)
            st.env.update(benv)
        else:
            st.env = dict(benv)
        outs = []
        for o in sub.block(callee.body, [st]):
            val = Const(None)
            if o.status == 'return':
                last = o.events[-1] if o.events else None
                if last is not None and last.kind == 'return':
                    val = last.data.get('value', Const(None))
                    last.kind = 'ireturn'
                o.status = 'normal'
            if o.status in ('normal',):
                o.env = dict(saved)
            outs.append((o, val))
        return outs

    def st_Expr(self, s, st):
        fi = self._full_inline_target(s.value, st)
        if fi is not None:
            r = self.inline_statement_call(s.value, st, *fi)
            if r is not None:
                return [o for o, v in r]
        self.ev(s.value, st, stmt=s)
        return self._after_calls(st)

    def st_Assert(self, s, st):
        f = self.formula(self.ev(s.test, st), st)
        self.assert_cond(st, f)
        return self._after_calls(st)

    def _after_calls(self, st: State) -> List[State]:
        """Fork on tabled raises of the callees evaluated in the statement just processed."""
        pend = [e for e in st.events if e.kind == 'call' and (e.data.get('_pending_raises') or e.data.get('_invalidate'))]
        if not pend:
            return [st]
        out = []
        cont = st
        for ev in pend:
            sums = ev.data.pop('_pending_raises', [])
            inv = ev.data.pop('_invalidate', None)
            neg_all = []
            multi = len(ev.data.get('targets', [])) > 1 and ev.data.get('via') in ('method', 'byname')
            for rs, cond in sums:
                d = self.decide(cont, cond) if self.opts.prune else None
                if multi and d is True:
                    d = None        # one of several possible (overriding) targets raises: the call may still return
                if d is False:
                    continue
                r = cont.fork()
                # events after the raising call have not happened on the raising path
                idx = r.events.index(ev)
                r.events = r.events[:idx + 1]
                self.assert_cond(r, cond)
                rev = Event('raise', ev.node, {'exc': rs.exc, 'via': (ev.data.get('callee_name', '?'),) + rs.via,
                                               'callee_writes': rs.writes_before, 'callee_line': rs.line,
                                               'direct': False, 'arms': list(ev.data.get('arms', []))}, r.loops, self.inline_stack)
                r.events.append(rev)
                r.status = 'raise'
                out.append(r)
                if not multi:
                    neg_all.append(f_not(cond))
                if d is True:
                    cont = None
                    break
            if cont is None:
                break
            for n in neg_all:
                self.assert_cond(cont, n)
            if inv is not None:
                # facts about fields the call may have written are forgotten only now: the raise conditions above
                # speak about the state at call entry
                self.invalidate(cont, None if inv[0] == 'all' else inv[1])
        if cont is not None:
            out.append(cont)
        return out

    def st_Assign(self, s, st):
        from . import terms as _T
        n0 = len(_T.CANCEL_LOG)
        outs = self._st_Assign(s, st)
        if len(_T.CANCEL_LOG) > n0:
            for o in outs:
                self.emit(o, 'cancel', s, mons=tuple(_T.CANCEL_LOG[n0:]))
        return outs

    def _st_Assign(self, s, st):
        fi = self._full_inline_target(s.value, st)
        if fi is not None:
            r = self.inline_statement_call(s.value, st, *fi)
            if r is not None:
                outs = []
                for o, v in r:
                    if o.status == 'normal':
                        for t in s.targets:
                            self.assign(t, v, o, s)
                    outs.append(o)
                return outs
        v = self.ev(s.value, st, stmt=s)
        arms = self._function_arms(v) if isinstance(v, IfT) and len(s.targets) == 1 and isinstance(s.targets[0], ast.Name) else None
        if arms:
            outs = []
            for base in self._after_calls(st):
                if base.status != 'normal':
                    outs.append(base)
                    continue
                for k, (c, val) in enumerate(arms):
                    d = self.decide(base, c) if self.opts.prune else None
                    if d is False:
                        continue
                    o = base.fork() if k < len(arms) - 1 else base
                    self.emit(o, 'cond', s, formula=c, taken=True, raw=s.value)
                    self.assert_cond(o, c)
                    self.assign(s.targets[0], val, o, s)
                    outs.append(o)
            return outs
        for t in s.targets:
            self.assign(t, v, st, s)
        return self._after_calls(st)

    @staticmethod
    def _function_arms(v: Term):
        """[(condition, value)] for a nested conditional term all of whose leaves are function objects or None."""
        rows = []
        neg = []
        cur = v
        n = 0
        while isinstance(cur, IfT) and n < 8:
            rows.append((f_and(*neg, cur.cond), cur.a))
            neg.append(f_not(cur.cond))
            cur = cur.b
            n += 1
        rows.append((f_and(*neg), cur))
        ok = all((isinstance(x, Sym) and x.name.startswith('<func ')) or (isinstance(x, Const) and x.value is None) for _, x in rows)
        return rows if ok and len(rows) >= 2 else None

    def st_AnnAssign(self, s, st):
        if s.value is not None:
            v = self.ev(s.value, st, stmt=s)
            self.assign(s.target, v, st, s)
        return self._after_calls(st)

    def st_AugAssign(self, s, st):
        from . import terms as _T
        n0 = len(_T.CANCEL_LOG)
        outs = self._st_AugAssign(s, st)
        if len(_T.CANCEL_LOG) > n0:
            for o in outs:
                self.emit(o, 'cancel', s, mons=tuple(_T.CANCEL_LOG[n0:]))
        return outs

    def _st_AugAssign(self, s, st):
        if isinstance(s.op, ast.BitOr) and isinstance(s.target, ast.Name):
            cur0 = strip_at(st.env.get(s.target.id))
            if isinstance(cur0, Fresh) and cur0.kind in ('dict', 'call:dict', 'dictcomp'):
                # d |= other (a dict built in this call): d.update(other)
                upd = ast.Expr(value=ast.Call(func=ast.Attribute(value=ast.Name(id=s.target.id, ctx=ast.Load()), attr='update', ctx=ast.Load()),
                                              args=[s.value], keywords=[]))
                ast.copy_location(upd, s)
                ast.fix_missing_locations(upd)
                return self.stmt(upd, [st])
        cur = self.ev(_load(s.target), st)
        v = self.ev(s.value, st, stmt=s)
        is_list = isinstance(cur, Fresh) and cur.kind in ('list', 'call:list', 'listcomp', 'copy')
        if not is_list and isinstance(s.target, ast.Attribute):
            tt = self.ti.expr_type(s.target, self.fn, self.types)
            is_list = bool(tt and tt[0] == 'list')
        if isinstance(s.op, ast.Add) and is_list and \
                isinstance(v, Fresh) and v.kind == 'list' and v.detail is None and v.items and \
                all(not (isinstance(x, App) and x.fn == '*') for x in v.items):
            # `lst += [a, b]` on a list allocated in this activation is in-place: the same as appending each element
            for item in v.items:
                self.store_event(st, s, _load(s.target), cur, 'append', args=(item,), kw=(), key=item, value=item)
                self.bump(st, cur)
                vb = self.versioned(st, cur)
                if cur in st.contents:
                    if st.contents[cur] is not None and st.approx == 0:
                        st.contents[cur] = st.contents[cur] + (item,)
                    else:
                        st.contents[cur] = None
                st.known[AIn(item, vb)] = True
            return self._after_calls(st)
        nv = self.binop(s.op, cur, v, s)
        self.assign(s.target, nv, st, s, aug=type(s.op).__name__, operand=v)
        return self._after_calls(st)

    def st_Delete(self, s, st):
        for t in s.targets:
            if isinstance(t, ast.Subscript):
                base = self.ev(t.value, st)
                idx = self.ev(t.slice, st)
                self.store_event(st, s, t.value, base, 'delitem', key=idx)
                vb = self.versioned(st, base)
                st.known[AIn(idx, vb)] = False
            elif isinstance(t, ast.Attribute):
                base = self.ev(t.value, st)
                self.store_event(st, s, t, Attr(base, t.attr), 'delattr', attr=t.attr, base_expr=t.value)
            elif isinstance(t, ast.Name):
                st.env.pop(t.id, None)
        return [st]

    def st_Return(self, s, st):
        fi = self._full_inline_target(s.value, st) if s.value is not None else None
        if fi is not None:
            r = self.inline_statement_call(s.value, st, *fi)
            if r is not None:
                outs = []
                for o, v in r:
                    if o.status == 'normal':
                        self.emit(o, 'return', s, value=v)
                        o.status = 'return'
                    outs.append(o)
                return outs
        v = self.ev(s.value, st, stmt=s) if s.value is not None else Const(None)
        outs = self._after_calls(st)
        for o in outs:
            if o.status == 'normal':
                self.emit(o, 'return', s, value=v)
                o.status = 'return'
        return outs

    def st_Raise(self, s, st):
        exc = '?'
        if s.exc is not None:
            e = s.exc.func if isinstance(s.exc, ast.Call) else s.exc
            r = self.prog.resolve_expr_static(e, self.fn.module) if isinstance(e, (ast.Name, ast.Attribute)) else None
            if r and r[0] == 'class':
                exc = r[1].name
            elif isinstance(e, ast.Name):
                exc = e.id
                held = strip_at(st.env.get(e.id)) if e.id in st.env and not isinstance(s.exc, ast.Call) else None
                if isinstance(held, App):
                    # `problem = ValueError(...)` ... `raise problem`: the class of the object the local holds on this path
                    if held.fn.startswith('new:'):
                        exc = held.fn[4:].rsplit('.', 1)[-1]
                    elif held.fn in _BUILTIN_EXC:
                        exc = held.fn
                    elif held.fn == 'call' and held.args and isinstance(held.args[0], Sym):
                        exc = held.args[0].name.rsplit('.', 1)[-1]
            elif isinstance(e, ast.Attribute):
                exc = e.attr
            xargs = None
            if isinstance(s.exc, ast.Call):
                xargs = tuple(self.ev(a, st) for a in s.exc.args)
                if not (r and r[0] == 'class'):
                    # raise _make_error(...): the class of the object the (package) helper returns
                    try:
                        tg = self.ti.resolve_call(s.exc, self.fn, self.types)
                    except Exception:
                        tg = None
                    if tg is not None and tg.kind == 'pkg' and len(tg.funcs) == 1 and tg.via != 'ctor':
                        names = set()
                        for y in ast.walk(tg.funcs[0].node):
                            if isinstance(y, ast.Return) and isinstance(y.value, ast.Call):
                                f2 = y.value.func
                                names.add(f2.id if isinstance(f2, ast.Name) else (f2.attr if isinstance(f2, ast.Attribute) else '?'))
                            elif isinstance(y, ast.Return) and y.value is not None:
                                names.add('?')
                        if len(names) == 1 and '?' not in names:
                            exc = names.pop()
        else:
            xargs = None
        self.emit(st, 'raise', s, exc=exc, via=(), direct=True, callee_writes=[], args=xargs)
        st.status = 'raise'
        return [st]

    def st_Break(self, s, st):
        st.status = 'break'
        return [st]

    def st_Continue(self, s, st):
        st.status = 'continue'
        return [st]

    def st_If(self, s, st):
        c = self.formula(self.ev(s.test, st), st)
        outs = []
        pre = self._after_calls(st)
        for base in pre:
            if base.status != 'normal':
                outs.append(base)
                continue
            d = self.decide(base, c) if self.opts.prune else None
            # a boolean kept in a local (`found = k in d` ... `if found:` ... `if not found:`) holds the value the test had when it
            # was assigned: once a branch has decided it, the local IS that constant on this path, whatever is written afterwards
            flag, neg = s.test, False
            while isinstance(flag, ast.UnaryOp) and isinstance(flag.op, ast.Not):
                flag, neg = flag.operand, not neg
            flag = flag.id if isinstance(flag, ast.Name) and isinstance(base.env.get(flag.id), BoolT) else None
            if d is not False:
                a = base.fork() if d is None else base
                self.emit(a, 'cond', s, formula=c, taken=True, raw=s.test)
                self.assert_cond(a, c)
                if flag:
                    a.env[flag] = Const(not neg)
                outs.extend(self.block(s.body, [a]))
            if d is not True:
                b = base
                nc = f_not(c)
                self.emit(b, 'cond', s, formula=nc, taken=False, raw=s.test)
                self.assert_cond(b, nc)
                if flag:
                    b.env[flag] = Const(neg)
                outs.extend(self.block(s.orelse, [b]) if s.orelse else [b])
        return outs

    def bind_loop_target(self, target, iter_expr, iter_term, st: State, suffix: str, node):
        """Bind the loop variable(s) for one iteration; returns loop info dict."""
        info = {'iter': iter_term, 'kind': 'iter'}

        def sym(n):
            return Sym(n + suffix)
        it = iter_term
        if isinstance(it, App) and it.fn == 'enumerate' and isinstance(target, (ast.Tuple, ast.List)) \
                and len(target.elts) == 2 and isinstance(target.elts[0], ast.Name):
            i = sym(target.elts[0].id)
            st.env[target.elts[0].id] = i
            st.known[AIs(i, Const(None))] = False      # a position is an int
            seq = it.args[0]
            self.assign(target.elts[1], Sub(seq, i), st, node, loopvar=True)
            info.update(kind='enumerate', seq=seq, index=i, start=it.args[1] if len(it.args) > 1 else Num(Fraction(0)))
            return info
        if isinstance(it, App) and it.fn == 'enumerate' and isinstance(target, ast.Name):
            # `for pair in enumerate(X)`: the (position, element) pair as one value
            i = sym(target.id + '_i')
            st.known[AIs(i, Const(None))] = False
            seq = it.args[0]
            st.env[target.id] = TupleT((i, Sub(seq, i)))
            info.update(kind='enumerate', seq=seq, index=i, start=it.args[1] if len(it.args) > 1 else Num(Fraction(0)), var=st.env[target.id])
            return info
        if isinstance(it, App) and it.fn == 'range' and isinstance(target, ast.Name):
            i = sym(target.id)
            st.env[target.id] = i
            st.known[AIs(i, Const(None))] = False      # a range element is an int
            a = it.args
            lo, hi, step = Num(Fraction(0)), None, Num(Fraction(1))
            if len(a) == 1:
                hi = a[0]
            elif len(a) >= 2:
                lo, hi = a[0], a[1]
                if len(a) == 3:
                    step = a[2]
            info.update(kind='range', lo=lo, hi=hi, step=step, index=i)
            return info
        if isinstance(it, App) and it.fn == '.items' and isinstance(target, (ast.Tuple, ast.List)) \
                and len(target.elts) == 2 and isinstance(target.elts[0], ast.Name):
            k = sym(target.elts[0].id)
            st.env[target.elts[0].id] = k
            d = it.args[0]
            self.assign(target.elts[1], Sub(d, k), st, node, loopvar=True)
            info.update(kind='items', seq=d, index=k)
            return info
        if isinstance(target, ast.Name):
            v = sym(target.id)
            st.env[target.id] = v
            info.update(var=v)
        elif isinstance(target, (ast.Tuple, ast.List)):
            for e in target.elts:
                if isinstance(e, ast.Name):
                    st.env[e.id] = sym(e.id)
        return info

    @staticmethod
    def _literal_items(it: Term, allow_range: bool = True):
        """Items of a literal tuple / list display whose elements are all known (constants or tuples of terms)."""
        def plain(items):
            return all(not (isinstance(x, App) and x.fn == '*') for x in items)
        if isinstance(it, TupleT) and 0 < len(it.items) <= 8 and plain(it.items):
            return list(it.items)
        if isinstance(it, App) and it.fn == 'enumerate' and not it.kw and 1 <= len(it.args) <= 2 and \
                (len(it.args) == 1 or (isinstance(it.args[1], Num) and isinstance(it.args[1].value, Fraction) and it.args[1].value.denominator == 1)):
            # enumerate over a display written in place: the (position, element) pairs
            inner = _Ctx._literal_items(it.args[0], allow_range)
            if inner is not None:
                start = int(it.args[1].value) if len(it.args) == 2 else 0
                return [TupleT((Num(Fraction(start + i)), x)) for i, x in enumerate(inner)]
        if isinstance(it, App) and it.fn == 'zip' and not it.kw and len(it.args) == 2:
            a, b = _Ctx._literal_items(it.args[0], allow_range), _Ctx._literal_items(it.args[1], allow_range)
            if a is not None and b is not None:
                return [TupleT((x, y)) for x, y in zip(a, b)]
        if isinstance(it, Fresh) and it.kind == 'list' and it.detail is None and 0 < len(it.items) <= 8 and plain(it.items):
            return list(it.items)
        if allow_range and isinstance(it, App) and it.fn == 'range' and not it.kw and 1 <= len(it.args) <= 2 and \
                all(isinstance(a, Num) and isinstance(a.value, Fraction) and a.value.denominator == 1 for a in it.args):
            lo, hi = (0, int(it.args[0].value)) if len(it.args) == 1 else (int(it.args[0].value), int(it.args[1].value))
            if 0 < hi - lo <= 8:
                return [Num(Fraction(i)) for i in range(lo, hi)]
        return None

    def _known_empty(self, it: Term, st: State) -> bool:
        """it is a container display allocated empty in this activation and not written since."""
        if not (isinstance(it, Fresh) and it.kind in ('dict', 'list', 'set', 'tuple') and not it.items and it.detail is None):
            return False
        if st.ver.get(it, 0):
            return False
        return not any(e.kind == 'store' and e.data.get('root') == it for e in st.events)

    # ------------------------------------------------------------------ loops over package generators
    def _generator_expansion(self, s: ast.For, st: State) -> Optional[List[ast.stmt]]:
        """`for T in gen(args): BODY` with gen a generator function of the package: the generator's body with every
        `yield e` replaced by `T = e; BODY` (parameters and locals renamed apart, arguments bound first).  Done only where the
        two are the same computation: the generator is a (possibly empty) yield-free prelude followed by one loop and
        nothing else - then leaving the for-loop (`break`) and stopping the generator (`return`) are both leaving that loop -
        and, when BODY uses `continue`, nothing follows a `yield` within its iteration."""
        if not isinstance(s.iter, ast.Call) or s.orelse:
            return None
        tgt = self.ti.resolve_call(s.iter, self.fn, self.types)
        if tgt.kind != 'pkg' or len(tgt.funcs) != 1 or tgt.via == 'ctor':
            return None
        g = tgt.funcs[0]
        gnode = g.node
        import copy
        own0 = [y for st_ in gnode.body for y in self._walk_own(st_)]
        if not any(isinstance(y, (ast.Yield, ast.YieldFrom)) for y in own0) or len(self.inline_stack) >= 3 or g.qualname in self.inline_stack:
            return None
        body = [copy.deepcopy(b) for b in gnode.body if not (isinstance(b, ast.Expr) and isinstance(b.value, ast.Constant))]      # docstring
        if not body:
            return None
        # `yield from X` is `for v in X: yield v`
        yf_n = [0]

        class YF(ast.NodeTransformer):
            def visit_FunctionDef(self, n):
                return n
            visit_Lambda = visit_FunctionDef

            def visit_Expr(self, n):
                if isinstance(n.value, ast.YieldFrom):
                    yf_n[0] += 1
                    v_ = f"_yf{yf_n[0]}"
                    lp = ast.For(target=ast.Name(id=v_, ctx=ast.Store()), iter=n.value.value,
                                 body=[ast.Expr(value=ast.Yield(value=ast.Name(id=v_, ctx=ast.Load())))], orelse=[], type_comment=None)
                    return ast.fix_missing_locations(ast.copy_location(lp, n))
                return self.generic_visit(n)
        body = [YF().visit(b) for b in body]

        # an early `if c: ...; return` at the top level is `if c: ... else: <the rest>`
        def no_early_return(stmts):
            for i, b in enumerate(stmts):
                if isinstance(b, ast.If) and not b.orelse and b.body and isinstance(b.body[-1], ast.Return) and b.body[-1].value is None \
                        and i + 1 < len(stmts):
                    b.body = no_early_return(b.body[:-1]) or [ast.Pass()]
                    b.orelse = no_early_return(stmts[i + 1:])
                    return stmts[:i + 1]
            return stmts
        body = no_early_return(body)
        own = [y for st_ in body for y in self._walk_own(st_)]
        yields = [y for y in own if isinstance(y, (ast.Yield, ast.YieldFrom))]
        if not yields or any(isinstance(y, ast.YieldFrom) for y in yields):
            return None
        body_has_continue = any(isinstance(y, ast.Continue) for b in s.body for y in self._walk_own(b, loops=False))

        # shape: G ::= <yield-free prelude> <loop>  |  <yield-free prelude> if c: G [else: G]
        def shape_ok(stmts):
            if not stmts:
                return True
            prelude_, last = stmts[:-1], stmts[-1]
            if any(isinstance(y, (ast.Yield, ast.Return)) for p_ in prelude_ for y in self._walk_own(p_)):
                return False
            if isinstance(last, (ast.For, ast.While)):
                if last.orelse:
                    return False
                for y in self._walk_own(last):
                    if isinstance(y, ast.Return) and y.value is not None:
                        return False
                ys = [y for y in self._walk_own(last) if isinstance(y, ast.Yield)]
                yst = [y for y in self._walk_own(last) if isinstance(y, ast.Expr) and isinstance(y.value, ast.Yield)]
                if len(ys) != len(yst):
                    return False
                return not (body_has_continue and not self._yields_last(last))
            if isinstance(last, ast.If):
                return shape_ok(last.body) and shape_ok(last.orelse)
            return not any(isinstance(y, (ast.Yield, ast.Return)) for y in self._walk_own(last))
        if not shape_ok(body):
            return None
        prelude, loop = body[:-1], body[-1]
        # argument binding
        call = s.iter
        params = [a.arg for a in gnode.args.posonlyargs + gnode.args.args]
        if gnode.args.vararg or gnode.args.kwarg or gnode.args.kwonlyargs:
            return None
        pre = f"_g{s.lineno}_"
        binds = []
        skip_self = g.cls is not None and not g.is_static and isinstance(call.func, ast.Attribute)
        pos = list(call.args)
        if any(isinstance(a, ast.Starred) for a in pos) or any(k.arg is None for k in call.keywords):
            return None
        import copy
        if skip_self:
            if not params:
                return None
            binds.append((params[0], copy.deepcopy(call.func.value)))
            rest = params[1:]
        else:
            rest = params
        if len(pos) > len(rest):
            return None
        for p_, a in zip(rest, pos):
            binds.append((p_, copy.deepcopy(a)))
        kws = {k.arg: k.value for k in call.keywords}
        defaults = dict(zip(params[len(params) - len(gnode.args.defaults):], gnode.args.defaults))
        for p_ in rest[len(pos):]:
            if p_ in kws:
                binds.append((p_, copy.deepcopy(kws[p_])))
            elif p_ in defaults:
                binds.append((p_, copy.deepcopy(defaults[p_])))
            else:
                return None
        # rename the generator's parameters and locals apart from the caller's names
        local = set(params)
        for y in own:
            if isinstance(y, ast.Name) and isinstance(y.ctx, (ast.Store, ast.Del)):
                local.add(y.id)
        ren = {n: pre + n for n in local}

        target, fbody = s.target, s.body

        class Rn(ast.NodeTransformer):
            def visit_Name(self, n):
                if n.id in ren:
                    return ast.copy_location(ast.Name(id=ren[n.id], ctx=n.ctx), n)
                return n

            def visit_FunctionDef(self, n):
                return n
            visit_Lambda = visit_FunctionDef

            def visit_Expr(self, n):
                if isinstance(n.value, ast.Yield):
                    val = self.visit(n.value.value) if n.value.value is not None else ast.Constant(value=None)
                    asg = ast.Assign(targets=[copy.deepcopy(target)], value=val)
                    ast.copy_location(asg, n)
                    ast.fix_missing_locations(asg)
                    return [asg] + list(fbody)
                return self.generic_visit(n)

            def visit_Return(self, n):
                return ast.copy_location(ast.Break(), n)
        new_body = []
        for p_, a in binds:
            asg = ast.Assign(targets=[ast.Name(id=ren[p_], ctx=ast.Store())], value=a)
            ast.copy_location(asg, s)
            ast.fix_missing_locations(asg)
            new_body.append(asg)
        rn = Rn()
        for b in copy.deepcopy(prelude) + [copy.deepcopy(loop)]:
            r = rn.visit(b)
            new_body.extend(r if isinstance(r, list) else [r])
        try:
            s._gen_target = g
        except Exception:
            pass
        for b in new_body:
            for n in ast.walk(b):
                if isinstance(n, (ast.For, ast.While)):
                    n._exp_site = s.lineno         # the same generator expanded at two call sites gives two different loops
        return new_body

    @staticmethod
    def _walk_own(node, loops=True):
        """Nodes of a statement, not descending into nested function / class definitions (nor, with loops=False, into loops)."""
        stack = [node]
        while stack:
            n = stack.pop()
            yield n
            for c in ast.iter_child_nodes(n):
                if isinstance(c, (ast.FunctionDef, ast.AsyncFunctionDef, ast.ClassDef, ast.Lambda)):
                    continue
                if not loops and isinstance(c, (ast.For, ast.While)):
                    continue
                stack.append(c)

    @classmethod
    def _yields_last(cls, loop) -> bool:
        """In every block of the loop body, a `yield` statement is the last statement executed in that iteration."""
        def ok(block, tail: bool) -> bool:
            for k, b in enumerate(block):
                last = tail and k == len(block) - 1
                if isinstance(b, ast.Expr) and isinstance(b.value, ast.Yield):
                    if not last:
                        return False
                elif isinstance(b, ast.If):
                    if not ok(b.body, last) or not ok(b.orelse, last):
                        return False
                elif any(isinstance(y, ast.Yield) for y in cls._walk_own(b)):
                    return False
            return True
        return ok(loop.body, True)

    def _takewhile_loop(self, s: ast.For, st: State):
        """`for x in takewhile(P, X): BODY` is `for x in X: if not P(x): break; BODY`."""
        it = s.iter
        if not (isinstance(it, ast.Call) and len(it.args) == 2 and not it.keywords and not s.orelse):
            return None
        r_ = self.prog.resolve_name(it.func.id, self.fn.module) if isinstance(it.func, ast.Name) else \
            self.prog.resolve_expr_static(it.func, self.fn.module) if isinstance(it.func, ast.Attribute) else None
        if r_ is None and isinstance(it.func, ast.Name) and st.env.get(it.func.id) == Sym('itertools.takewhile'):
            r_ = ('ext', 'itertools.takewhile')
        if not (r_ and r_[0] == 'ext' and r_[1] == 'itertools.takewhile'):
            return None
        if not isinstance(s.target, ast.Name):
            return None
        import copy
        test = ast.UnaryOp(op=ast.Not(), operand=ast.Call(func=copy.deepcopy(it.args[0]), args=[ast.Name(id=s.target.id, ctx=ast.Load())], keywords=[]))
        guard = ast.If(test=test, body=[ast.Break()], orelse=[])
        new = ast.For(target=s.target, iter=it.args[1], body=[guard] + list(s.body), orelse=[], type_comment=None)
        ast.copy_location(new, s)
        ast.copy_location(guard, s)
        ast.fix_missing_locations(new)
        return new

    def st_For(self, s, st):
        tw = getattr(s, '_takewhile', None)
        if tw is None:
            try:
                tw = self._takewhile_loop(s, st) or False
            except Exception:
                tw = False
            try:
                s._takewhile = tw
            except Exception:
                pass
        if tw:
            return self.st_For(tw, st)
        exp = getattr(s, '_gen_expansion', None)
        if exp is None:
            try:
                exp = self._generator_expansion(s, st) or False
            except Exception:
                exp = False
            try:
                s._gen_expansion = exp
            except Exception:
                pass
        if exp:
            g_ = getattr(s, '_gen_target', None)
            if g_ is not None:
                # the call-graph edge stays: the generator's statements are the generator's, reached from here
                self.emit(st, 'call', s, targets=[g_], target_kind='pkg', callee_name=g_.qualname, recv=None, args=(), kw=(), via='for',
                          expr=s.iter, result=None, inlined=True, full_inline=True)
            return self.block(exp, [st])
        it = self.ev(s.iter, st, stmt=s)
        lid = s.lineno
        if self._known_empty(it, st):
            outs = []
            for p0 in self._after_calls(st):
                if p0.status == 'normal':
                    self.emit(p0, 'loop', s, iter=it, iter_expr=s.iter, target=s.target, literal=True)
                    self.emit(p0, 'endloop', s, iterations=0, how='exhausted', at_bound=False)
                    outs.extend(self.block(s.orelse, [p0]) if s.orelse else [p0])
                else:
                    outs.append(p0)
            return outs
        items = self._literal_items(it, allow_range=False) if (not isinstance(s.iter, ast.Name) or isinstance(it, TupleT)) else None
        if items is not None:
            # a loop over a display written in place runs exactly once per element: unrolled completely (its `else:` block runs
            # on the paths that were not left with `break`)
            pre = self._after_calls(st)
            cur = []
            results = []
            for p0 in pre:
                if p0.status != 'normal':
                    results.append(p0)
                else:
                    self.emit(p0, 'loop', s, iter=it, iter_expr=s.iter, target=s.target, literal=True)
                    cur.append(p0)
            for k, item in enumerate(items):
                nxt = []
                for c in cur:
                    c.loops = c.loops + (lid,)
                    self.assign(s.target, item, c, s, loopvar=True)
                    self.emit(c, 'iter', s, k=k + 1, info={'iter': it, 'kind': 'literal', 'var': item, 'item': item})
                    for b in self.block(s.body, [c]):
                        b.loops = b.loops[:-1] if b.loops and b.loops[-1] == lid else b.loops
                        if b.status in ('normal', 'continue'):
                            b.status = 'normal'
                            nxt.append(b)
                        elif b.status == 'break':
                            b.status = 'normal'
                            self.emit(b, 'endloop', s, iterations=k + 1, how='break', at_bound=False)
                            results.append(b)
                        else:
                            results.append(b)
                cur = nxt
                self.check_cap(results + cur)
            for c in cur:
                self.emit(c, 'endloop', s, iterations=len(items), how='exhausted', at_bound=False)
                if s.orelse:
                    results.extend(self.block(s.orelse, [c]))
                else:
                    results.append(c)
            return results
        results: List[State] = []
        pre = self._after_calls(st)
        cur: List[State] = []
        for p in pre:
            if p.status != 'normal':
                results.append(p)
            else:
                self.emit(p, 'loop', s, iter=it, iter_expr=s.iter, target=s.target)
                cur.append(p)
        for k in range(self.opts.unroll + 1):
            # exit by exhaustion after k iterations
            nxt_input = []
            for c in cur:
                e = c.fork() if k < self.opts.unroll else c
                self.emit(e, 'endloop', s, iterations=k, how='exhausted', at_bound=(k == self.opts.unroll))
                if k == self.opts.unroll:
                    e.truncated = True
                results.extend(self.block(s.orelse, [e]) if s.orelse else [e])
                if k < self.opts.unroll:
                    nxt_input.append(c)
            if k == self.opts.unroll:
                break
            nxt = []
            if k == 0 and self.opts.prune and nxt_input:
                # a sequence the path has found empty (`x = f() if results else None; for r in results: x(r)`) is not iterated
                seq = strip_at(it)
                while isinstance(seq, App) and seq.fn in ('enumerate', 'reversed', 'iter') and seq.args:
                    seq = strip_at(seq.args[0])
                if isinstance(seq, (Fresh, Sym, Attr)):
                    try:
                        keep = []
                        for c in nxt_input:
                            if self.decide(c, self.formula(seq, c)) is not False:
                                keep.append(c)
                        nxt_input = keep
                    except AnalysisError:
                        raise
                    except Exception:
                        pass
            for c in nxt_input:
                c.loops = c.loops + (lid,)
                c.approx += 1
                info = self.bind_loop_target(s.target, s.iter, it, c, "'" * k, s)
                self.emit(c, 'iter', s, k=k + 1, info=info)
                for b in self.block(s.body, [c]):
                    b.approx = max(0, b.approx - 1)
                    b.loops = b.loops[:-1] if b.loops and b.loops[-1] == lid else b.loops
                    if b.status in ('normal', 'continue'):
                        b.status = 'normal'
                        nxt.append(b)
                    elif b.status == 'break':
                        b.status = 'normal'
                        self.emit(b, 'endloop', s, iterations=k + 1, how='break', at_bound=False)
                        results.append(b)
                    else:
                        results.append(b)
            cur = nxt
            self.check_cap(results + cur)
        return results

    def st_While(self, s, st):
        lid = s.lineno
        results: List[State] = []
        cur = [st]
        self.emit(st, 'loop', s, iter=None, iter_expr=s.test, target=None)
        for k in range(self.opts.unroll + 1):
            nxt = []
            for c in cur:
                f = self.formula(self.ev(s.test, c), c)
                for c2 in self._after_calls(c):
                    if c2.status != 'normal':
                        results.append(c2)
                        continue
                    d = self.decide(c2, f) if self.opts.prune else None
                    if d is not True:
                        e = c2.fork() if (d is None and k < self.opts.unroll) else c2
                        nf = f_not(f)
                        self.emit(e, 'cond', s, formula=nf, taken=False, raw=s.test, loop_test=True)
                        self.assert_cond(e, nf)
                        self.emit(e, 'endloop', s, iterations=k, how='exhausted', at_bound=False)
                        results.extend(self.block(s.orelse, [e]) if s.orelse else [e])
                        if e is c2:
                            continue
                    if d is not False and k < self.opts.unroll:
                        c2.loops = c2.loops + (lid,)
                        c2.approx += 1
                        self.emit(c2, 'cond', s, formula=f, taken=True, raw=s.test, loop_test=True)
                        self.assert_cond(c2, f)
                        self.emit(c2, 'iter', s, k=k + 1, info={'kind': 'while'})
                        for b in self.block(s.body, [c2]):
                            b.approx = max(0, b.approx - 1)
                            b.loops = b.loops[:-1] if b.loops and b.loops[-1] == lid else b.loops
                            if b.status in ('normal', 'continue'):
                                b.status = 'normal'
                                nxt.append(b)
                            elif b.status == 'break':
                                b.status = 'normal'
                                self.emit(b, 'endloop', s, iterations=k + 1, how='break', at_bound=False)
                                results.append(b)
                            else:
                                results.append(b)
                    elif d is not False:
                        # at the unroll bound with the test possibly true: cut here
                        c2.truncated = True
                        self.emit(c2, 'endloop', s, iterations=k, how='exhausted', at_bound=True)
                        results.append(c2)
            cur = nxt
            self.check_cap(results + cur)
            if not cur:
                break
        return results

    def _contextmanager_expansion(self, s: ast.With):
        """`with self._cm(args): BODY` where _cm is a package generator under @contextmanager with a single top-level `yield`
        (no value bound, not inside try): PRE; BODY; POST - POST runs only when BODY completes normally, exactly as the
        generator is resumed only then (an exception is thrown into it at the yield and propagates)."""
        if len(s.items) != 1 or s.items[0].optional_vars is not None or not isinstance(s.items[0].context_expr, ast.Call):
            return None
        call = s.items[0].context_expr
        try:
            tgt = self.ti.resolve_call(call, self.fn, self.types)
        except Exception:
            return None
        if tgt.kind != 'pkg' or len(tgt.funcs) != 1 or tgt.via == 'ctor':
            return None
        g = tgt.funcs[0]
        if not any(d.split('.')[-1] == 'contextmanager' for d in g.decorators):
            return None
        body = [b for b in g.node.body if not (isinstance(b, ast.Expr) and isinstance(b.value, ast.Constant))]
        ys = [i for i, b in enumerate(body) if isinstance(b, ast.Expr) and isinstance(b.value, ast.Yield)]
        all_y = [y for b in body for y in self._walk_own(b) if isinstance(y, (ast.Yield, ast.YieldFrom))]
        if len(ys) != 1 or len(all_y) != 1 or body[ys[0]].value.value is not None:
            return None
        if any(isinstance(y, ast.Return) for b in body for y in self._walk_own(b)):
            return None
        # only `self` may be a parameter (bound to the receiver); BODY may not leave through return / break / continue, which
        # would skip POST in this spelling but run it in the generator (GeneratorExit aside)
        params = [a.arg for a in g.node.args.args]
        if call.args or call.keywords or len(params) > 1 or g.node.args.vararg or g.node.args.kwarg:
            return None
        if params and not (isinstance(call.func, ast.Attribute) and isinstance(call.func.value, ast.Name) and call.func.value.id == params[0]):
            return None
        post = body[ys[0] + 1:]
        def leaves(b):
            # return anywhere, break / continue outside the block's own loops
            for y in self._walk_own(b):
                if isinstance(y, ast.Return):
                    return True
            if isinstance(b, (ast.For, ast.While)):
                return False
            return any(isinstance(y, (ast.Break, ast.Continue)) for y in self._walk_own(b, loops=False))
        if post and any(leaves(b) for b in s.body):
            return None
        import copy
        out = copy.deepcopy(body[:ys[0]]) + list(s.body) + copy.deepcopy(post)
        return out, g

    def st_With(self, s, st):
        exp = getattr(s, '_cm_expansion', None)
        if exp is None:
            try:
                exp = self._contextmanager_expansion(s) or False
            except Exception:
                exp = False
            try:
                s._cm_expansion = exp
            except Exception:
                pass
        if exp:
            stmts_, g_ = exp
            # the call-graph edge stays: the context manager's statements are the manager's, reached from here
            self.emit(st, 'call', s, targets=[g_], target_kind='pkg', callee_name=g_.qualname, recv=None, args=(), kw=(), via='with',
                      expr=s.items[0].context_expr, result=None, inlined=True, full_inline=True)
            return self.block(stmts_, [st])
        for item in s.items:
            v = self.ev(item.context_expr, st, stmt=s)
            self.emit(st, 'with', s, ctx=v)
            if item.optional_vars is not None:
                self.assign(item.optional_vars, v, st, s)
        outs = []
        for p in self._after_calls(st):
            outs.extend(self.block(s.body, [p]) if p.status == 'normal' else [p])
        return outs

    def _try_key_lookup(self, s: ast.Try, st: State):
        """try: <one statement reading / deleting d[k]>  except KeyError: ...   ->  (k term, d term): the handler runs exactly
        when k is not in d, the rest of the try statement exactly when it is."""
        if len(s.body) != 1 or not s.handlers:
            return None
        names = set()
        for h in s.handlers:
            if h.type is None:
                return None
            names |= {x.strip() for x in ast.unparse(h.type).strip('()').split(',')}
        if not names <= {'KeyError', 'LookupError'}:
            return None
        b = s.body[0]
        sub = None
        if isinstance(b, (ast.Assign, ast.Expr, ast.Return)) and isinstance(b.value, ast.Subscript):
            sub = b.value
        elif isinstance(b, ast.Delete) and len(b.targets) == 1 and isinstance(b.targets[0], ast.Subscript):
            sub = b.targets[0]
        if sub is None or any(isinstance(y, ast.Call) for y in ast.walk(sub)) or isinstance(sub.slice, ast.Slice):
            return None
        bt = self.ti.expr_type(sub.value, self.fn, self.types)
        if not (bt and bt[0] == 'dict'):
            return None
        return self.ev(sub.slice, st), self.versioned(st, self.ev(sub.value, st))

    def st_Try(self, s, st):
        lk = self._try_key_lookup(s, st)
        if lk is not None:
            present = AIn(lk[0], lk[1])
            outs = []
            d = self.decide(st, present) if self.opts.prune else None
            if d is not False:
                n = st.fork() if d is None else st
                self.emit(n, 'try', s)
                self.emit(n, 'cond', s, formula=present, taken=True, raw=s.body[0])
                self.assert_cond(n, present)
                for b in self.block(s.body, [n]):
                    outs.extend(self.block(s.orelse, [b]) if (b.status == 'normal' and s.orelse) else [b])
            if d is not True:
                e = st
                self.emit(e, 'cond', s, formula=f_not(present), taken=False, raw=s.body[0])
                self.assert_cond(e, f_not(present))
                h = s.handlers[0]
                self.emit(e, 'except', h, type=ast.unparse(h.type), explicit=False)
                if h.name:
                    e.env[h.name] = Sym(h.name)
                outs.extend(self.block(h.body, [e]))
            if s.finalbody:
                fin = []
                for o in outs:
                    saved = o.status
                    o.status = 'normal'
                    for f2 in self.block(s.finalbody, [o]):
                        if f2.status == 'normal':
                            f2.status = saved
                        fin.append(f2)
                outs = fin
            return outs
        outs = []
        # normal completion of the body
        n = st.fork()
        self.emit(n, 'try', s)
        body_states = self.block(s.body, [n])
        handled_types = []
        for h in s.handlers:
            tn = ast.unparse(h.type) if h.type is not None else 'BaseException'
            handled_types.append(tn)
        # only calls whose effects matter: calls into the package or into code supplied by the caller
        has_call = any(isinstance(y, ast.Call) and not (isinstance(y.func, ast.Name) and y.func.id in
                                                         ('len', 'int', 'float', 'str', 'list', 'dict', 'tuple', 'set', 'type', 'isinstance', 'range',
                                                          'enumerate', 'zip', 'min', 'max', 'abs', 'sorted', 'iter', 'next', 'open'))
                       for st_ in s.body for y in ast.walk(st_))
        for b in body_states:
            if b.status == 'raise' and b.events and b.events[-1].kind == 'raise':
                exc = b.events[-1].data.get('exc')
                hit = None
                for h, tn in zip(s.handlers, handled_types):
                    names = [x.strip() for x in tn.strip('()').split(',')]
                    if exc in names or tn in ('Exception', 'BaseException') or h.type is None:
                        hit = h
                        break
                if hit is not None:
                    b.status = 'normal'
                    self.emit(b, 'except', hit, type=tn, explicit=True)
                    if hit.name:
                        b.env[hit.name] = Sym(hit.name)
                    outs.extend(self.block(hit.body, [b]))
                    continue
            if b.status == 'normal' and has_call:
                # the exception may also come out of the LAST thing the body did - after every effect of the body (a callback that
                # completed the model and then raised): the handler then runs on top of those effects
                for h, tn in zip(s.handlers, handled_types):
                    e2 = b.fork()
                    self.emit(e2, 'except', h, type=tn, explicit=False, after_body=True)
                    if h.name:
                        e2.env[h.name] = Sym(h.name)
                    outs.extend(self.block(h.body, [e2]))
            if b.status == 'normal' and s.orelse:
                outs.extend(self.block(s.orelse, [b]))
            else:
                outs.append(b)
        # implicit exception somewhere in the body (library call / language operation) caught by each handler
        for h, tn in zip(s.handlers, handled_types):
            e = st.fork()
            self.emit(e, 'except', h, type=tn, explicit=False)
            if h.name:
                e.env[h.name] = Sym(h.name)
            outs.extend(self.block(h.body, [e]))
        if s.finalbody:
            fin = []
            for o in outs:
                saved = o.status
                o.status = 'normal'
                for f2 in self.block(s.finalbody, [o]):
                    if f2.status == 'normal':
                        f2.status = saved
                    fin.append(f2)
            outs = fin
        return outs

    # ------------------------------------------------------------------ assignment / stores
    def versioned(self, st: State, container: Term) -> Term:
        v = st.ver.get(container, 0)
        return container if v == 0 else App('@v', (container, Num(Fraction(v))))

    def bump(self, st: State, container: Term):
        st.ver[container] = st.ver.get(container, 0) + 1

    def root_of(self, t: Term) -> Tuple[str, Term]:
        """Classify the object a store lands in: ('fresh'|'param'|'field'|'local'|'global', root term)."""
        cur = t
        while True:
            if isinstance(cur, Fresh):
                return 'fresh', cur
            if isinstance(cur, App) and (cur.fn.startswith('new:') or cur.fn in ('fresh',)):
                return 'fresh', cur
            if isinstance(cur, App) and cur.fn == '@v':
                cur = cur.args[0]
                continue
            if isinstance(cur, Sub):
                cur = cur.base
                continue
            if isinstance(cur, Attr):
                nxt = cur.base
                if isinstance(nxt, Sym):
                    return ('field', cur) if nxt.name in ('self', 'cls') or True else ('field', cur)
                cur = nxt
                continue
            if isinstance(cur, Sym):
                return 'param', cur
            if isinstance(cur, App):
                # value returned by a call: reachable from shared state unless known fresh
                if cur.args:
                    cur = cur.args[0]
                    continue
                return 'local', cur
            return 'local', cur

    def _property_field(self, ci, attr):
        """(owner, field) when `attr` is a read-only view property of `ci` whose getter is `return self.<field>`."""
        for m in self.prog.lookup_method(ci, attr):
            if not m.is_property or not m.params:
                continue
            body = [s for s in m.node.body if not (isinstance(s, ast.Expr) and isinstance(s.value, ast.Constant))]
            if len(body) == 1 and isinstance(body[0], ast.Return) and isinstance(body[0].value, ast.Attribute) \
                    and isinstance(body[0].value.value, ast.Name) and body[0].value.value.id == m.params[0]:
                f = body[0].value.attr
                owner = self.ti.field_owner(ci, f)
                if owner is not None:
                    return (owner.qualname, f)
        return None

    def _namedtuple_items(self, t: Term, st: State):
        """The fields, in order, of an object built in this call from a package NamedTuple class: `X(a, b)` is also the tuple (a, b)."""
        t0 = strip_at(t)
        if isinstance(t0, IfT):
            a, b = self._namedtuple_items(t0.a, st), self._namedtuple_items(t0.b, st)
            if a is None or b is None or len(a.items) != len(b.items):
                return None
            def pick(x, y):
                if x == y:
                    return x
                if isinstance(x, Const) and isinstance(y, Const) and isinstance(x.value, bool) and isinstance(y.value, bool):
                    return BoolT(t0.cond if x.value else f_not(t0.cond))
                return IfT(t0.cond, x, y)
            return TupleT(tuple(pick(x, y) for x, y in zip(a.items, b.items)))
        if not (isinstance(t0, App) and t0.fn.startswith('new:')):
            return None
        ci = self.prog.classes.get(t0.fn[4:])
        names = getattr(ci.node, '_namedtuple_fields', None) if ci is not None else None
        if not names:
            return None
        vals = [self._ctor_field(t0, nm, st) for nm in names]
        if any(v is None for v in vals):
            return None
        return TupleT(tuple(vals))

    def _ctor_field(self, obj: App, attr: str, st: State):
        ci = self.prog.classes.get(obj.fn[4:])
        if ci is None:
            return None
        ms = self.prog.lookup_method(ci, '__init__')
        if not ms:
            return None
        init = ms[0]
        body = init.body
        if not init.params or not all(isinstance(s_, ast.Assign) and len(s_.targets) == 1 and isinstance(s_.targets[0], ast.Attribute) and
                                      isinstance(s_.targets[0].value, ast.Name) and s_.targets[0].value.id == init.params[0] and
                                      isinstance(s_.value, ast.Name) for s_ in body):
            return None
        src = [s_.value.id for s_ in body if s_.targets[0].attr == attr]
        if len(src) != 1 or src[0] not in init.params[1:] + init.kwonly:
            return None
        # no other code of the package writes that field of that class (frozen in effect)
        if not hasattr(self.w, '_field_writers'):
            self.w._field_writers = {}
            for mi in self.prog.modules.values():
                for n in ast.walk(mi.tree):
                    if isinstance(n, ast.Attribute) and isinstance(n.ctx, (ast.Store, ast.Del)):
                        self.w._field_writers.setdefault(n.attr, 0)
                        self.w._field_writers[n.attr] += 1
        kw = {k: v for k, v in obj.kw if k not in ('<cls>',)}
        if '**' in kw or '<cls>' in dict(obj.kw):
            return None
        benv = self.bind_args(init, obj, list(obj.args), kw, st, True)
        if benv is None:
            return None
        return benv.get(src[0])

    def _property_chain(self, ci, attr):
        """['model', 'random'] when `attr` is a property of `ci` whose getter is `return self.model.random` (plain fields only)."""
        for m in self.prog.lookup_method(ci, attr):
            if not m.is_property or m.is_setter or not m.params:
                continue
            body = [s for s in m.node.body if not (isinstance(s, ast.Expr) and isinstance(s.value, ast.Constant))]
            if len(body) != 1 or not isinstance(body[0], ast.Return) or body[0].value is None:
                return None
            parts = []
            cur = body[0].value
            while isinstance(cur, ast.Attribute):
                parts.append(cur.attr)
                cur = cur.value
            if not (isinstance(cur, ast.Name) and cur.id == m.params[0]) or len(parts) < 2:
                return None
            parts.reverse()
            # every step must be a plain field (not another property) for the rewrite to be the same read
            t = ('inst', ci)
            for a_ in parts:
                if t is None or t[0] != 'inst' or self.ti.field_owner(t[1], a_) is None:
                    return None
                t = self.ti.attr_type(t, a_)
            return parts
        return None

    def loc_of(self, expr: ast.expr, st: State) -> Optional[Tuple[str, str]]:
        """(owner class qualname, field) of the innermost instance field under `expr` (stripping subscripts)."""
        e = expr
        depth = 0
        while True:
            if isinstance(e, ast.Subscript):
                e = e.value
                depth += 1
                continue
            if isinstance(e, ast.Call) and isinstance(e.func, ast.Attribute) and e.func.attr in ('keys', 'values', 'items', 'copy'):
                e = e.func.value
                continue
            break
        if isinstance(e, ast.Attribute):
            bt = self.ti.expr_type(e.value, self.fn, self.types)
            if bt and bt[0] == 'inst':
                owner = self.ti.field_owner(bt[1], e.attr)
                if owner is None:
                    pf = self._property_field(bt[1], e.attr)
                    if pf is not None:
                        return pf
                return ((owner or bt[1]).qualname, e.attr)
            if bt and bt[0] == 'cls':
                meta = self.prog.metaclass_of(bt[1])
                if meta is not None:
                    owner = self.ti.field_owner(meta, e.attr)
                    if owner is None:
                        pf = self._property_field(meta, e.attr)
                        if pf is not None:
                            return pf
                    return ((owner or meta).qualname, e.attr)
                return (bt[1].qualname, e.attr)
            if e.attr == '__dict__':
                return ('?', '__dict__')
            return ('?', e.attr)
        return None

    def term_type(self, t: Term):
        """Nominal type of an access-path term (Sym / Attr / Sub chains), for stores through local aliases."""
        if isinstance(t, App) and t.fn == '@v':
            return self.term_type(t.args[0])
        if isinstance(t, Sym):
            nm = t.name.rstrip("'")
            if self.root_types is not None and nm in self.root_types and nm not in self._own_locals():
                return self.root_types[nm]
            return self.types.get(nm)
        if isinstance(t, Attr):
            return self.ti.attr_type(self.term_type(t.base), t.name)
        if isinstance(t, Sub):
            bt = self.term_type(t.base)
            if bt and bt[0] == 'dict':
                return bt[2]
            if bt and bt[0] == 'list':
                return bt[1]
            return None
        if isinstance(t, App) and t.fn.startswith('new:'):
            ci = self.prog.classes.get(t.fn[4:])
            return ('inst', ci) if ci else None
        if isinstance(t, App) and t.fn.startswith('call:'):
            f = self.prog.functions.get(t.fn[5:])
            return self.ti.return_type(f) if f is not None else None
        if isinstance(t, Fresh) and t.kind in ('list', 'listcomp', 'call:list', 'copy'):
            return ('list', None)
        if isinstance(t, Fresh) and t.kind in ('dict', 'dictcomp', 'call:dict'):
            return ('dict', None, None)
        return None

    def loc_of_term(self, t: Term) -> Optional[Tuple[str, str]]:
        cur = t
        while True:
            if isinstance(cur, Sub):
                cur = cur.base
            elif isinstance(cur, App) and cur.fn == '@v':
                cur = cur.args[0]
            else:
                break
        if isinstance(cur, Attr):
            bt = self.term_type(cur.base)
            if bt and bt[0] == 'inst':
                owner = self.ti.field_owner(bt[1], cur.name)
                return ((owner or bt[1]).qualname, cur.name)
            if bt and bt[0] == 'cls':
                meta = self.prog.metaclass_of(bt[1])
                if meta is not None:
                    owner = self.ti.field_owner(meta, cur.name)
                    return ((owner or meta).qualname, cur.name)
        return None

    def store_event(self, st: State, node, target_expr: ast.expr, target_term: Term, kind: str, **data):
        rk, root = self.root_of(target_term)
        loc = self.loc_of(target_expr, st) if not isinstance(target_expr, ast.Name) else None
        if loc is None or loc[0] == '?':
            loc = self.loc_of_term(target_term) or loc
        else:
            # `self.components[k] = v` where `components` is a property returning `self._components`: the field is the one the
            # evaluated target names
            lt = self.loc_of_term(target_term)
            if lt is not None and lt[1] != loc[1] and lt[0] != '?':
                loc = lt
        # a store through a local alias of a field keeps the field's location
        shared = rk != 'fresh'
        if rk == 'fresh' and (loc is None or loc[0] == '?') and isinstance(target_expr, (ast.Name, ast.Subscript)):
            # ... also when the object was allocated here and bound to the field and to a local at once (`store = self.f = {}`)
            for ev0 in reversed(st.events):
                if ev0.kind == 'store' and ev0.data.get('store') == 'rebind' and ev0.data.get('loc') and ev0.data.get('value') == root \
                        and ev0.data['loc'][0] != '?':
                    loc = ev0.data['loc']
                    shared = True
                    break
        if rk == 'local' and isinstance(target_expr, ast.Name):
            shared = False
        ev = self.emit(st, 'store', node, store=kind, target=target_term, root_kind=rk, root=root, loc=loc,
                       shared=shared, target_expr=target_expr, **data)
        return ev

    def assign(self, t: ast.expr, v: Term, st: State, node, aug=None, operand=None, loopvar=False):
        if isinstance(t, ast.Name):
            st.env[t.id] = v
            if not loopvar:
                self.emit(st, 'assign', node, name=t.id, value=v)
        elif isinstance(t, (ast.Tuple, ast.List)):
            nt_ = self._namedtuple_items(v, st)
            if nt_ is not None:
                v = nt_
            if isinstance(v, Fresh) and st.contents.get(v) is not None and len(st.contents[v]) == len(t.elts):
                v = TupleT(tuple(st.contents[v]))
            if isinstance(v, IfT) and isinstance(v.a, TupleT) and isinstance(v.b, TupleT) and \
                    len(v.a.items) == len(v.b.items) == len(t.elts):
                v = TupleT(tuple(IfT(v.cond, x, y) if x != y else x for x, y in zip(v.a.items, v.b.items)))
            for i, e in enumerate(t.elts):
                if isinstance(v, TupleT) and len(v.items) == len(t.elts):
                    self.assign(e, v.items[i], st, node, loopvar=loopvar)
                else:
                    self.assign(e, Sub(v, Num(Fraction(i))), st, node, loopvar=loopvar)
        elif isinstance(t, ast.Attribute):
            base = self.ev(t.value, st)
            path = Attr(base, t.attr)
            # property setter of a package class?
            bt = self.ti.expr_type(t.value, self.fn, self.types)
            setter = None
            if bt and bt[0] in ('inst', 'cls'):
                ci = bt[1] if bt[0] == 'inst' else self.prog.metaclass_of(bt[1])
                if ci is not None:
                    for m in self.prog.lookup_method(ci, t.attr):
                        if m.is_setter:
                            setter = m
            if setter is not None:
                self.emit(st, 'call', node, targets=[setter], target_kind='pkg', callee_name=setter.qualname + '#setter',
                          recv=base, args=(v,), kw=(), via='setter', expr=t, result=Const(None))
            st.heap[path] = v
            self.store_event(st, node, t, path, 'rebind' if aug is None else 'aug', value=v, attr=t.attr,
                             aug=aug, operand=operand, base=base, base_expr=t.value, base_type=bt)
        elif isinstance(t, ast.Subscript):
            base = self.ev(t.value, st)
            idx = self.ev(t.slice, st)
            st.heap[Sub(base, idx)] = v
            kind = 'setitem' if not isinstance(t.slice, ast.Slice) else 'setslice'
            self.store_event(st, node, t.value, base, kind if aug is None else 'augitem', key=idx, value=v, aug=aug,
                             operand=operand)
            self.bump(st, base)
            st.known[AIn(idx, self.versioned(st, base))] = True
        elif isinstance(t, ast.Starred):
            self.assign(t.value, App('*rest', (v,)), st, node)
        else:
            raise AnalysisError(f"{self.fn.module.relpath}:{getattr(t, 'lineno', 0)}: unsupported assignment target")

    # ------------------------------------------------------------------ expressions
    def formula(self, t: Term, st: State = None) -> Formula:
        if isinstance(t, BoolT):
            return t.f
        if isinstance(t, Num):
            return FConst(t.value != 0)
        if isinstance(t, Const):
            return FConst(bool(t.value))
        if isinstance(t, IfT):
            return f_or(f_and(t.cond, self.formula(t.a)), f_and(f_not(t.cond), self.formula(t.b)))
        if isinstance(t, App) and t.fn == '%':
            e, _ = _signnorm(t.args[0])
            return f_not(ADiv(t.args[1], e))
        if isinstance(t, App) and t.fn == 'len':
            return mk_cmp(t, '!=', Num(Fraction(0)))
        if isinstance(t, Fresh) and t.kind in ('list', 'dict', 'set', 'call:list', 'call:dict', 'call:set', 'listcomp', 'dictcomp', 'copy'):
            # the allocation may have been filled since: truthiness == non-empty, not a constant
            return mk_cmp(App('len', (t,)), '!=', Num(Fraction(0)))
        if isinstance(t, TupleT):
            return FConst(len(t.items) > 0)
        if isinstance(t, App) and t.fn == 'bool' and len(t.args) == 1:
            return self.formula(t.args[0], st)
        if isinstance(t, Sym) and t.name.startswith('*') and not t.name.startswith('**'):
            return mk_cmp(App('len', (t,)), '!=', Num(Fraction(0)))      # truthiness of the *args tuple
        # truthiness of a package instance goes through its __bool__ / __len__ (language fact)
        tt = self.term_type(t)
        if tt and tt[0] in ('list', 'dict'):
            return mk_cmp(App('len', (t,)), '!=', Num(Fraction(0)))     # truthiness of a container == non-empty
        if tt and tt[0] == 'inst' and st is not None:
            for special in ('__bool__', '__len__'):
                ms = self.prog.lookup_method(tt[1], special)
                if ms:
                    r = self.inline_call(ms[0], t, [], {}, st, None)
                    if r is not None:
                        return self.formula(r, None) if special == '__bool__' else mk_cmp(r, '!=', Num(Fraction(0)))
                    return ATruthy(App('call:' + ms[0].qualname, (t,)))
        return ATruthy(t)

    def ev(self, e: ast.expr, st: State, stmt=None) -> Term:
        m = getattr(self, 'ex_' + type(e).__name__, None)
        if m is None:
            return Opaque(type(e).__name__ + ':' + ast.unparse(e)[:60])
        return m(e, st)

    def ex_Constant(self, e, st):
        v = e.value
        if isinstance(v, bool):
            return Const(v)
        if isinstance(v, int):
            return Num(Fraction(v))
        if isinstance(v, float):
            from .terms import _num
            return Num(_num(v))
        return Const(v)

    def ex_JoinedStr(self, e, st):
        # the text is opaque, but the calls made to build it happen (and may raise): f"... {Tags.get_tag_name(tag)}"
        for v in e.values:
            if isinstance(v, ast.FormattedValue) and any(isinstance(n, ast.Call) for n in ast.walk(v.value)):
                try:
                    self.ev(v.value, st)
                except AnalysisError:
                    raise
                except Exception:
                    pass
        return Opaque('fstring@%d' % e.lineno)

    def is_sentinel(self, t: Term) -> bool:
        """t names a private marker object: a module-level `NAME = object()` (never stored in any container)."""
        if isinstance(t, Fresh) and t.kind == 'call:object':
            return True
        if isinstance(t, Sym) and '.' in t.name:
            mn, _, nm = t.name.rpartition('.')
            m = self.prog.modules.get(mn)
            v = m.assigns.get(nm) if m is not None else None
            return isinstance(v, ast.Call) and isinstance(v.func, ast.Name) and v.func.id == 'object' and not v.args and not v.keywords
        return False

    def _select(self, v: Term, st: State) -> Term:
        """A conditional value read on a path that has already decided its condition is the selected arm."""
        n = 0
        while isinstance(v, IfT) and n < 4:
            d = self.decide(st, v.cond) if self.opts.prune else None
            if d is None:
                break
            v = v.a if d else v.b
            n += 1
        return v

    def ex_Name(self, e, st):
        if e.id in st.env:
            v = st.env[e.id]
            return self._select(v, st) if isinstance(v, IfT) else v
        r = self.prog.resolve_name(e.id, self.fn.module)
        if r is not None:
            k, o = r
            if k == 'class':
                return Sym(o.qualname)
            if k == 'func':
                return Sym('<func ' + o.qualname + '>')
            if k == 'ext':
                if o == 'sys.maxsize':
                    return Sym('sys.maxsize')
                if o.startswith('collections.abc.'):
                    o = 'typing.' + o[16:]          # typing.Iterable is an alias of collections.abc.Iterable
                return Sym(o)
            if k == 'module':
                return Sym(o.name)
            if k == 'modattr':
                m, name = o
                v = m.assigns.get(name)
                if isinstance(v, ast.Constant):
                    return self.ex_Constant(v, st)
                if isinstance(v, ast.Attribute) and m is self.fn.module and not getattr(self, '_alias_busy', False):
                    # NAME = ModelStatus.COMPLETE at module level (bound once): the member it names
                    r_a = self.prog.resolve_expr_static(v, m)
                    if r_a is not None and r_a[0] == 'classattr' and self.prog.is_enum(r_a[1][0]):
                        self._alias_busy = True
                        try:
                            return self.ev(v, State())
                        finally:
                            self._alias_busy = False
                if self._named_number(v, m) and self._module_bound_once(m, name) and not getattr(self, '_alias_busy', False):
                    # NAME = float('inf') / -float('inf') / maxsize / math.inf at module level (bound once): the number it names
                    self._alias_busy = True
                    try:
                        return self.ev(v, State())
                    finally:
                        self._alias_busy = False
                if isinstance(v, ast.Call) and isinstance(v.func, ast.Name) and v.func.id in ('frozenset', 'set', 'tuple') and len(v.args) == 1 \
                        and not v.keywords and isinstance(v.args[0], (ast.Set, ast.Tuple, ast.List)):
                    v = ast.Tuple(elts=list(v.args[0].elts), ctx=ast.Load())        # a constant collection: its elements
                elif isinstance(v, ast.Set):
                    v = ast.Tuple(elts=list(v.elts), ctx=ast.Load())
                if isinstance(v, ast.Tuple) and m is self.fn.module and len(list(ast.walk(v))) <= 200 and \
                        all(isinstance(x, (ast.Tuple, ast.Constant, ast.Name, ast.Attribute, ast.Load, ast.UnaryOp, ast.USub)) for x in ast.walk(v)):
                    # a module-level constant table of constants / functions / enum members
                    try:
                        return self.ev(v, State())
                    except Exception:
                        pass
                return Sym(f"{m.name}.{name}")
        if e.id in ('True', 'False', 'None'):
            return Const({'True': True, 'False': False, 'None': None}[e.id])
        if getattr(self, 'class_scope', False) and self.fn.cls is not None:
            # a default expression is evaluated in the class body's scope
            cv = self.w.class_constant(self.fn.cls, e.id)
            if cv is not None and e.id in self.fn.cls.class_assigns:
                return self.ev(cv, st)
        return Sym(e.id)

    def ex_Attribute(self, e, st):
        # static resolution first: Enum members, module attributes
        r = self.prog.resolve_expr_static(e, self.fn.module) if self._is_static_chain(e, st) else None
        if r is not None:
            k, o = r
            if k == 'classattr':
                ci, name = o
                if self.prog.is_enum(ci):
                    mem = self.prog.enum_members(ci)
                    if name in mem and isinstance(mem[name], int):
                        return Num(Fraction(mem[name]))
                else:
                    cv = self.w.class_constant(ci, name)
                    if cv is not None:
                        return self.ev(cv, st)
                # fall through to a symbolic class attribute
            elif k == 'ext':
                if isinstance(o, str) and o.startswith('collections.abc.'):
                    o = 'typing.' + o[16:]
                return Sym(o)
            elif k == 'func':
                return Sym('<func ' + o.qualname + '>')
            elif k == 'class':
                return Sym(o.qualname)
            elif k == 'modattr':
                m, name = o
                v = m.assigns.get(name)
                if isinstance(v, ast.Constant):
                    return self.ex_Constant(v, st)
                return Attr(Sym(m.name), name)
        base = self.ev(e.value, st)
        path = Attr(base, e.attr)
        if path in st.heap:
            return st.heap[path]
        nb = strip_at(base)
        if isinstance(nb, IfT):
            # a field of `X(a, b) if c else X(d)`: the conditional of the fields
            arm = strip_at(nb.a)
            ci_nt = self.prog.classes.get(arm.fn[4:]) if isinstance(arm, App) and arm.fn.startswith('new:') else None
            names_nt = getattr(ci_nt.node, '_namedtuple_fields', None) if ci_nt is not None else None
            if names_nt and e.attr in names_nt:
                items_nt = self._namedtuple_items(nb, st)
                if items_nt is not None:
                    return items_nt.items[names_nt.index(e.attr)]
        if isinstance(nb, App) and nb.fn.startswith('new:'):
            # a field of an object built in this call by a constructor that just stores its arguments (a dataclass, a record):
            # the argument the field was given
            fv = self._ctor_field(nb, e.attr, st)
            if fv is not None:
                return fv
        # property getter of a package class: inline when it is a single return expression
        bt = self.ti.expr_type(e.value, self.fn, self.types)
        if not bt:
            # an untyped parameter of a helper walked inline / a renamed generator local: the type of the argument it is bound to in the caller's frame
            try:
                bt = self.term_type(base)
            except Exception:
                bt = None
        ci = None
        if bt and bt[0] == 'inst':
            ci = bt[1]
        elif bt and bt[0] == 'cls':
            ci = self.prog.metaclass_of(bt[1])
        if bt and bt[0] in ('inst', 'cls') and self.ti.field_owner(bt[1], e.attr) is None and not self.prog.is_enum(bt[1]) \
                and not self.prog.lookup_method(bt[1], e.attr):
            cv = self.w.class_constant(bt[1], e.attr)
            if cv is not None:
                return self.ev(cv, st)      # self.NAME / cls.NAME: a class-level named constant
        if ci is not None and self.ti.field_owner(ci, e.attr) is None:
            pf = self._property_field(ci, e.attr)
            if pf is not None:
                # a view property `return self._x`: the field itself, at any inlining depth
                p2 = Attr(base, pf[1])
                return st.heap.get(p2, p2)
            chain = self._property_chain(ci, e.attr)
            if chain is not None:
                # `return self.model.random`: the same path read through the receiver, at any inlining depth
                cur = base
                for a_ in chain:
                    cur = Attr(cur, a_)
                    cur = st.heap.get(cur, cur)
                return cur
            for m in self.prog.lookup_method(ci, e.attr):
                if m.is_property:
                    r = self.inline_call(m, base, [], {}, st, e)
                    if r is not None:
                        return r
                    return App('prop:' + m.qualname, (base,))
        return path

    def _named_number(self, v, m) -> bool:
        """`float('inf')`, `float('-inf')`, a sign in front of one, or a name of an external numeric constant (`maxsize`, `math.inf`)."""
        if m is not self.fn.module:
            return False
        if isinstance(v, ast.UnaryOp) and isinstance(v.op, (ast.USub, ast.UAdd)):
            return self._named_number(v.operand, m)
        if isinstance(v, ast.Call) and isinstance(v.func, ast.Name) and v.func.id == 'float' and len(v.args) == 1 and not v.keywords \
                and isinstance(v.args[0], ast.Constant) and isinstance(v.args[0].value, str) and self.prog.resolve_name('float', m) is None:
            return True
        if isinstance(v, (ast.Name, ast.Attribute)):
            r = self.prog.resolve_name(v.id, m) if isinstance(v, ast.Name) else self.prog.resolve_expr_static(v, m)
            return r is not None and r[0] == 'ext' and r[1] in ('sys.maxsize', 'math.inf')
        return False

    def _module_bound_once(self, m, name) -> bool:
        n = 0
        for node in ast.walk(m.tree):
            if isinstance(node, ast.Name) and node.id == name and isinstance(node.ctx, (ast.Store, ast.Del)):
                n += 1
            elif isinstance(node, (ast.Global, ast.Nonlocal)) and name in node.names:
                return False
        return n == 1

    def _is_static_chain(self, e, st) -> bool:
        cur = e
        while isinstance(cur, ast.Attribute):
            cur = cur.value
        return isinstance(cur, ast.Name) and cur.id not in st.env

    def ex_Subscript(self, e, st):
        base = self.ev(e.value, st)
        if isinstance(base, Sym) and not base.name.startswith('<'):
            st.known.setdefault(AIs(base, Const(None)), False)      # subscripting succeeded: the object is not None
        if isinstance(e.slice, ast.Slice):
            parts = tuple(self.ev(x, st) if x is not None else Const(None) for x in (e.slice.lower, e.slice.upper, e.slice.step))
            if all(p == Const(None) for p in parts):
                return Fresh('copy', (base,), e.lineno)
            return App('slice', (base,) + parts)
        idx = self.ev(e.slice, st)
        nt = self._namedtuple_items(base, st)
        if nt is not None:
            base = nt
        if isinstance(base, TupleT) and isinstance(idx, Num) and isinstance(idx.value, Fraction) \
                and idx.value.denominator == 1 and 0 <= idx.value < len(base.items):
            return base.items[int(idx.value)]
        path = Sub(base, idx)
        if path in st.heap:
            return st.heap[path]
        # package __getitem__ that forwards to a single-expression helper is inlined
        bt = self.ti.expr_type(e.value, self.fn, self.types)
        if bt and bt[0] == 'inst':
            ms = self.prog.lookup_method(bt[1], '__getitem__')
            if ms:
                self.emit(st, 'call', e, targets=[ms[0]], target_kind='pkg', callee_name=ms[0].qualname, recv=base,
                          args=(idx,), kw=(), via='getitem', expr=e, result=path)
        return path

    def ex_Tuple(self, e, st):
        return TupleT(tuple(self.ev(x, st) for x in e.elts))

    def ex_List(self, e, st):
        r = Fresh('list', tuple(self.ev(x, st) for x in e.elts), e.lineno)
        if not any(isinstance(x, App) and x.fn == '*' for x in r.items):
            st.contents[r] = tuple(r.items) if st.approx == 0 else None
        return r

    def ex_Set(self, e, st):
        return Fresh('set', tuple(self.ev(x, st) for x in e.elts), e.lineno)

    def ex_Dict(self, e, st):
        items = []
        for k, v in zip(e.keys, e.values):
            items.append(TupleT((self.ev(k, st) if k is not None else Const('**'), self.ev(v, st))))
        return Fresh('dict', tuple(items), e.lineno)

    def _fused(self, e, st):
        """A one-generator comprehension over a generator expression / map / filter / zip written in place (or a local bound once
        to one): the same comprehension over the inner iterable, with the outer target replaced by the inner element."""
        fz = getattr(e, '_fused_node', None)
        if fz is not None:
            return fz or None
        out = False
        try:
            if len(e.generators) == 1 and not e.generators[0].is_async:
                g = e.generators[0]
                inner = g.iter
                if isinstance(inner, ast.Call):
                    inner = self._functional_as_genexp(inner, st)
                if isinstance(inner, ast.GeneratorExp) and len(inner.generators) == 1 and not inner.generators[0].is_async:
                    sub = None
                    if isinstance(g.target, ast.Name):
                        sub = {g.target.id: inner.elt}
                    elif isinstance(g.target, ast.Tuple) and isinstance(inner.elt, ast.Tuple) and len(g.target.elts) == len(inner.elt.elts) \
                            and all(isinstance(t, ast.Name) for t in g.target.elts):
                        sub = {t.id: v for t, v in zip(g.target.elts, inner.elt.elts)}
                    inner_names = {y.id for y in ast.walk(inner.generators[0].target) if isinstance(y, ast.Name)}
                    outer_free = {y.id for x in [e.elt if hasattr(e, 'elt') else e.value] + ([e.key] if hasattr(e, 'key') else []) + list(g.ifs)
                                  for y in ast.walk(x) if isinstance(y, ast.Name)}
                    if sub is not None and not (inner_names & (outer_free - set(sub))):
                        import copy

                        class S(ast.NodeTransformer):
                            def visit_Name(s_, x):
                                return copy.deepcopy(sub[x.id]) if x.id in sub and isinstance(x.ctx, ast.Load) else x
                        ig = inner.generators[0]
                        ng = ast.comprehension(target=ig.target, iter=ig.iter, ifs=list(ig.ifs) + [S().visit(copy.deepcopy(c)) for c in g.ifs], is_async=0)
                        new = copy.copy(e)
                        new.generators = [ng]
                        if hasattr(e, 'elt'):
                            new.elt = S().visit(copy.deepcopy(e.elt))
                        else:
                            new.key = S().visit(copy.deepcopy(e.key))
                            new.value = S().visit(copy.deepcopy(e.value))
                        ast.fix_missing_locations(new)
                        out = new
        except Exception:
            out = False
        try:
            e._fused_node = out
        except Exception:
            pass
        return out or None

    def _comp(self, e, st, kind, elt_expr, key_expr=None):
        fz = self._fused(e, st)
        if fz is not None:
            return self._comp(fz, st, kind, fz.elt if hasattr(fz, 'elt') else fz.value, fz.key if hasattr(fz, 'key') else None)
        pre_it = None
        if kind in ('listcomp', 'gen') and len(e.generators) == 1 and not e.generators[0].ifs and key_expr is None:
            it0 = self.ev(e.generators[0].iter, st)
            pre_it = it0
            if isinstance(it0, Fresh) and st.contents.get(it0) is not None:
                it0 = TupleT(tuple(st.contents[it0]))
            items = self._literal_items(it0)
            hoisted = isinstance(e.generators[0].iter, ast.Name) and e.generators[0].iter.id.startswith('__h')   # a temporary of _hoist_nested
            if items is not None and (not isinstance(e.generators[0].iter, ast.Name) or isinstance(it0, TupleT) or hoisted):
                saved0 = dict(st.env)
                vals = []
                for item in items:
                    self.assign(e.generators[0].target, item, st, e, loopvar=True)
                    vals.append(self.ev(elt_expr, st))
                st.env.clear()
                st.env.update(saved0)
                r = Fresh('list', tuple(vals), e.lineno)
                st.contents[r] = tuple(vals) if st.approx == 0 else None
                return r
        saved = dict(st.env)
        st.loops = st.loops + (e.lineno,)
        gens = []
        for gi, g in enumerate(e.generators):
            it = pre_it if (gi == 0 and pre_it is not None) else self.ev(g.iter, st)
            info = self.bind_loop_target(g.target, g.iter, it, st, '', e)
            conds = tuple(self.formula(self.ev(c, st), st) for c in g.ifs)
            tgt = self.ev(_load(g.target), st)
            gens.append((tgt, it, conds))
        key = self.ev(key_expr, st) if key_expr is not None else None
        elt = self.ev(elt_expr, st)
        st.loops = st.loops[:-1]
        st.env.clear()
        st.env.update(saved)
        return Fresh(kind, (), e.lineno, CompInfo(elt, tuple(gens), key))

    def ex_ListComp(self, e, st):
        return self._comp(e, st, 'listcomp', e.elt)

    def ex_SetComp(self, e, st):
        return self._comp(e, st, 'setcomp', e.elt)

    def ex_GeneratorExp(self, e, st):
        return self._comp(e, st, 'gen', e.elt)

    def ex_DictComp(self, e, st):
        return self._comp(e, st, 'dictcomp', e.value, e.key)

    def ex_Lambda(self, e, st):
        return Opaque('lambda@%d' % e.lineno)

    @staticmethod
    def _splice_star(args):
        """f(*t) for a tuple display t = (a, b) known on this path is f(a, b)."""
        out = []
        for a in args:
            if isinstance(a, App) and a.fn == '*' and len(a.args) == 1 and isinstance(strip_at(a.args[0]), TupleT):
                out.extend(strip_at(a.args[0]).items)
            else:
                out.append(a)
        return out

    def ex_Starred(self, e, st):
        return App('*', (self.ev(e.value, st),))

    def ex_IfExp(self, e, st):
        c = self.formula(self.ev(e.test, st), st)
        n0 = len(st.events)
        a = self.ev(e.body, st)
        n1 = len(st.events)
        b = self.ev(e.orelse, st)
        # events of the two arms are mutually exclusive: tag them so that order rules do not read one arm's effect as
        # preceding the other arm's raise
        for ev_ in st.events[n0:n1]:
            ev_.data.setdefault('arms', []).append((id(e), 'body'))
        for ev_ in st.events[n1:]:
            ev_.data.setdefault('arms', []).append((id(e), 'orelse'))
        d = self.decide(st, c) if self.opts.prune else None
        if d is not None:
            c = FConst(d)
        if c == FTrue:
            return a
        if c == FFalse:
            return b
        if isinstance(a, (BoolT, Const)) and isinstance(b, (BoolT, Const)) and \
                all(isinstance(x, BoolT) or isinstance(x.value, bool) for x in (a, b)):
            return BoolT(f_or(f_and(c, self.formula(a)), f_and(f_not(c), self.formula(b))))
        mm = self._as_minmax(c, a, b)
        if mm is not None:
            return mm
        return IfT(c, a, b)

    def _as_minmax(self, c: Formula, a: Term, b: Term) -> Optional[Term]:
        """`a if a > b else b` is max(a, b), `a if a < b else b` is min(a, b) (also with >=, <= and the operands swapped):
        the conditional spelling of a clamp has the same normal form as the min/max spelling."""
        numeric = (Num, Poly, Sym, Attr, Sub)
        if not (isinstance(a, numeric + (App,)) and isinstance(b, numeric + (App,))):
            return None
        for x in (a, b):
            if isinstance(x, App) and x.fn not in ('min', 'max', 'len', 'abs', 'int', 'float', 'round'):
                return None
        if not isinstance(c, (ACmp, FNot)):
            return None
        try:
            for op, fn in (('>', 'max'), ('>=', 'max'), ('<', 'min'), ('<=', 'min')):
                if c == mk_cmp(a, op, b) or f_not(c) == f_not(mk_cmp(a, op, b)):
                    return mk_minmax(fn, [a, b])
        except Exception:
            return None
        return None

    def ex_UnaryOp(self, e, st):
        v = self.ev(e.operand, st)
        if isinstance(e.op, ast.USub):
            return neg(v)
        if isinstance(e.op, ast.UAdd):
            return v
        if isinstance(e.op, ast.Not):
            return BoolT(f_not(self.formula(v, st)))
        return App('~', (v,))

    def binop(self, op, a: Term, b: Term, node) -> Term:
        if isinstance(op, ast.Add):
            if isinstance(a, (Fresh, TupleT, Const, Opaque)) or isinstance(b, (Fresh, TupleT, Const, Opaque)):
                return App('+', (a, b))
            return add(a, b)
        if isinstance(op, ast.Sub):
            return sub(a, b)
        if isinstance(op, ast.Mult):
            if isinstance(a, (Fresh, TupleT, Const, Opaque)) or isinstance(b, (Fresh, TupleT, Const, Opaque)):
                return App('*seq', (a, b))
            return mul(a, b)
        if isinstance(op, ast.Mod):
            return App('%', (a, b))
        if isinstance(op, ast.Div):
            if isinstance(a, Num) and isinstance(b, Num) and b.value != 0:
                return Num(a.value / b.value)
            if isinstance(b, Num) and b.value != 0 and isinstance(b.value, Fraction):
                return mul(a, Num(Fraction(1) / b.value))
            return App('/', (a, b))
        if isinstance(op, ast.FloorDiv):
            return App('//', (a, b))
        if isinstance(op, ast.Pow):
            if isinstance(b, Num) and b.value == 2:
                return mul(a, a)
            return App('**', (a, b))
        return App(type(op).__name__, (a, b))

    def ex_BinOp(self, e, st):
        return self.binop(e.op, self.ev(e.left, st), self.ev(e.right, st), e)

    def ex_BoolOp(self, e, st):
        vals = [self.ev(v, st) for v in e.values]
        boolish = all(isinstance(v, BoolT) or (isinstance(v, Const) and isinstance(v.value, bool)) for v in vals)
        fs = [self.formula(v, st) for v in vals]
        if boolish or True:
            # value-context `a or b` on non-booleans is kept as a conditional term so that truthiness misuse
            # of values (R-NONE) stays visible
            if not boolish and len(vals) == 2:
                a, b = vals
                if isinstance(e.op, ast.Or):
                    return IfT(fs[0], a, b)
                return IfT(fs[0], b, a)
            return BoolT(f_and(*fs) if isinstance(e.op, ast.And) else f_or(*fs))

    def ex_Compare(self, e, st):
        left = self.ev(e.left, st)
        parts = []
        for op, r in zip(e.ops, e.comparators):
            right = self.ev(r, st)
            parts.append(self.cmp(op, left, right, st))
            left = right
        return BoolT(f_and(*parts))

    def cmp(self, op, a: Term, b: Term, st: State) -> Formula:
        if isinstance(op, (ast.In, ast.NotIn)):
            c = b
            if isinstance(c, App) and c.fn == '.keys':
                c = c.args[0]
            if isinstance(c, Fresh) and st.contents.get(c) == () and st.approx == 0:
                f = FFalse      # nothing has been put into it yet
                return f if isinstance(op, ast.In) else f_not(f)
            c = self.versioned(st, c)
            f = AIn(a, c)
            return f if isinstance(op, ast.In) else f_not(f)
        if isinstance(op, (ast.Is, ast.IsNot)) and any(isinstance(t, App) and t.fn == 'type' and len(t.args) == 1 for t in (a, b)) and \
                not any(isinstance(t, Const) for t in (a, b)):
            # `type(x) is C`: classes are compared by identity either way
            return self.cmp(ast.Eq() if isinstance(op, ast.Is) else ast.NotEq(), a, b, st)
        if isinstance(op, (ast.Is, ast.IsNot)):
            for u, w in ((a, b), (b, a)):
                if isinstance(u, BoolT) and isinstance(w, Const) and isinstance(w.value, bool):
                    # a value known to be a bool `is True` / `is False`
                    f0 = u.f if w.value else f_not(u.f)
                    return f0 if isinstance(op, ast.Is) else f_not(f0)
            for u, w in ((a, b), (b, a)):
                if isinstance(u, IfT) and (isinstance(w, Const) or self.is_sentinel(w)):
                    f = f_or(f_and(u.cond, self.cmp(ast.Is(), u.a, w, st)), f_and(f_not(u.cond), self.cmp(ast.Is(), u.b, w, st)))
                    return f if isinstance(op, ast.Is) else f_not(f)
            for u, w in ((a, b), (b, a)):
                if isinstance(u, Sym) and u.name.startswith(('<func ', '<class ')) and isinstance(w, Const) and w.value is None:
                    return FFalse if isinstance(op, ast.Is) else FTrue
            if self.is_sentinel(a) or self.is_sentinel(b):
                # a private marker is identical to itself only: nothing read from a container or passed in is the marker
                f = FConst(a == b)
                return f if isinstance(op, ast.Is) else f_not(f)
            x, y = sorted((a, b), key=lambda t: (not isinstance(t, Const), t.key()))
            f = AIs(y, x) if isinstance(x, Const) else AIs(x, y)
            # identity of two known singletons, or of None and an object allocated here, is decided
            if isinstance(a, Const) and isinstance(b, Const) and all(t.value is None or isinstance(t.value, bool) for t in (a, b)):
                f = FConst(a.value is b.value)
            elif any(isinstance(t, Const) and t.value is None for t in (a, b)) and \
                    any(isinstance(t, (Fresh, Num, TupleT)) or (isinstance(t, App) and t.fn.startswith('new:')) or _never_none(t)
                        for t in (a, b)):
                f = FConst(False)
            return f if isinstance(op, ast.Is) else f_not(f)
        sym = {ast.Lt: '<', ast.LtE: '<=', ast.Gt: '>', ast.GtE: '>=', ast.Eq: '==', ast.NotEq: '!='}[type(op)]
        if any(isinstance(t, App) and t.fn == 'type' for t in (a, b)) and sym in ('==', '!='):
            x, y = sorted((a, b), key=lambda t: (not (isinstance(t, App) and t.fn == 'type'), t.key()))
            f = AEq(x, y)
            return f if sym == '==' else f_not(f)
        return mk_cmp(a, sym, b)

    # ------------------------------------------------------------------ calls
    def bind_args(self, callee: FuncInfo, recv: Optional[Term], args: List[Term], kw: Dict[str, Term],
                  st: State, skip_self: bool) -> Optional[Dict[str, Term]]:
        params = list(callee.params)
        env: Dict[str, Term] = {}
        if skip_self and params:
            env[params[0]] = recv if recv is not None else Sym(params[0])
            params = params[1:]
        pos = [a for a in args if not (isinstance(a, App) and a.fn == '*')]
        star = [a for a in args if isinstance(a, App) and a.fn == '*']
        for p, a in zip(params, pos):
            env[p] = a
        if len(pos) > len(params):
            if callee.vararg:
                env[callee.vararg] = TupleT(tuple(pos[len(params):]))
            else:
                return None
        if star:
            if callee.vararg and len(pos) == 0 and len(star) == 1:
                env[callee.vararg] = star[0].args[0]
            else:
                return None
        for k, v in kw.items():
            if k in params or k in callee.kwonly:
                env[k] = v
            elif callee.node.args.kwarg is not None:
                pass
            else:
                return None
        for p in params + callee.kwonly:
            if p not in env:
                d = callee.param_default(p)
                if d is None:
                    if callee.vararg == p:
                        continue
                    return None
                sub_ctx = _Ctx(self.w, callee, self.opts, self.inline_stack)
                sub_ctx.class_scope = True
                env[p] = sub_ctx.ev(d, State())
        if callee.vararg and callee.vararg not in env:
            env[callee.vararg] = TupleT(())
        return env

    def inline_call(self, callee: FuncInfo, recv: Optional[Term], args: List[Term], kw: Dict[str, Term],
                    st: State, node) -> Optional[Term]:
        # frames of helpers that are new to the API do not count: a documented function split into private steps is still that function
        eff_depth = sum(1 for q in self.inline_stack if not (q in self.prog.functions and self.w.is_new_function(self.prog.functions[q])))
        if eff_depth < self.opts.inline_depth <= len(self.inline_stack) and len(self.inline_stack) < 8:
            pass
        elif len(self.inline_stack) >= self.opts.inline_depth and not (
                self.opts.inline_depth >= 1 and len(self.inline_stack) < 4 and self.w.is_new_function(callee) and
                all(self.prog.functions.get(q) is not None and self.w.is_new_function(self.prog.functions[q]) for q in self.inline_stack[-1:])):
            # (a predicate new to the API that is built from other such predicates is still one expression)
            return None
        if callee.name in self.opts.no_inline or callee.qualname in self.opts.no_inline:
            return None
        if callee.qualname in self.inline_stack:
            return None
        # guard clauses are folded into one conditional expression for helpers the documented API does not have (a predicate that
        # was factored out of a test); a documented function with several exits keeps its paths
        expr = _is_single_return(callee, chains=self.w.is_new_function(callee))
        body = None
        if expr is None:
            body = _straight_line(callee)
            if body is None:
                return None
        skip_self = callee.cls is not None and not callee.is_static and callee.parent is None
        benv = self.bind_args(callee, recv, args, kw, st, skip_self)
        if benv is None:
            return None
        sub_ctx = _Ctx(self.w, callee, self.opts, self.inline_stack + (callee.qualname,),
                       root_types=self.root_types if self.root_types is not None else self.types)
        saved_env = st.env
        if callee.parent is not None and (callee.parent.qualname == self.fn.qualname or callee.parent.qualname in self.inline_stack):
            closure = dict(saved_env)      # a nested function sees the enclosing activation's locals
            closure.update(benv)
            st.env = closure
        else:
            st.env = dict(benv)
        try:
            if body is not None:
                for stmt in body[:-1]:
                    v = sub_ctx.ev(stmt.value, st)
                    tg = stmt.targets[0]
                    if isinstance(tg, ast.Name):
                        st.env[tg.id] = v
                    else:
                        for i, el in enumerate(tg.elts):
                            st.env[el.id] = v.items[i] if isinstance(v, TupleT) and len(v.items) == len(tg.elts) else Sub(v, Num(Fraction(i)))
                expr = body[-1].value
            return sub_ctx.ev(expr, st)
        finally:
            st.env = saved_env

    def _functional_as_genexp(self, e: ast.Call, st: State):
        """filter(F, X) / map(F, X) written with a lambda, a bound `d.__getitem__` or operator.methodcaller / itemgetter /
        attrgetter: the generator expression it abbreviates (same elements, same order, same laziness)."""
        f = e.func
        if isinstance(f, ast.Name) and f.id == 'zip' and f.id not in st.env and len(e.args) == 2 and not e.keywords \
                and self.prog.resolve_name('zip', self.fn.module) is None:
            # zip(repeat(K), V) / zip(V, repeat(K)): ((K, v) for v in V)
            def rep(a):
                if isinstance(a, ast.Call) and len(a.args) == 1 and not a.keywords:
                    r_ = self.prog.resolve_name(a.func.id, self.fn.module) if isinstance(a.func, ast.Name) else \
                        self.prog.resolve_expr_static(a.func, self.fn.module) if isinstance(a.func, ast.Attribute) else None
                    if r_ and r_[0] == 'ext' and r_[1] == 'itertools.repeat':
                        return a.args[0]
                return None
            def cnt(a):
                if isinstance(a, ast.Call) and len(a.args) <= 1 and not a.keywords:
                    r_ = self.prog.resolve_name(a.func.id, self.fn.module) if isinstance(a.func, ast.Name) else \
                        self.prog.resolve_expr_static(a.func, self.fn.module) if isinstance(a.func, ast.Attribute) else None
                    if r_ is None and isinstance(a.func, ast.Name) and st.env.get(a.func.id) == Sym('itertools.count'):
                        r_ = ('ext', 'itertools.count')         # imported inside the function
                    if r_ and r_[0] == 'ext' and r_[1] == 'itertools.count':
                        return a.args[0] if a.args else ast.Constant(value=0)
                return None
            c1 = cnt(e.args[1])
            if c1 is not None and cnt(e.args[0]) is None:
                # zip(X, count(k)): ((x, i) for i, x in enumerate(X, k))
                iv, xv2 = f"_ci{e.lineno}_{e.col_offset}", f"_cx{e.lineno}_{e.col_offset}"
                en = ast.Call(func=ast.Name(id='enumerate', ctx=ast.Load()), args=[e.args[0]] + ([c1] if not (isinstance(c1, ast.Constant) and c1.value == 0) else []), keywords=[])
                g = ast.GeneratorExp(elt=ast.Tuple(elts=[ast.Name(id=xv2, ctx=ast.Load()), ast.Name(id=iv, ctx=ast.Load())], ctx=ast.Load()),
                                     generators=[ast.comprehension(target=ast.Tuple(elts=[ast.Name(id=iv, ctx=ast.Store()), ast.Name(id=xv2, ctx=ast.Store())], ctx=ast.Store()),
                                                                   iter=en, ifs=[], is_async=0)])
                ast.copy_location(g, e)
                ast.fix_missing_locations(g)
                return g

            def mapped(a, other):
                """F when a is map(F, X) (or a local bound once to it) over the same re-iterable name X as `other`."""
                if isinstance(a, ast.Name) and a.id in st.env:
                    defs = [n for n in ast.walk(self.fn.node) if isinstance(n, ast.Assign) and len(n.targets) == 1 and
                            isinstance(n.targets[0], ast.Name) and n.targets[0].id == a.id]
                    stores = [n for n in ast.walk(self.fn.node) if isinstance(n, ast.Name) and n.id == a.id and isinstance(n.ctx, (ast.Store, ast.Del))]
                    if len(defs) == 1 and len(stores) == 1:
                        a = defs[0].value
                if isinstance(a, ast.Call) and isinstance(a.func, ast.Name) and a.func.id == 'map' and len(a.args) == 2 and not a.keywords \
                        and isinstance(a.args[1], ast.Name) and isinstance(other, ast.Name) and a.args[1].id == other.id:
                    return a
                return None
            for xi, mi in ((0, 1), (1, 0)):
                mp = mapped(e.args[mi], e.args[xi])
                if mp is not None:
                    # zip(X, map(F, X)) over a re-iterable X: ((x, F(x)) for x in X)
                    inner = self._functional_as_genexp(mp, st)
                    if isinstance(inner, ast.GeneratorExp):
                        v0 = inner.generators[0].target
                        pair = [ast.Name(id=v0.id, ctx=ast.Load()), inner.elt]
                        g = ast.GeneratorExp(elt=ast.Tuple(elts=pair if xi == 0 else pair[::-1], ctx=ast.Load()), generators=inner.generators)
                        ast.copy_location(g, e)
                        ast.fix_missing_locations(g)
                        return g
            k0, k1 = rep(e.args[0]), rep(e.args[1])
            if (k0 is None) != (k1 is None):
                var = f"_z{e.lineno}_{e.col_offset}"
                xv = ast.Name(id=var, ctx=ast.Load())
                K, V = (k0, e.args[1]) if k0 is not None else (k1, e.args[0])
                if not any(isinstance(n, ast.Call) for n in ast.walk(K)):
                    elt = ast.Tuple(elts=[K, xv] if k0 is not None else [xv, K], ctx=ast.Load())
                    g = ast.GeneratorExp(elt=elt, generators=[ast.comprehension(target=ast.Name(id=var, ctx=ast.Store()), iter=V, ifs=[], is_async=0)])
                    ast.copy_location(g, e)
                    ast.fix_missing_locations(g)
                    return g
            return None
        r_sm = self.prog.resolve_name(f.id, self.fn.module) if isinstance(f, ast.Name) and f.id not in st.env else \
            self.prog.resolve_expr_static(f, self.fn.module) if isinstance(f, ast.Attribute) else None
        if r_sm and r_sm[0] == 'ext' and r_sm[1] == 'itertools.starmap' and len(e.args) == 2 and not e.keywords:
            F0, X0 = e.args
            if isinstance(X0, ast.Call) and isinstance(X0.func, ast.Name) and X0.func.id == 'zip' and not X0.keywords and 1 <= len(X0.args) <= 4 \
                    and isinstance(F0, (ast.Name, ast.Attribute)):
                vs = [f"_s{e.lineno}_{e.col_offset}_{i}" for i in range(len(X0.args))]
                tgt_ = ast.Tuple(elts=[ast.Name(id=v, ctx=ast.Store()) for v in vs], ctx=ast.Store()) if len(vs) > 1 else ast.Name(id=vs[0], ctx=ast.Store())
                it_ = X0 if len(vs) > 1 else X0.args[0]
                g = ast.GeneratorExp(elt=ast.Call(func=F0, args=[ast.Name(id=v, ctx=ast.Load()) for v in vs], keywords=[]),
                                     generators=[ast.comprehension(target=tgt_, iter=it_, ifs=[], is_async=0)])
                ast.copy_location(g, e)
                ast.fix_missing_locations(g)
                return g
            return None
        if not (isinstance(f, ast.Name) and f.id in ('map', 'filter') and f.id not in st.env and len(e.args) == 2 and not e.keywords
                and self.prog.resolve_name(f.id, self.fn.module) is None):
            return None
        F, X = e.args
        if any(isinstance(y, ast.Starred) for y in (F, X)):
            return None
        var = f"_{f.id[0]}{e.lineno}_{e.col_offset}"
        x = ast.Name(id=var, ctx=ast.Load())

        def apply(F):
            if isinstance(F, ast.Lambda) and len(F.args.args) == 1 and not (F.args.vararg or F.args.kwarg or F.args.kwonlyargs or F.args.defaults):
                p = F.args.args[0].arg

                class R(ast.NodeTransformer):
                    def visit_Name(s, n):
                        return ast.copy_location(ast.Name(id=var, ctx=n.ctx), n) if n.id == p else n

                    def visit_Lambda(s, n):
                        return n if any(a.arg == p for a in n.args.args) else s.generic_visit(n)
                import copy
                return R().visit(copy.deepcopy(F.body))
            if isinstance(F, ast.Attribute) and F.attr == '__getitem__':
                return ast.Subscript(value=F.value, slice=x, ctx=ast.Load())
            if isinstance(F, ast.Attribute) and F.attr == '__contains__':
                return ast.Compare(left=x, ops=[ast.In()], comparators=[F.value])
            if isinstance(F, (ast.Call, ast.Name)):
                try:
                    g_ = self._operator_getter(F, st)
                except Exception:
                    g_ = None
                if g_:
                    built = self._apply_getter(g_[0], g_[1], x)
                    if built is not None:
                        return built
            if isinstance(F, ast.Call) and not F.keywords:
                fn_ = F.func.attr if isinstance(F.func, ast.Attribute) else (F.func.id if isinstance(F.func, ast.Name) else None)
                r_ = self.prog.resolve_expr_static(F.func, self.fn.module) if isinstance(F.func, ast.Attribute) else \
                    self.prog.resolve_name(fn_, self.fn.module) if fn_ else None
                ext = r_[1] if r_ and r_[0] == 'ext' else None
                if ext == 'operator.methodcaller' and F.args and isinstance(F.args[0], ast.Constant) and isinstance(F.args[0].value, str):
                    return ast.Call(func=ast.Attribute(value=x, attr=F.args[0].value, ctx=ast.Load()), args=list(F.args[1:]), keywords=[])
                if ext == 'operator.itemgetter' and len(F.args) == 1:
                    return ast.Subscript(value=x, slice=F.args[0], ctx=ast.Load())
                if ext == 'operator.attrgetter' and len(F.args) == 1 and isinstance(F.args[0], ast.Constant) and isinstance(F.args[0].value, str) \
                        and F.args[0].value.isidentifier():
                    return ast.Attribute(value=x, attr=F.args[0].value, ctx=ast.Load())
            if isinstance(F, ast.Constant) and F.value is None and f.id == 'filter':
                return x
            if isinstance(F, ast.Call) and not F.keywords and len(F.args) == 2:
                # functools.partial(operator.is_not, A): lambda v: A is not v
                r0 = self.prog.resolve_name(F.func.id, self.fn.module) if isinstance(F.func, ast.Name) else \
                    self.prog.resolve_expr_static(F.func, self.fn.module) if isinstance(F.func, ast.Attribute) else None
                r1 = self.prog.resolve_name(F.args[0].id, self.fn.module) if isinstance(F.args[0], ast.Name) else \
                    self.prog.resolve_expr_static(F.args[0], self.fn.module) if isinstance(F.args[0], ast.Attribute) else None
                if r0 and r0[0] == 'ext' and r0[1] == 'functools.partial' and r1 and r1[0] == 'ext' and r1[1] in ('operator.is_not', 'operator.is_'):
                    return ast.Compare(left=F.args[1], ops=[ast.IsNot() if r1[1].endswith('is_not') else ast.Is()], comparators=[x])
            if isinstance(F, ast.Name) and F.id not in st.env:
                r2 = self.prog.resolve_name(F.id, self.fn.module)
                if r2 is None and F.id in ('dict', 'list', 'tuple', 'set', 'str', 'int', 'float', 'bool', 'len', 'abs', 'type', 'id', 'repr'):
                    return ast.Call(func=F, args=[x], keywords=[])
                if r2 is not None and r2[0] == 'modattr':
                    v = r2[1][0].assigns.get(r2[1][1])
                    if isinstance(v, (ast.Lambda, ast.Call)):
                        return apply(v)
            return None
        if isinstance(F, ast.Name) and F.id in st.env:
            # a local bound exactly once in this function to a lambda / operator helper whose free names are not rebound
            defs = [n for n in ast.walk(self.fn.node) if isinstance(n, ast.Assign) and len(n.targets) == 1 and
                    isinstance(n.targets[0], ast.Name) and n.targets[0].id == F.id]
            stores = [n for n in ast.walk(self.fn.node) if isinstance(n, ast.Name) and n.id == F.id and isinstance(n.ctx, (ast.Store, ast.Del))]
            if len(defs) == 1 and len(stores) == 1 and isinstance(defs[0].value, (ast.Lambda, ast.Call)):
                free = {n.id for n in ast.walk(defs[0].value) if isinstance(n, ast.Name)}
                rebound = [n for n in ast.walk(self.fn.node) if isinstance(n, ast.Name) and n.id in free and
                           isinstance(n.ctx, (ast.Store, ast.Del)) and getattr(n, 'lineno', 0) > defs[0].lineno]
                if not rebound:
                    F = defs[0].value
        body = apply(F)
        if body is None:
            return None
        gen = ast.comprehension(target=ast.Name(id=var, ctx=ast.Store()), iter=X, ifs=[body] if f.id == 'filter' else [], is_async=0)
        g = ast.GeneratorExp(elt=x if f.id == 'filter' else body, generators=[gen])
        ast.copy_location(g, e)
        ast.fix_missing_locations(g)
        return g

    @staticmethod
    def _apply_getter(kind: str, c: ast.Call, obj: ast.expr):
        """The expression `<getter>(obj)` stands for, for a getter built by operator.attrgetter / itemgetter / methodcaller."""
        out = None
        if kind == 'attrgetter' and all(isinstance(a, ast.Constant) and isinstance(a.value, str) and
                                        all(p_.isidentifier() for p_ in a.value.split('.')) for a in c.args):
            def chain(path):
                cur = obj
                for p_ in path.split('.'):
                    cur = ast.Attribute(value=cur, attr=p_, ctx=ast.Load())
                return cur
            parts = [chain(a.value) for a in c.args]
            out = parts[0] if len(parts) == 1 else ast.Tuple(elts=parts, ctx=ast.Load())
        elif kind == 'itemgetter':
            parts = [ast.Subscript(value=obj, slice=a, ctx=ast.Load()) for a in c.args]
            out = parts[0] if len(parts) == 1 else ast.Tuple(elts=parts, ctx=ast.Load())
        elif kind == 'methodcaller' and isinstance(c.args[0], ast.Constant) and isinstance(c.args[0].value, str):
            out = ast.Call(func=ast.Attribute(value=obj, attr=c.args[0].value, ctx=ast.Load()), args=list(c.args[1:]), keywords=[])
        return out

    def _operator_getter(self, f: ast.expr, st: State):
        """The Call node `operator.attrgetter(...)` / `itemgetter(...)` / `methodcaller(...)` that the callee expression f denotes:
        written in place, or bound once at module level (or to a local that is not rebound) to such a call with constant /
        static arguments."""
        def is_getter(c):
            if not (isinstance(c, ast.Call) and not c.keywords and c.args):
                return None
            r_ = self.prog.resolve_name(c.func.id, self.fn.module) if isinstance(c.func, ast.Name) else \
                self.prog.resolve_expr_static(c.func, self.fn.module) if isinstance(c.func, ast.Attribute) else None
            if r_ is None and isinstance(c.func, ast.Name) and isinstance(st.env.get(c.func.id), Sym) and \
                    st.env[c.func.id].name.startswith('operator.'):
                r_ = ('ext', st.env[c.func.id].name)        # imported inside the function
            if r_ and r_[0] == 'ext' and r_[1] in ('operator.attrgetter', 'operator.itemgetter', 'operator.methodcaller'):
                if all(isinstance(a, (ast.Constant, ast.Name, ast.Attribute)) for a in c.args):
                    return r_[1][9:], c
            return None
        if isinstance(f, ast.Call):
            return is_getter(f)
        if isinstance(f, ast.Name):
            if f.id in st.env:
                defs = [n for n in ast.walk(self.fn.node) if isinstance(n, ast.Assign) and len(n.targets) == 1 and
                        isinstance(n.targets[0], ast.Name) and n.targets[0].id == f.id]
                stores = [n for n in ast.walk(self.fn.node) if isinstance(n, ast.Name) and n.id == f.id and isinstance(n.ctx, (ast.Store, ast.Del))]
                if len(defs) == 1 and len(stores) == 1:
                    g = is_getter(defs[0].value)
                    if g and all(isinstance(a, ast.Constant) for a in g[1].args):
                        return g
                return None
            r2 = self.prog.resolve_name(f.id, self.fn.module)
            if r2 is not None and r2[0] == 'modattr':
                return is_getter(r2[1][0].assigns.get(r2[1][1]))
        return None

    def ex_Call(self, e: ast.Call, st: State) -> Term:
        f = e.func
        dn = getattr(e, '_dunder', None)
        if dn is None:
            dn = False
            if isinstance(f, ast.Attribute) and f.attr in ('__contains__', '__getitem__', '__len__') and not e.keywords and \
                    not any(isinstance(a, ast.Starred) for a in e.args):
                recv_ast = f.value
                r_cls = isinstance(recv_ast, ast.Name) and recv_ast.id in ('dict', 'list', 'tuple', 'set', 'frozenset') and recv_ast.id not in st.env
                args_ast = list(e.args)
                if r_cls and args_ast:
                    recv_ast, args_ast = args_ast[0], args_ast[1:]          # dict.__contains__(d, k)
                try:
                    rt_ = self.ti.expr_type(recv_ast, self.fn, self.types)
                except Exception:
                    rt_ = None
                plain = bool(rt_ and rt_[0] in ('dict', 'list', 'tuple', 'set')) or r_cls
                if plain:
                    if f.attr == '__contains__' and len(args_ast) == 1:
                        dn = ast.Compare(left=args_ast[0], ops=[ast.In()], comparators=[recv_ast])
                    elif f.attr == '__getitem__' and len(args_ast) == 1:
                        dn = ast.Subscript(value=recv_ast, slice=args_ast[0], ctx=ast.Load())
                    elif f.attr == '__len__' and not args_ast:
                        dn = ast.Call(func=ast.Name(id='len', ctx=ast.Load()), args=[recv_ast], keywords=[])
                    if dn:
                        ast.copy_location(dn, e)
                        ast.fix_missing_locations(dn)
            try:
                e._dunder = dn
            except Exception:
                pass
        if dn:
            return self.ev(dn, st)
        og = getattr(e, '_getter', None)
        if og is None:
            og = False
            if len(e.args) == 1 and not e.keywords and not isinstance(e.args[0], ast.Starred):
                try:
                    g = self._operator_getter(f, st)
                except Exception:
                    g = None
                if g:
                    kind, c = g
                    obj = e.args[0]
                    if kind == 'attrgetter' and all(isinstance(a, ast.Constant) and isinstance(a.value, str) and
                                                    all(p_.isidentifier() for p_ in a.value.split('.')) for a in c.args):
                        def chain(path):
                            cur = obj
                            for p_ in path.split('.'):
                                cur = ast.Attribute(value=cur, attr=p_, ctx=ast.Load())
                            return cur
                        parts = [chain(a.value) for a in c.args]
                        og = parts[0] if len(parts) == 1 else ast.Tuple(elts=parts, ctx=ast.Load())
                    elif kind == 'itemgetter':
                        parts = [ast.Subscript(value=obj, slice=a, ctx=ast.Load()) for a in c.args]
                        og = parts[0] if len(parts) == 1 else ast.Tuple(elts=parts, ctx=ast.Load())
                    elif kind == 'methodcaller' and isinstance(c.args[0], ast.Constant) and isinstance(c.args[0].value, str):
                        og = ast.Call(func=ast.Attribute(value=obj, attr=c.args[0].value, ctx=ast.Load()), args=list(c.args[1:]), keywords=[])
                    if og:
                        ast.copy_location(og, e)
                        ast.fix_missing_locations(og)
            try:
                e._getter = og
            except Exception:
                pass
        if og:
            return self.ev(og, st)
        ge = getattr(e, '_as_genexp', None)
        if ge is None:
            ge = self._functional_as_genexp(e, st) or False
            try:
                e._as_genexp = ge
            except Exception:
                pass
        if ge:
            return self.ev(ge, st)
        if isinstance(f, ast.Name) and isinstance(st.env.get(f.id), Sym) and not getattr(e, '_redispatched', False):
            # a local that holds a builtin or a library function (picked from a table): the call it stands for
            nm = st.env[f.id].name
            f2 = None
            if nm.startswith('builtins.') and nm[9:] not in st.env and '.' not in nm[9:]:
                f2 = ast.Name(id=nm[9:], ctx=ast.Load())
            elif nm in ('min', 'max', 'sum', 'len', 'abs', 'sorted', 'list', 'tuple', 'dict', 'set', 'any', 'all') and nm != f.id and \
                    nm not in st.env and self.prog.resolve_name(nm, self.fn.module) is None:
                f2 = ast.Name(id=nm, ctx=ast.Load())
            elif '.' in nm and not nm.startswith('<'):
                mn, _, fnn = nm.rpartition('.')
                alias = next((a for a, t in self.fn.module.imports.items() if t == mn and a not in st.env), None)
                if alias is not None:
                    f2 = ast.Attribute(value=ast.Name(id=alias, ctx=ast.Load()), attr=fnn, ctx=ast.Load())
            if f2 is not None:
                e2 = ast.Call(func=f2, args=e.args, keywords=e.keywords)
                ast.copy_location(e2, e)
                ast.fix_missing_locations(e2)
                e2._redispatched = True
                return self.ex_Call(e2, st)
        if isinstance(f, ast.Name) and f.id in st.env and not getattr(e, '_unpartial', None) and not e.args and not e.keywords:
            # a thunk: a local bound once to functools.partial(g, a..., k=v...) whose argument names are not rebound, called without
            # arguments, is g(a..., k=v...).  (A partial that still takes arguments stays a value: the batch rules identify the
            # worker callable and its work items from it.)
            pv = st.env[f.id]
            if isinstance(pv, App) and pv.fn == 'call' and pv.args and pv.args[0] == Sym('functools.partial'):
                defs = [n for n in ast.walk(self.fn.node) if isinstance(n, ast.Assign) and len(n.targets) == 1 and
                        isinstance(n.targets[0], ast.Name) and n.targets[0].id == f.id]
                stores = [n for n in ast.walk(self.fn.node) if isinstance(n, ast.Name) and n.id == f.id and isinstance(n.ctx, (ast.Store, ast.Del))]
                if len(defs) == 1 and len(stores) == 1 and isinstance(defs[0].value, ast.Call) and defs[0].value.args and \
                        not any(isinstance(a, ast.Starred) for a in defs[0].value.args) and \
                        not any(isinstance(n, ast.Call) for a in defs[0].value.args[1:] for n in ast.walk(a)):
                    pc = defs[0].value
                    free = {n.id for a in list(pc.args) + [k.value for k in pc.keywords] for n in ast.walk(a) if isinstance(n, ast.Name)}
                    rebound = [n for n in ast.walk(self.fn.node) if isinstance(n, ast.Name) and n.id in free and
                               isinstance(n.ctx, (ast.Store, ast.Del)) and getattr(n, 'lineno', 0) > defs[0].lineno]
                    if not rebound and not any(k.arg in {k2.arg for k2 in e.keywords} for k in pc.keywords if k.arg):
                        e2 = ast.Call(func=pc.args[0], args=list(pc.args[1:]) + list(e.args), keywords=list(pc.keywords) + list(e.keywords))
                        ast.copy_location(e2, e)
                        ast.fix_missing_locations(e2)
                        e2._unpartial = True
                        return self.ex_Call(e2, st)
        args = self._splice_star([self.ev(a, st) for a in e.args])
        kw = {k.arg if k.arg is not None else '**': self.ev(k.value, st) for k in e.keywords}
        # operator.lt(a, b) and friends are the comparisons they name
        if not kw and len(args) in (1, 2) and isinstance(f, (ast.Attribute, ast.Name)):
            try:
                r_op = self.prog.resolve_expr_static(f, self.fn.module) if isinstance(f, ast.Attribute) and self._is_static_chain(f, st) else \
                    (self.prog.resolve_name(f.id, self.fn.module) if isinstance(f, ast.Name) and f.id not in st.env else None)
            except Exception:
                r_op = None
            if r_op and r_op[0] == 'ext' and r_op[1] == 'typing.cast' and len(args) == 2:
                return args[1]          # the identity function at run time
            if r_op and r_op[0] == 'ext' and isinstance(r_op[1], str) and r_op[1].startswith('operator.'):
                opn = r_op[1][9:]
                OPS = {'lt': ast.Lt, 'le': ast.LtE, 'gt': ast.Gt, 'ge': ast.GtE, 'eq': ast.Eq, 'ne': ast.NotEq, 'is_': ast.Is, 'is_not': ast.IsNot}
                if opn in OPS and len(args) == 2:
                    return BoolT(self.cmp(OPS[opn](), args[0], args[1], st))
                if opn == 'contains' and len(args) == 2:
                    return BoolT(self.cmp(ast.In(), args[1], args[0], st))
                if opn == 'not_' and len(args) == 1:
                    return BoolT(f_not(self.formula(args[0], st)))
        tgt: CallTarget = self.ti.resolve_call(e, self.fn, self.types)
        # flow-sensitive refinement: a local that holds a known package function on this path (reaching definition)
        if isinstance(f, ast.Name) and f.id in st.env and isinstance(st.env[f.id], Sym) and st.env[f.id].name.startswith('<func '):
            q = st.env[f.id].name[6:-1]
            if q in self.prog.functions:
                tgt = CallTarget('pkg', [self.prog.functions[q]], via='local', name=f.id)
        bound_recv = None
        if isinstance(f, ast.Name) and f.id in st.env and isinstance(st.env[f.id], Attr):
            # a local holding a bound method of a package instance (reaching definition on this path)
            bt0 = self.term_type(st.env[f.id].base)
            if bt0 and bt0[0] == 'inst':
                ms0 = self.prog.lookup_method(bt0[1], st.env[f.id].name)
                if ms0 and not ms0[0].is_property:
                    tgt = CallTarget('pkg', [ms0[0]], via='method', name=st.env[f.id].name, recv_type=bt0)
                    bound_recv = st.env[f.id].base
            elif not bt0 and not tgt.resolved:
                # receiver of unknown type: the same by-name fallback as for a call written in place
                nm = st.env[f.id].name
                cands = [c for c in self.prog.classes.values() if nm in c.methods and not c.methods[nm][0].is_property]
                roots = [c for c in cands if not any(o != c and o in self.prog.mro(c) for o in cands)]
                if cands and len(roots) == 1:
                    funcs = [c.methods[nm][0] for c in cands]
                    funcs.sort(key=lambda m: 0 if m.cls == roots[0] else 1)
                    tgt = CallTarget('pkg', funcs, via='byname', name=nm)
                    bound_recv = st.env[f.id].base
                elif not cands:
                    # a bound method of a library object kept in a local (`write = file.write`): the same call as base.write(...)
                    tgt = CallTarget('unknown', via='', name=nm)
                    bound_recv = st.env[f.id].base
            if bound_recv is None and bt0 and bt0[0] in ('list', 'dict', 'set') and st.env[f.id].name in MUTATORS:
                # `add = lst.append`: a bound mutator of a container kept in a local
                tgt = CallTarget('unknown', via='', name=st.env[f.id].name)
                bound_recv = st.env[f.id].base
            if bound_recv is None and tgt.kind == 'ext' and tgt.ext and tgt.ext.endswith('.' + st.env[f.id].name):
                bound_recv = st.env[f.id].base      # typed library object: io.TextIOWrapper.write through a local
        if tgt.resolved:
            self.w.stats['calls_resolved'] += 1
        else:
            self.w.stats['calls_unresolved'] += 1
        recv = bound_recv
        if isinstance(f, ast.Attribute):
            if isinstance(f.value, ast.Call) and isinstance(f.value.func, ast.Name) and f.value.func.id == 'super':
                sn = self.ti._self_name(self.fn) or 'self'
                recv = st.env.get(sn, Sym(sn))
            else:
                recv = self.ev(f.value, st)
                if tgt.kind == 'pkg' and tgt.via == 'method' and tgt.funcs and tgt.funcs[0].cls is not None and not tgt.funcs[0].is_static:
                    # `self._poll()` where `_poll` is a FIELD holding a bound method: the receiver is the object the method was taken
                    # from when the field was set, not the object the field is read from
                    try:
                        bt1 = self.term_type(recv)
                    except Exception:
                        bt1 = None
                    if bt1 and bt1[0] == 'inst' and not self.prog.lookup_method(bt1[1], f.attr) and self.ti.field_owner(bt1[1], f.attr) is not None:
                        recv = Attr(Attr(recv, f.attr), '__self__')
        if recv is None and isinstance(f, ast.Name) and f.id in st.env and tgt.kind == 'pkg' and tgt.via == 'method' and tgt.funcs \
                and tgt.funcs[0].cls is not None and not tgt.funcs[0].is_static and not tgt.funcs[0].is_classmethod \
                and isinstance(st.env[f.id], (Attr, Sub, App)):
            # a local that holds a bound method read from somewhere else (a field, a table): its receiver is whatever it was bound to
            recv = Attr(st.env[f.id], '__self__')
        if tgt.kind == 'pkg' and len(tgt.funcs) == 1 and kw and '**' not in kw and \
                not any(isinstance(a, App) and a.fn == '*' for a in args):
            # f(name=a, other=b) for leading positional parameters is f(a, b): rules read positions
            c0 = tgt.funcs[0]
            ps = list(c0.params)
            if tgt.via == 'ctor':
                ps = ps[1:]         # Cls(name=a): the constructor's parameters after the receiver
            elif c0.cls is not None and not c0.is_static and c0.parent is None and ps and tgt.via in ('method', 'super', 'byname', 'local', 'static', 'class', ''):
                if not (isinstance(f, ast.Name)):
                    ps = ps[1:] if (not c0.is_static) else ps
            moved = list(args)
            kw2 = dict(kw)
            while len(moved) < len(ps) and ps[len(moved)] in kw2:
                moved.append(kw2.pop(ps[len(moved)]))
            if len(moved) != len(args) and not any(k in ps[:len(moved)] for k in kw2):
                args, kw = moved, kw2
        kwt = tuple(sorted(kw.items()))
        # ---- builtins with algebra
        if tgt.kind == 'builtin':
            b = tgt.ext.split('.', 1)[1]
            if b in ('max', 'min') and len(args) >= 2 and not kw:
                return mk_minmax(b, args)
            if b == 'abs' and len(args) == 1:
                return mk_abs(args[0])
            if b == 'isinstance' and len(args) == 2:
                if isinstance(args[1], TupleT):
                    return BoolT(f_or(*[AIsInst(args[0], t) for t in args[1].items]))
                return BoolT(AIsInst(args[0], args[1]))
            if b == 'bool' and len(args) == 1 and not kw:
                return BoolT(self.formula(args[0], st))
            if b == 'issubclass' and len(args) == 2 and isinstance(args[0], App) and args[0].fn == 'type' and len(args[0].args) == 1:
                # issubclass(type(x), T) is what isinstance(x, T) asks (an object lying about __class__ aside)
                x0 = args[0].args[0]
                if isinstance(args[1], TupleT):
                    return BoolT(f_or(*[AIsInst(x0, t) for t in args[1].items]))
                return BoolT(AIsInst(x0, args[1]))
            if b == 'divmod' and len(args) == 2 and not kw:
                return TupleT((self.binop(ast.FloorDiv(), args[0], args[1], e), self.binop(ast.Mod(), args[0], args[1], e)))
            if b == 'hasattr' and len(args) == 2:
                return BoolT(ATruthy(App('hasattr', tuple(args))))
            if b == 'vars' and len(args) == 1 and not kw:
                pth = Attr(args[0], '__dict__')       # vars(x) is x.__dict__
                return st.heap.get(pth, pth)
            if b == 'object' and not args and not kw:
                return Fresh('call:object', (), e.lineno)
            if b == 'getattr' and len(args) == 3 and not kw and self.is_sentinel(args[2]):
                # getattr(o, name, MARKER) with a private marker: the attribute when hasattr(o, name), else the marker - so
                # `... is not MARKER` is exactly hasattr(o, name)
                return IfT(ATruthy(App('hasattr', (args[0], args[1]))), App('getattr', (args[0], args[1])), args[2])
            if b == 'getattr' and len(args) >= 2 and isinstance(args[1], Const) and isinstance(args[1].value, str) and \
                    not isinstance(args[0], App):
                pth = Attr(args[0], args[1].value)
                return st.heap.get(pth, pth)
            if b == 'setattr' and len(args) == 3 and isinstance(args[1], Const) and isinstance(args[1].value, str):
                fake = ast.Attribute(value=e.args[0], attr=args[1].value, ctx=ast.Store())
                ast.copy_location(fake, e)
                st.heap[Attr(args[0], args[1].value)] = args[2]
                bt = self.ti.expr_type(e.args[0], self.fn, self.types)
                self.store_event(st, e, fake, Attr(args[0], args[1].value), 'rebind', value=args[2], attr=args[1].value, aug=None,
                                 operand=None, base=args[0], base_expr=e.args[0], base_type=bt)
                return Const(None)
            if b == 'list' and len(args) == 1 and not kw and isinstance(args[0], Fresh) and args[0].kind == 'gen' and \
                    getattr(args[0], 'detail', None) is not None:
                return Fresh('listcomp', (), args[0].site, args[0].detail)       # list(<generator expression>) is the comprehension
            if b in ('tuple', 'list') and len(args) == 1 and isinstance(args[0], Fresh) and st.contents.get(args[0]) is not None:
                if b == 'tuple':
                    return TupleT(tuple(st.contents[args[0]]))
                r2 = Fresh('list', tuple(st.contents[args[0]]), e.lineno)
                st.contents[r2] = tuple(st.contents[args[0]])
                return r2
            if b in ('all', 'any') and len(args) == 1:
                a0 = args[0]
                if isinstance(a0, Fresh) and st.contents.get(a0) is not None:
                    a0 = TupleT(tuple(st.contents[a0]))
                its = self._literal_items(a0)
                if its is not None:
                    fs = [self.formula(v, st) for v in its]
                    return BoolT(f_and(*fs) if b == 'all' else f_or(*fs))
            if b == 'next' and len(e.args) == 2 and not kw and isinstance(e.args[0], ast.GeneratorExp) and len(e.args[0].generators) == 1:
                # first match in a table written in place: next((v for k, v in TABLE if cond(k)), default)
                g = e.args[0].generators[0]
                src_items = self._literal_items(self.ev(g.iter, st))
                if src_items is not None:
                    saved = dict(st.env)
                    rows = []
                    for item in src_items:
                        self.assign(g.target, item, st, e, loopvar=True)
                        c = f_and(*[self.formula(self.ev(c_, st), st) for c_ in g.ifs])
                        rows.append((c, self.ev(e.args[0].elt, st)))
                    st.env.clear()
                    st.env.update(saved)
                    acc = args[1]
                    for c, v in reversed(rows):
                        acc = v if c == FTrue else (acc if c == FFalse else IfT(c, v, acc))
                    return acc
            if b == 'next' and len(args) == 2 and not kw and isinstance(args[0], Fresh) and getattr(args[0], 'detail', None) is not None \
                    and len(args[0].detail.gens) == 1 and isinstance(args[0].detail.elt, Const) and isinstance(args[1], Const) \
                    and isinstance(args[0].detail.elt.value, bool) and isinstance(args[1].value, bool) and args[0].detail.elt.value != args[1].value:
                # next((False for x in X if c), True) is all(not c ...); next((True for x in X if c), False) is any(c ...)
                d0 = args[0].detail
                tgt0, it0, conds0 = d0.gens[0]
                g2 = Fresh('gen', (), args[0].site, CompInfo(BoolT(f_and(*conds0)), ((tgt0, it0, ()),)))
                anyf = ATruthy(App('any', (g2,)))
                return BoolT(anyf if d0.elt.value else f_not(anyf))
            if b in ('all', 'any', 'tuple', 'list') and len(args) == 1 and isinstance(e.args[0], (ast.GeneratorExp, ast.ListComp)) \
                    and len(e.args[0].generators) == 1 and not e.args[0].generators[0].ifs:
                g = e.args[0].generators[0]
                src_items = self._literal_items(self.ev(g.iter, st))
                if src_items is not None:
                    saved = dict(st.env)
                    vals = []
                    for item in src_items:
                        self.assign(g.target, item, st, e, loopvar=True)
                        vals.append(self.ev(e.args[0].elt, st))
                    st.env.clear()
                    st.env.update(saved)
                    if b == 'all':
                        return BoolT(f_and(*[self.formula(v, st) for v in vals]))
                    if b == 'any':
                        return BoolT(f_or(*[self.formula(v, st) for v in vals]))
                    if b == 'tuple':
                        return TupleT(tuple(vals))
                    return Fresh('list', tuple(vals), e.lineno)
            if b in ('list', 'dict', 'set', 'tuple', 'sorted', 'frozenset'):
                ev = self.emit(st, 'call', e, targets=[], target_kind='builtin', callee_name='builtins.' + b,
                               recv=None, args=tuple(args), kw=kwt, via='func', expr=e)
                r = Fresh('call:' + b, tuple(args), e.lineno)
                ev.data['result'] = r
                return r
            r = App(b, tuple(args), kwt)
            if b in ('open', 'print', 'setattr', 'delattr', 'getattr', 'exec', 'eval', 'hash', 'id', 'iter', 'next',
                     'globals', 'locals', 'vars', 'dir', 'super', 'sum', 'all', 'any', 'zip', 'map', 'filter',
                     'reversed', 'enumerate', 'range', 'len', 'int', 'float', 'str', 'type', 'round', 'divmod'):
                if b in ('open', 'print', 'setattr', 'delattr', 'getattr', 'exec', 'eval', 'hash', 'id', 'next',
                         'globals', 'locals', 'vars', 'dir', 'sum', 'all', 'any', 'zip', 'map', 'filter', 'reversed'):
                    self.emit(st, 'call', e, targets=[], target_kind='builtin', callee_name='builtins.' + b, recv=None,
                              args=tuple(args), kw=kwt, via='func', expr=e, result=r)
                if b == 'setattr' and len(args) == 3:
                    self.store_event(st, e, e.args[0], App('setattr-target', (args[0], args[1])), 'setattr',
                                     key=args[1], value=args[2])
            else:
                self.emit(st, 'call', e, targets=[], target_kind='builtin', callee_name='builtins.' + b, recv=None,
                          args=tuple(args), kw=kwt, via='func', expr=e, result=r)
            return r
        # ---- d.get(k, MARKER) with a private marker object: the entry when the key is present, the marker otherwise
        name = tgt.name
        if isinstance(f, ast.Attribute) and name == 'get' and tgt.kind in ('ext', 'unknown') and recv is not None and len(args) == 2 \
                and not kw and self.is_sentinel(args[1]):
            r = IfT(AIn(args[0], self.versioned(st, recv)), Sub(recv, args[0]), args[1])
            self.emit(st, 'call', e, targets=[], target_kind=tgt.kind, callee_name=(tgt.ext or '.get'), recv=recv, args=tuple(args), kw=kwt,
                      via='', expr=e, result=r)
            return r
        # ---- container mutators (receiver is not a package instance defining that method)
        if (isinstance(f, ast.Attribute) or bound_recv is not None) and name in MUTATORS and tgt.kind in ('ext', 'unknown') and recv is not None:
            is_pandas_drop = name == 'drop'
            if not is_pandas_drop or any(k == 'inplace' and v == Const(True) for k, v in kw.items()):
                ev = self.store_event(st, e, f.value if isinstance(f, ast.Attribute) else f, recv, name, args=tuple(args), kw=kwt, key=args[0] if args else None,
                                      value=args[-1] if args else None)
                self.bump(st, recv)
                vb = self.versioned(st, recv)
                if isinstance(recv, Fresh) and recv in st.contents:
                    if name == 'append' and len(args) == 1 and st.contents[recv] is not None and st.approx == 0:
                        st.contents[recv] = st.contents[recv] + (args[0],)
                    else:
                        st.contents[recv] = None
                if name in ('append', 'add') and args:
                    st.known[AIn(args[0], vb)] = True
                if name == 'insert' and len(args) == 2:
                    st.known[AIn(args[1], vb)] = True
                r = App('.' + name, (recv,) + tuple(args), kwt)
                self.emit(st, 'call', e, targets=[], target_kind=tgt.kind, callee_name=(tgt.ext or '.' + name), recv=recv,
                          args=tuple(args), kw=kwt, via='mutator', expr=e, result=r)
                return r
        # library summary: random.Random.shuffle mutates its argument
        if tgt.kind == 'ext' and tgt.ext and tgt.ext.endswith('.shuffle') and args:
            self.store_event(st, e, e.args[0], args[0], 'shuffle', args=tuple(args), kw=kwt, rng=recv)
        # library summary: bisect.insort* insert their second argument into their first
        if tgt.kind == 'ext' and tgt.ext in ('bisect.insort', 'bisect.insort_right', 'bisect.insort_left') and len(args) >= 2:
            self.store_event(st, e, e.args[0], args[0], tgt.ext.split('.')[1], args=tuple(args), kw=kwt, key=None, value=args[1])
            self.bump(st, args[0])
            st.known[AIn(args[1], self.versioned(st, args[0]))] = True
        # ---- package callees
        if tgt.kind == 'pkg' and tgt.funcs:
            callee = tgt.funcs[0]
            cname = callee.qualname
            if tgt.via == 'ctor':
                if isinstance(f, ast.Name) and f.id in st.env:
                    # the class comes from a variable (static type Type[C]): keep which variable, the dynamic class may
                    # be any subclass
                    if st.env[f.id] != Sym(tgt.ctor_class.qualname):       # ... unless it is bound to the class itself (inlined classmethod)
                        kwt = tuple(sorted(kwt + (('<cls>', st.env[f.id]),)))
                r = App('new:' + tgt.ctor_class.qualname, tuple(args), kwt)
                ev = self.emit(st, 'call', e, targets=tgt.funcs, target_kind='pkg', callee_name=cname, recv=r,
                               args=tuple(args), kw=kwt, via='ctor', expr=e, result=r, ctor_class=tgt.ctor_class)
                self._attach_raises(ev, tgt, r, args, kw, st, skip_self=True)
                return r
            skip_self = callee.cls is not None and not callee.is_static and callee.parent is None and \
                tgt.via in ('method', 'super', 'byname')
            if tgt.via == 'func' and callee.cls is not None and not callee.is_static and callee.parent is None \
                    and recv is not None:
                # Class.method(...) through the class object: explicit self if not a bound call
                rt = self.ti.expr_type(f.value, self.fn, self.types) if isinstance(f, ast.Attribute) else None
                skip_self = bool(rt and rt[0] == 'cls' and self.prog.metaclass_of(rt[1]) == callee.cls)
            inl = None
            if len(tgt.funcs) == 1 or tgt.via == 'super':
                inl = self.inline_call(callee, recv if skip_self else None, args, kw, st, e)
            r = inl if inl is not None else App('call:' + cname, ((recv,) if (skip_self and recv is not None) else ()) + tuple(args), kwt)
            ev = self.emit(st, 'call', e, targets=tgt.funcs, target_kind='pkg', callee_name=cname,
                           recv=recv if skip_self else None, args=tuple(args), kw=kwt, via=tgt.via, expr=e, result=r,
                           inlined=inl is not None,
                           func_term=(st.env.get(f.id) if isinstance(f, ast.Name) and f.id in st.env else None))
            if inl is None:
                self._attach_raises(ev, tgt, recv if skip_self else None, args, kw, st, skip_self)
                if any(self.w.is_abstract(c) for c in tgt.funcs):
                    ev.data['_invalidate'] = ('all',)
                else:
                    wf = set()
                    for c in tgt.funcs:
                        wf |= self.w.written_fields(c)
                    if '*' in wf:
                        ev.data['_invalidate'] = ('all',)
                    elif wf:
                        ev.data['_invalidate'] = ('fields', frozenset(wf))
                if len(tgt.funcs) == 1 and len(self.inline_stack) == 0:
                    rows = self.w.return_summaries(callee, self.opts)
                    if rows:
                        benv = self.bind_args(callee, recv if skip_self else None, list(args), dict(kw), st, skip_self)
                        if benv is not None:
                            mapping = {Sym(k): v for k, v in benv.items()}
                            try:
                                st.retfacts[r] = [(subst_formula(c, mapping), subst_term(v, mapping) if isinstance(v, Term) else v)
                                                  for c, v in rows]
                            except Exception:
                                pass
            return r
        # ---- external / unknown
        fn_term = None
        fld_call = None
        if recv is not None and isinstance(f, ast.Attribute) and tgt.kind == 'unknown':
            # `hook.func(params)` where `hook` was built in this call by a storing constructor (a NamedTuple / dataclass record) and
            # `func` is one of its fields: a call of the value that was stored, not a method of the record
            nb_ = strip_at(recv)
            if isinstance(nb_, App) and nb_.fn.startswith('new:'):
                ci_ = self.prog.classes.get(nb_.fn[4:])
                if ci_ is not None and not self.prog.lookup_method(ci_, f.attr):
                    fld_call = self._ctor_field(nb_, f.attr, st)
        if fld_call is not None:
            fn_term = fld_call
            r = App('call', (fn_term,) + tuple(args), kwt)
            self.emit(st, 'call', e, targets=[], target_kind=tgt.kind, callee_name=name, recv=None, args=tuple(args), kw=kwt, via=tgt.via,
                      expr=e, result=r, func_term=fn_term)
            st.events[-1].data['_invalidate'] = ('all',)
            return r
        if recv is not None:
            r = App('.' + name, (recv,) + tuple(args), kwt)
        else:
            fn_term = self.ev(f, st) if not isinstance(f, ast.Attribute) else Sym(name)
            r = App('call', (fn_term,) + tuple(args), kwt)
        self.emit(st, 'call', e, targets=[], target_kind=tgt.kind, callee_name=tgt.ext or ('.' + name if recv is not None else name),
                  recv=recv, args=tuple(args), kw=kwt, via=tgt.via, expr=e, result=r,
                  func_term=(fn_term if isinstance(f, (ast.Name, ast.Call, ast.Subscript)) else None))
        if tgt.kind == 'unknown':
            st.events[-1].data['_invalidate'] = ('all',)     # open-world callback (G6): may call any public method
        return r

    def _attach_raises(self, ev: Event, tgt: CallTarget, recv, args, kw, st: State, skip_self: bool):
        if not self.opts.callee_raises:
            return
        pend = []
        for callee in (tgt.funcs if tgt.via not in ('super', 'ctor', 'func', 'local', 'partial') else tgt.funcs[:1]):
            sums = self.w.raise_summaries(callee, self.opts, depth=len(self.w._raise_stack))
            if not sums:
                continue
            benv = self.bind_args(callee, recv, list(args), dict(kw), st, skip_self)
            for rs in sums:
                cond = rs.cond
                if benv is not None:
                    mapping = {Sym(k): v for k, v in benv.items()}
                    try:
                        cond = subst_formula(cond, mapping)
                    except Exception:
                        cond = FTrue
                else:
                    cond = FTrue
                if not rs.exact:
                    cond = FTrue if cond == FFalse else cond
                if tgt.via == 'ctor' and callee.params:
                    # stores into the object under construction are stores into a fresh object
                    me = Sym(callee.params[0])

                    def _self_rooted(ev):
                        r = ev.data.get('root')
                        while isinstance(r, (Attr, Sub)):
                            r = r.base
                        return r == me
                    kept = [w for w in rs.writes_before if not _self_rooted(w)]
                    if len(kept) != len(rs.writes_before):
                        rs = RaiseSummary(rs.exc, rs.cond, kept, rs.line, rs.via, rs.exact)
                pend.append((rs, cond))
        if pend:
            ev.data['_pending_raises'] = pend


def _signnorm(t):
    from .terms import sign_normalise
    return sign_normalise(t)


def _load(t: ast.expr) -> ast.expr:
    """A Load-context copy of an assignment target."""
    import copy
    t2 = copy.deepcopy(t)
    for n in ast.walk(t2):
        if hasattr(n, 'ctx'):
            n.ctx = ast.Load()
    return t2
