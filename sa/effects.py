"""Write-site enumeration, call graph and transitive effect summaries (DESIGN.md 3.3, R-DISC / R-PURE)."""
from __future__ import annotations

import ast
from dataclasses import dataclass
from typing import Dict, List, Optional, Set, Tuple

from .loader import Program, FuncInfo
from .walker import Walker, WalkOptions, Event, PathExplosion


@dataclass
class WriteSite:
    fn: FuncInfo
    ev: Event
    owners: frozenset = frozenset()

    @property
    def owner_q(self) -> str:
        """The function this write site belongs to for "who may write" rules: a private helper's site belongs to the
        single public function that reaches it through private helpers (helper extraction is not a new writer)."""
        if len(self.owners) == 1:
            return next(iter(self.owners)).split('#')[0]
        return self.fn.qualname

    def owned_within(self, allowed) -> bool:
        """Every documented function that reaches this site is one of `allowed` (a private implementation shared by two of the
        allowed writers - `_update_pool(component, adding)` behind register and deregister - is no new writer)."""
        owners = {o.split('#')[0] for o in (self.owners or {self.fn.qualname})}
        return owners <= set(allowed)

    @property
    def owner_name(self) -> str:
        return self.owner_q.rsplit('.', 1)[-1]

    @property
    def loc(self):
        return self.ev.data.get('loc')

    @property
    def kind(self):
        return self.ev.data.get('store')

    @property
    def line(self):
        return self.ev.line

    @property
    def where(self):
        return f"{self.fn.module.relpath}:{self.line}"

    def describe(self):
        return f"{self.where} {self.fn.qualname}: {self.kind} on {self.loc} ({self.fn.module.line(self.line)})"


class Effects:
    def __init__(self, prog: Program, walker: Walker):
        self.prog = prog
        self.w = walker
        self.direct: Dict[str, List[WriteSite]] = {}
        self.calls: Dict[str, List[Event]] = {}
        self.callees: Dict[str, Set[str]] = {}
        self.unresolved: Dict[str, List[Event]] = {}
        self._trans: Dict[str, List[Tuple[WriteSite, Tuple[str, ...]]]] = {}
        self._build()

    @staticmethod
    def key(fn: FuncInfo) -> str:
        return fn.qualname + ('#setter' if fn.is_setter else '')

    def _build(self):
        opts = WalkOptions(unroll=1, prune=False, callee_raises=False, inline_depth=1, max_paths=50000, inline_full=frozenset({'<private>'}))
        for fn in self.prog.all_functions:
            k = self.key(fn)
            try:
                paths = self.w.paths(fn, opts)
            except PathExplosion:
                paths = self.w.paths(fn, WalkOptions(unroll=0, prune=False, callee_raises=False, inline_depth=0,
                                                     max_paths=200000, inline_full=frozenset()))
            seen = set()
            sites, calls, unres = [], [], []
            for p in paths:
                for e in p.events:
                    ident = (e.kind, id(e.node), e.data.get('store'), e.data.get('callee_name'), e.data.get('attr'), repr(e.data.get('loc')))
                    if ident in seen:
                        continue
                    seen.add(ident)
                    if e.kind == 'store':
                        sites.append(WriteSite(fn, e))
                    elif e.kind == 'call':
                        calls.append(e)
                        if e.data.get('target_kind') == 'unknown':
                            unres.append(e)
            self.direct[k] = sites
            self.calls[k] = calls
            self.unresolved[k] = unres
            self.callees[k] = set()
            for c in calls:
                for t in c.data.get('targets', []):
                    self.callees[k].add(self.key(t))
        for k, sites in self.direct.items():
            for s in sites:
                s.owners = frozenset(self.public_roots(s.fn))
                # a site that sits in a helper inlined into a function the documented API cannot reach belongs to whoever else
                # reaches that helper
                inl = getattr(s.ev, 'inlined', ()) or ()
                if inl and s.owners == frozenset({k}) and '#' not in k and self.w.is_new_function(s.fn) \
                        and not any(k in cs for c, cs in self.callees.items() if c != k):
                    h = self.prog.functions.get(inl[-1])
                    if h is not None:
                        others = self.public_roots(h) - {k}
                        if others:
                            s.owners = frozenset(others)

    # ------------------------------------------------------------------ queries
    def all_sites(self) -> List[WriteSite]:
        return [s for v in self.direct.values() for s in v]

    def sites_of(self, loc: Tuple[str, str]) -> List[WriteSite]:
        return [s for s in self.all_sites() if s.loc == loc]

    def sites_of_field(self, field: str) -> List[WriteSite]:
        return [s for s in self.all_sites() if s.loc and s.loc[1] == field]

    def reachable(self, roots: List[FuncInfo]) -> Set[str]:
        seen = set()
        stack = [self.key(r) for r in roots]
        while stack:
            k = stack.pop()
            if k in seen:
                continue
            seen.add(k)
            stack.extend(self.callees.get(k, ()))
        return seen

    def trans_writes(self, fn: FuncInfo) -> List[Tuple[WriteSite, Tuple[str, ...]]]:
        """All shared-state write sites reachable from fn, each with the call chain that reaches it."""
        k0 = self.key(fn)
        if k0 in self._trans:
            return self._trans[k0]
        out = []
        seen = set()
        stack = [(k0, (k0,))]
        while stack:
            k, chain = stack.pop()
            if k in seen:
                continue
            seen.add(k)
            for s in self.direct.get(k, []):
                if s.ev.data.get('shared'):
                    out.append((s, chain))
            # constructor calls: stores into the object under construction are stores into a fresh object
            ctor_targets = set()
            for c in self.calls.get(k, []):
                if c.data.get('via') == 'ctor':
                    for t in c.data.get('targets', []):
                        ctor_targets.add(self.key(t))
            other_targets = set()
            for c in self.calls.get(k, []):
                if c.data.get('via') != 'ctor':
                    for t in c.data.get('targets', []):
                        other_targets.add(self.key(t))
            for c in sorted(self.callees.get(k, ())):
                if c in ctor_targets and c not in other_targets:
                    f_ = self.prog.functions.get(c.split('#')[0])
                    if f_ is not None:
                        out.extend((w, chain + ch) for w, ch in self._ctor_writes(f_, (c,), set()))
                        continue
                stack.append((c, chain + (c,)))
        self._trans[k0] = out
        return out

    def call_writes(self, call_ev: Event) -> List[Tuple[WriteSite, Tuple[str, ...]]]:
        """Shared-state writes a call event may perform through its resolved package targets.  For constructor
        calls the stores into the object under construction (rooted at the callee's own `self`, also through
        super().__init__ chains) are stores into a fresh object and are not counted."""
        out = []
        ctor = call_ev.data.get('via') == 'ctor'
        for t in call_ev.data.get('targets', []):
            if ctor:
                out.extend(self._ctor_writes(t, (self.key(t),), set()))
            else:
                out.extend(self.trans_writes(t))
        return out

    def _ctor_writes(self, fn: FuncInfo, chain, seen):
        k = self.key(fn)
        if k in seen:
            return []
        seen.add(k)
        out = []
        selfname = fn.params[0] if fn.params else None
        for s in self.direct.get(k, []):
            if not s.ev.data.get('shared'):
                continue
            root = s.ev.data.get('root')
            base = root
            from .terms import Attr as _A, Sym as _S
            while isinstance(base, _A):
                base = base.base
            if isinstance(base, _S) and base.name == selfname:
                continue
            out.append((s, chain))
        for c in self.calls.get(k, []):
            via = c.data.get('via')
            from .terms import Sym as _S2
            on_self = via == 'method' and c.data.get('recv') == _S2(selfname)
            for t in c.data.get('targets', []):
                if via in ('super', 'ctor') or on_self:
                    out.extend(self._ctor_writes(t, chain + (self.key(t),), seen))
                else:
                    out.extend([(w, chain + ch) for w, ch in self.trans_writes(t)])
        return out

    def public_roots(self, fn: FuncInfo) -> Set[str]:
        """The non-private functions through which fn is reached when fn is a private helper: fn itself if it is not
        private, otherwise every caller (through chains of private helpers only).  Rules that say "only X may write
        this field" attribute a helper's write sites to these roots, so extracting a helper is not a new writer."""
        def private(k):
            name = k.split('#')[0].rsplit('.', 1)[-1]
            if name.startswith('_') and not name.startswith('__'):
                return True
            f = self.prog.functions.get(k.split('#')[0]) if hasattr(self.prog, 'functions') else None
            return f is not None and '#' not in k and self.w.is_new_function(f)
        k0 = self.key(fn)
        if not private(k0):
            return {k0}
        roots, orphans, seen, stack = set(), set(), set(), [k0]
        while stack:
            k = stack.pop()
            if k in seen:
                continue
            seen.add(k)
            callers = [c for c, cs in self.callees.items() if k in cs and c != k]
            if not callers:
                name = k.split('#')[0].rsplit('.', 1)[-1]
                (roots if (name.startswith('_') and not name.startswith('__')) or k == k0 else orphans).add(k)
            for c in callers:
                if private(c):
                    stack.append(c)
                else:
                    roots.add(c)
        # a public function that is new to the API and that no documented function calls is not reachable from the documented API:
        # a helper it shares with a documented function belongs to that function (a new `update()` built on the constructor's
        # `_update_from`); a site only such additions reach has no other owner and keeps them
        return roots if roots else orphans

    def callers_of(self, fn: FuncInfo) -> List[Tuple[str, Event]]:
        k0 = self.key(fn)
        out = []
        for k, calls in self.calls.items():
            for c in calls:
                if any(self.key(t) == k0 for t in c.data.get('targets', [])):
                    out.append((k, c))
        return out

    def call_stats(self):
        res = sum(1 for v in self.calls.values() for c in v if c.data.get('target_kind') != 'unknown')
        unres = sum(len(v) for v in self.unresolved.values())
        return {'call_events_resolved': res, 'call_events_unresolved': unres}
