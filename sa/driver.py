"""Driver: run one property's static check on /repo's current tree, compare with known findings, run the checker's
self-test (witness mutants analysed in memory), write evidence, print VIOLATION / KNOWN-FINDING lines, exit 0/1/2."""
from __future__ import annotations

import argparse
import hashlib
import importlib
import json
import os
import sys
import time
import traceback
from typing import Dict, List, Optional, Tuple

from .loader import Program, AnalysisError
from .report import Cx, Obligation, load_known, write_evidence, write_replay, VERIF

ALL = [f"C{i:02d}" for i in range(1, 21)]


def prop_module(pid: str):
    return importlib.import_module(f"props.{pid.lower()}")


def analyse(pid: str, prog: Program, tier: str) -> Cx:
    cx = Cx(pid, prog, tier)
    prop_module(pid).run(cx)
    from props.common import check_no_new_protocol_dunders
    check_no_new_protocol_dunders(cx)
    from .types import SEED_DEPENDENTS
    for sp in cx.seed_problems:
        rows = [r for r in getattr(cx.ti, 'bad_seed_rows', []) if f"{r[0]}.{r[1]}:" in sp]
        if any(pid in SEED_DEPENDENTS.get(getattr(cx.ti, 'seed_alias', {}).get(r, r), []) for r in rows) or not rows:
            cx.inconclusive('ENGINE', 'container seed table', sp)
        else:
            cx.note(f"(not relevant to {pid}) {sp}")
    return cx


def analyse_sources(pid: str, sources: Dict[str, str], tier: str = 'quick') -> Tuple[str, List[str], str]:
    """Used for mutants: returns (status, violation keys, detail).  status: ok | violation | inconclusive | error."""
    try:
        prog = Program(sources, root='<mutant>')
        cx = analyse(pid, prog, tier)
    except AnalysisError as e:
        return 'inconclusive', [], f"analysis error: {e}"
    except Exception as e:      # checker crash on a mutant is a checker defect
        return 'error', [], f"{type(e).__name__}: {e}\n{traceback.format_exc(limit=4)}"
    keys = sorted({o.key for o in cx.violations()})
    if keys:
        return 'violation', keys, '; '.join(o.message for o in cx.violations()[:2])
    inc = cx.inconclusives()
    if inc:
        return 'inconclusive', [], '; '.join(o.message for o in inc[:2])
    return 'ok', [], ''


def _mut_worker(args):
    pid, sources, tier = args
    return analyse_sources(pid, sources, tier)


def run_selftest(pid: str, prog: Program, base_keys: List[str], tier: str, jobs: int = 1) -> dict:
    """Apply the catalogue's edit operators for this property to the current sources in memory and check that the
    rules fire on BREAKS operators and stay silent on PRESERVES operators."""
    from mutants.catalog import mutants_for, apply_mutant, reference_ok
    muts = mutants_for(pid, quick_only=(tier == 'quick'))
    res = {'applied': 0, 'killed': 0, 'silent_ok': 0, 'skipped': 0, 'missed': 0, 'failed': [], 'stale': [], 'matrix': []}
    work = []
    for m in muts:
        srcs, why = apply_mutant(m, prog.sources)
        if srcs is None:
            res['skipped'] += 1
            res['matrix'].append({'id': m['id'], 'expect': m['expect'], 'outcome': 'skipped', 'why': why})
            continue
        try:
            for path, s in srcs.items():
                if s is not prog.sources.get(path):
                    compile(s, path, 'exec')
        except SyntaxError as e:
            res['skipped'] += 1
            res['matrix'].append({'id': m['id'], 'expect': m['expect'], 'outcome': 'skipped', 'why': f'does not compile: {e}'})
            continue
        work.append((m, srcs))
    if jobs > 1 and len(work) > 1:
        import multiprocessing as mp
        with mp.get_context('fork').Pool(min(jobs, len(work))) as pool:
            outs = pool.map(_mut_worker, [(pid, s, 'quick') for _, s in work])
    else:
        outs = [_mut_worker((pid, s, 'quick')) for _, s in work]
    # thorough tier: the seeded changes recorded under /verif/seeded (independently written breakages, each confirmed
    # against the real code and the unedited suite) are replayed in memory as further BREAKS operators
    if tier == 'thorough':
        import glob
        from .patch import apply_unified
        seeded = []
        for dd in sorted(glob.glob(os.path.join(VERIF, 'seeded', '*'))):
            try:
                meta = json.load(open(os.path.join(dd, 'meta.json')))
            except Exception:
                continue
            if meta.get('property') != pid:
                continue
            srcs = apply_unified(open(os.path.join(dd, 'patch.diff')).read(), prog.sources)
            name = 'seeded:' + os.path.basename(dd)
            if srcs is None:
                res['skipped'] += 1
                res['matrix'].append({'id': name, 'expect': 'BREAKS', 'outcome': 'skipped', 'why': 'patch does not apply to the current tree'})
                continue
            seeded.append(({'id': name, 'expect': meta.get('expect', 'BREAKS'), 'note': 'seeded change', 'suite': 'passes',
                            'file': None, 'func': None, 'old': '', 'new': ''}, srcs))
        if seeded:
            if jobs > 1 and len(seeded) > 1:
                import multiprocessing as mp
                with mp.get_context('fork').Pool(min(jobs, len(seeded))) as pool:
                    souts = pool.map(_mut_worker, [(pid, s, 'quick') for _, s in seeded])
            else:
                souts = [_mut_worker((pid, s, 'quick')) for _, s in seeded]
            work = work + seeded
            outs = list(outs) + list(souts)
    for (m, srcs), (status, keys, detail) in zip(work, outs):
        res['applied'] += 1
        new_keys = [k for k in keys if k not in base_keys]
        row = {'id': m['id'], 'expect': m['expect'], 'status': status, 'new_keys': new_keys, 'note': m.get('note', ''),
               'suite': m.get('suite', 'unknown')}
        good = False
        if m['expect'] == 'BREAKS':
            good = status == 'violation' and bool(new_keys)
            if good:
                res['killed'] += 1
        elif m['expect'] == 'MISSED':
            # a recorded miss: the change breaks the property but no structural rule of this family sees it (DESIGN.md)
            good = status != 'error'
            if good:
                res['missed'] = res.get('missed', 0) + 1
        elif m['expect'] == 'INCONCLUSIVE':
            # a recorded limit of the rules: the change is outside the verified idioms and is answered with exit 2
            good = status in ('inconclusive', 'violation')
            if good:
                res['killed'] += 1
        else:
            good = status in ('ok', 'violation') and not new_keys and status != 'error'
            if status == 'inconclusive':
                good = False
            if good:
                res['silent_ok'] += 1
        row['outcome'] = 'as-expected' if good else 'UNEXPECTED'
        if not good:
            row['detail'] = detail[:400]
            (res['failed'] if (m['id'].startswith('seeded:') or reference_ok(m, prog.sources)) else res['stale']).append(m['id'])
        res['matrix'].append(row)
    return res


def main(argv=None):
    ap = argparse.ArgumentParser(prog='vcheck')
    ap.add_argument('pid', nargs='?')
    ap.add_argument('--tier', default=os.environ.get('VERIF_TIER', 'quick'), choices=['quick', 'thorough'])
    ap.add_argument('--repo', default=os.environ.get('VERIF_REPO', '/repo'))
    ap.add_argument('--replay')
    ap.add_argument('--no-selftest', action='store_true')
    ap.add_argument('--jobs', type=int, default=int(os.environ.get('VERIF_JOBS', '0') or 0))
    ap.add_argument('--verbose', '-v', action='store_true')
    ap.add_argument('--no-evidence', action='store_true')
    ap.add_argument('--setup', action='store_true')
    a = ap.parse_args(argv)
    sys.path.insert(0, VERIF)
    if a.setup:
        return setup(a)
    if a.replay:
        body = json.load(open(a.replay))
        a.pid = body['property_id']
        return run(a, replay_key=body.get('key'))
    if not a.pid:
        ap.error('property id required')
    return run(a)


def setup(a) -> int:
    """MANIFEST.setup_cmd: nothing to build (stdlib only); parse /repo once and load every rule module and the
    operator catalogue so that a broken installation fails here and not inside a check."""
    try:
        prog = Program.from_repo(a.repo)
        from mutants.catalog import all_mutants
        n = len(all_mutants())
        mods = [p for p in ALL if os.path.exists(os.path.join(VERIF, 'props', p.lower() + '.py'))]
        for p in mods:
            prop_module(p)
        os.makedirs(os.path.join(VERIF, 'evidence'), exist_ok=True)
        print(f"setup ok: {prog.stats()} ; {len(mods)} rule modules ; {n} edit operators")
        return 0
    except Exception as e:
        print(f"setup failed: {type(e).__name__}: {e}")
        return 2


def run(a, replay_key=None) -> int:
    pid = a.pid.upper()
    t0 = time.time()
    jobs = a.jobs or (os.cpu_count() or 1)
    mod = None
    try:
        mod = prop_module(pid)
        prog = Program.from_repo(a.repo)
        cx = analyse(pid, prog, a.tier)
    except AnalysisError as e:
        print(f"ANALYSIS-INCONCLUSIVE property={pid} {e}")
        _evidence_on_error(pid, a, mod, str(e), t0)
        return 2
    except Exception as e:
        from .terms import TooManyRegions
        if isinstance(e, TooManyRegions):
            print(f"ANALYSIS-INCONCLUSIVE property={pid} a guard comparison exceeded the region cap ({e}): the code at an anchor "
                  f"has a shape outside the enumerated idioms")
            _evidence_on_error(pid, a, mod, str(e), t0)
            return 2
        print(f"ANALYSIS-ERROR property={pid} {type(e).__name__}: {e}")
        traceback.print_exc()
        _evidence_on_error(pid, a, mod, f"{type(e).__name__}: {e}", t0)
        return 2

    known = [k for k in load_known() if k.pid == pid and k.status == 'open']
    known_keys = {k.key: k for k in known}
    viol = cx.violations()
    reported, knowns_hit = [], []
    seen = set()
    for o in viol:
        if o.key in seen:
            continue
        seen.add(o.key)
        if o.key in known_keys:
            knowns_hit.append((o, known_keys[o.key]))
        else:
            reported.append(o)
    stale = [k.key for k in known if k.key not in seen]
    inc = cx.inconclusives()

    if replay_key is not None:
        hit = [o for o in viol if o.key == replay_key]
        if hit:
            o = hit[0]
            print(f"REPLAY property={pid} key={replay_key}: still present at {o.where}: {o.message}")
            return 1
        print(f"REPLAY property={pid} key={replay_key}: no longer reported on the current tree")
        return 0

    selftest = None
    if not reported and not a.no_selftest:
        try:
            selftest = run_selftest(pid, prog, sorted(seen), a.tier, jobs=jobs if a.tier == 'thorough' else min(jobs, 8))
        except Exception as e:
            print(f"ANALYSIS-ERROR property={pid} self-test crashed: {type(e).__name__}: {e}")
            traceback.print_exc()
            selftest = {'failed': ['<crash>'], 'matrix': [], 'applied': 0, 'killed': 0, 'silent_ok': 0, 'skipped': 0, 'stale': []}

    stats = dict(prog.stats())
    stats.update(cx.walker.stats)
    stats['modules_sha256'] = prog.digest()
    if cx._effects is not None:
        stats.update(cx.effects.call_stats())
    extra = {}
    if selftest is not None:
        extra['mutants'] = {k: selftest[k] for k in ('applied', 'killed', 'silent_ok', 'skipped', 'missed', 'failed', 'stale')}
        extra['mutant_matrix'] = selftest['matrix']
    if knowns_hit:
        extra['known_findings'] = [{'key': o.key, 'where': o.where, 'text': k.text} for o, k in knowns_hit]
    if stale:
        extra['stale_known_findings'] = stale
    if not a.no_evidence:
        write_evidence(pid, a.tier, cx.obs, cx.floors, cx.notes, prog, stats, time.time() - t0,
                       getattr(mod, 'EXPLANATION', ''), getattr(mod, 'ASSUMPTIONS', []), extra, nviol=len(reported))

    for o, k in knowns_hit:
        print(f"KNOWN-FINDING: property={pid} {k.text} [{o.where}]")
    rc = 0
    for o in reported:
        rp = write_replay(pid, o, prog)
        print(f"{o.where}: {o.rule}: {o.message}")
        print(f"VIOLATION property={pid} replay={rp}")
        rc = 1
    if rc == 0:
        for o in inc:
            print(f"ANALYSIS-INCONCLUSIVE property={pid} {o.rule} {o.instance}: {o.message} [{o.where}]")
            rc = 2
        if selftest and selftest['failed']:
            for mid in selftest['failed']:
                row = next((r for r in selftest['matrix'] if r['id'] == mid), {})
                print(f"ANALYSIS-INCONCLUSIVE property={pid} self-test: operator {mid} expected {row.get('expect')} but the "
                      f"rules answered {row.get('status')} {row.get('new_keys')} {row.get('detail', '')[:200]}")
            rc = 2
    n_ok = sum(1 for o in cx.obs if o.verdict == 'ok')
    if a.verbose:
        for o in cx.obs:
            print(f"  [{o.verdict}] {o.rule} {o.instance} {o.where} {o.message[:160]}")
        if selftest:
            for r in selftest['matrix']:
                print(f"  mutant {r['id']}: expect={r['expect']} -> {r.get('status', r.get('outcome'))} {r.get('new_keys', '')} {r['outcome']}")
    st = ''
    if selftest is not None:
        st = (f"; self-test: {selftest['killed']} breaking edits caught, {selftest['silent_ok']} preserving edits silent, "
              f"{selftest['skipped']} skipped, {len(selftest['failed'])} unexpected")
    print(f"{pid} [{a.tier}] obligations={len(cx.obs)} discharged={n_ok} violations={len(reported)} "
          f"known={len(knowns_hit)} inconclusive={len(inc)}{st} wall={time.time() - t0:.2f}s exit={rc}")
    return rc


def _evidence_on_error(pid, a, mod, msg, t0):
    if a.no_evidence:
        return
    try:
        o = Obligation('ENGINE', 'analysis could not be completed', 'inconclusive', message=msg)
        write_evidence(pid, a.tier, [o], [], [msg], None, {}, time.time() - t0, getattr(mod, 'EXPLANATION', msg) or msg,
                       getattr(mod, 'ASSUMPTIONS', []), None, nviol=0)
    except Exception:
        pass
