"""Nominal type inference (just enough to resolve receivers) and call resolution.

Types are small hashable tuples:
  ('inst', ClassInfo)   instance of a package class        ('cls', ClassInfo)  the class object itself
  ('ext', dotted)       instance of an external class       ('extref', dotted)  an external module/function/class object
  ('func', FuncInfo)    a package function object           ('bound', FuncInfo, recv_type)
  ('partial', FuncInfo, n_pos, kwnames)                     ('super', ClassInfo, self_type)
  ('list', T) ('dict', K, V) ('tuple', (T...)) ('str',) ('int',) ('float',) ('bool',) ('none',) ('type',)
  None                  unknown
"""
from __future__ import annotations

import ast
from dataclasses import dataclass, field
from typing import Dict, List, Optional, Tuple

from .loader import Program, ClassInfo, FuncInfo, ModuleInfo, AnalysisError

# Container element types confirmed by reading (DESIGN.md 3.1); re-validated against the tree on every run:
# the field must exist on the class and be initialised with a literal of the stated container kind.
SEED_CONTAINERS = {
    ('ECAgent.Core.SystemManager', 'execution_queue'): ('list', ('inst', 'ECAgent.Core.System')),
    ('ECAgent.Core.SystemManager', 'systems'): ('dict', ('str',), ('inst', 'ECAgent.Core.System')),
    ('ECAgent.Core.SystemManager', 'component_pools'): ('dict', ('type',), ('list', ('inst', 'ECAgent.Core.Component'))),
    ('ECAgent.Core.Environment', 'agents'): ('dict', ('str',), ('inst', 'ECAgent.Core.Agent')),
    ('ECAgent.Core.Agent', 'components'): ('dict', ('type',), ('inst', 'ECAgent.Core.Component')),
    ('ECAgent.Core._MetaAgent', '_components'): ('dict', ('type',), ('inst', 'ECAgent.Core.Component')),
}

# which properties' rules rely on the element types of a seed row (only they become inconclusive when the row no
# longer describes the tree; a property may instead turn the row into a violation of its own)
SEED_DEPENDENTS = {
    ('ECAgent.Core.SystemManager', 'execution_queue'): ['C01', 'C02', 'C05', 'C06'],
    ('ECAgent.Core.SystemManager', 'systems'): ['C01', 'C05', 'C15'],
    ('ECAgent.Core.SystemManager', 'component_pools'): ['C03'],
    ('ECAgent.Core.Environment', 'agents'): ['C03', 'C04', 'C07', 'C12', 'C13', 'C17'],
    ('ECAgent.Core.Agent', 'components'): ['C03', 'C13', 'C20'],
    ('ECAgent.Core._MetaAgent', '_components'): ['C20'],
}

MUTATORS = {'append', 'insert', 'remove', 'pop', 'clear', 'extend', 'sort', 'reverse', 'update',
            'setdefault', 'popitem', 'add', 'discard', 'drop', 'appendleft', 'popleft'}

BUILTIN_TYPES = {'str': ('str',), 'int': ('int',), 'float': ('float',), 'bool': ('bool',), 'type': ('type',),
                 'list': ('list', None), 'dict': ('dict', None, None), 'tuple': ('tuple', ())}


@dataclass
class CallTarget:
    kind: str                       # 'pkg' | 'ext' | 'unknown' | 'builtin'
    funcs: List[FuncInfo] = field(default_factory=list)
    ext: Optional[str] = None
    via: str = ''                   # 'method' | 'super' | 'func' | 'ctor' | 'partial' | 'byname' | 'local'
    recv: Optional[ast.expr] = None
    recv_type: object = None
    ctor_class: Optional[ClassInfo] = None
    name: str = ''

    @property
    def resolved(self):
        return self.kind in ('pkg', 'ext', 'builtin')


class TypeInfer:
    def __init__(self, prog: Program):
        self.prog = prog
        self._field_owner_cache: Dict[Tuple[str, str], Optional[ClassInfo]] = {}
        self._field_type_cache: Dict[Tuple[str, str], object] = {}
        self._local_cache: Dict[str, Dict[str, object]] = {}
        self._ret_cache: Dict[str, object] = {}
        self._in_progress = set()
        self._class_fields: Dict[str, Dict[str, List[Tuple[FuncInfo, ast.AST]]]] = {}
        self._collect_fields()
        # a private row follows its field when the field is renamed: the row is found through the documented view property
        self.seeds, self.seed_alias = {}, {}
        for (cq, f), t in SEED_CONTAINERS.items():
            g = self._view_field(cq, f) if f.startswith('_') else None
            self.seeds[(cq, g or f)] = t
            self.seed_alias[(cq, g or f)] = (cq, f)

    def _view_field(self, cq: str, f: str) -> Optional[str]:
        """`g` when class `cq` no longer has the private field `f` but its property `f` without the underscore is `return self.g`."""
        ci = self.prog.classes.get(cq)
        if ci is None or f in self._class_fields.get(cq, {}):
            return None
        for m in getattr(ci, 'methods', {}).get(f.lstrip('_'), []):
            if not m.is_property or not m.params:
                continue
            body = [s for s in m.node.body if not (isinstance(s, ast.Expr) and isinstance(s.value, ast.Constant))]
            if len(body) == 1 and isinstance(body[0], ast.Return) and isinstance(body[0].value, ast.Attribute) \
                    and isinstance(body[0].value.value, ast.Name) and body[0].value.value.id == m.params[0]:
                return body[0].value.attr
        return None

    # ------------------------------------------------------------------ fields
    def _self_name(self, fn: FuncInfo) -> Optional[str]:
        if fn.cls is None or fn.is_static:
            return None
        top = fn
        while top.parent is not None:
            top = top.parent
        if top.cls is None or top.is_static:
            return None
        ps = top.params
        return ps[0] if ps else None

    def _collect_fields(self):
        for ci in self.prog.classes.values():
            self._class_fields[ci.qualname] = {}
        for fn in self.prog.all_functions:
            if fn.cls is None or fn.parent is not None:
                continue
            sn = self._self_name(fn)
            if sn is None:
                continue
            for n in ast.walk(fn.node):
                targets = []
                if isinstance(n, ast.Assign):
                    targets = n.targets
                elif isinstance(n, (ast.AugAssign, ast.AnnAssign)):
                    targets = [n.target]
                for t in targets:
                    for tt in (t.elts if isinstance(t, (ast.Tuple, ast.List)) else [t]):
                        if isinstance(tt, ast.Attribute) and isinstance(tt.value, ast.Name) and tt.value.id == sn:
                            self._class_fields[fn.cls.qualname].setdefault(tt.attr, []).append((fn, n))

    def declared_fields(self, ci: ClassInfo) -> Dict[str, List[Tuple[FuncInfo, ast.AST]]]:
        return self._class_fields.get(ci.qualname, {})

    def field_owner(self, ci: ClassInfo, name: str) -> Optional[ClassInfo]:
        """Most-base class in ci's MRO that declares the field (slot or self-assignment)."""
        key = (ci.qualname, name)
        if key in self._field_owner_cache:
            return self._field_owner_cache[key]
        owner = None
        for c in reversed(self.prog.mro(ci)):
            if (c.slots and name in c.slots) or name in self._class_fields.get(c.qualname, {}):
                owner = c
                break
        self._field_owner_cache[key] = owner
        return owner

    def field_init(self, ci: ClassInfo, name: str) -> Optional[Tuple[FuncInfo, ast.expr]]:
        """The initialiser expression of the field in the __init__ of its owner (or nearest class that sets it)."""
        for c in self.prog.mro(ci):
            for fn, node in self._class_fields.get(c.qualname, {}).get(name, []):
                if fn.name == '__init__' and isinstance(node, ast.AnnAssign) and node.value is not None:
                    return fn, node.value
                if fn.name == '__init__' and isinstance(node, ast.Assign):
                    # `self.a, self.b = x, y`: the element assigned to this field
                    sn = self._self_name(fn)
                    for t in node.targets:
                        if isinstance(t, (ast.Tuple, ast.List)) and isinstance(node.value, (ast.Tuple, ast.List)) and \
                                len(t.elts) == len(node.value.elts):
                            for tt, vv in zip(t.elts, node.value.elts):
                                if isinstance(tt, ast.Attribute) and tt.attr == name and isinstance(tt.value, ast.Name) and tt.value.id == sn:
                                    return fn, vv
                    return fn, node.value
        # a constructor split into private steps (`self._init_random(seed)`): the step that sets the field, when __init__ calls it
        for c in self.prog.mro(ci):
            inits = getattr(c, 'methods', {}).get('__init__', [])
            called = set()
            for i0 in inits:
                sn0 = self._self_name(i0)
                for n0 in ast.walk(i0.node):
                    if isinstance(n0, ast.Call) and isinstance(n0.func, ast.Attribute) and isinstance(n0.func.value, ast.Name) \
                            and n0.func.value.id == sn0:
                        called.add(n0.func.attr)
            for fn, node in self._class_fields.get(c.qualname, {}).get(name, []):
                if fn.name in called and fn.name.startswith('_') and isinstance(node, ast.Assign) and len(node.targets) == 1 \
                        and isinstance(node.targets[0], ast.Attribute):
                    return fn, node.value
                if fn.name in called and fn.name.startswith('_') and isinstance(node, ast.AnnAssign) and node.value is not None:
                    return fn, node.value
        return None

    def _seed(self, t):
        if t is None:
            return None
        if t[0] == 'inst' and isinstance(t[1], str):
            return ('inst', self.prog.cls(t[1]))
        if t[0] == 'list':
            return ('list', self._seed(t[1]))
        if t[0] == 'dict':
            return ('dict', self._seed(t[1]), self._seed(t[2]))
        return t

    def field_type(self, ci: ClassInfo, name: str):
        key = (ci.qualname, name)
        if key in self._field_type_cache:
            return self._field_type_cache[key]
        self._field_type_cache[key] = None
        owner = self.field_owner(ci, name)
        res = None
        if owner is not None and (owner.qualname, name) in self.seeds:
            res = self._seed(self.seeds[(owner.qualname, name)])
        else:
            init = self.field_init(ci, name)
            if init is not None:
                fn, expr = init
                res = self.expr_type(expr, fn)
        self._field_type_cache[key] = res
        return res

    def validate_seeds(self) -> List[str]:
        """Seed rows must still describe the tree: field exists and is initialised by a literal of that kind."""
        problems = []
        self.bad_seed_rows = []
        for (cq, f), t in self.seeds.items():
            ci = self.prog.classes.get(cq)
            if ci is None:
                problems.append(f"seed table row {cq}.{f}: class vanished")
                self.bad_seed_rows.append((cq, f))
                continue
            init = self.field_init(ci, f)
            if init is None:
                problems.append(f"seed table row {cq}.{f}: no initialiser found")
                self.bad_seed_rows.append((cq, f))
                continue
            want = ast.List if t[0] == 'list' else ast.Dict
            empty_call = isinstance(init[1], ast.Call) and isinstance(init[1].func, ast.Name) and \
                init[1].func.id == t[0] and not init[1].args and not init[1].keywords
            if not isinstance(init[1], want) and not empty_call:
                self.bad_seed_rows.append((cq, f))
                problems.append(f"seed table row {cq}.{f}: initialiser {ast.unparse(init[1])} is not a {t[0]} literal")
        return problems

    # ------------------------------------------------------------------ annotations
    def annotation_type(self, ann: Optional[ast.expr], mod: ModuleInfo):
        if ann is None:
            return None
        if isinstance(ann, ast.Constant) and isinstance(ann.value, str):
            try:
                ann = ast.parse(ann.value, mode='eval').body
            except SyntaxError:
                return None
        if isinstance(ann, ast.Name):
            if ann.id in BUILTIN_TYPES:
                return BUILTIN_TYPES[ann.id]
            r = self.prog.resolve_name(ann.id, mod)
            if r and r[0] == 'class':
                return ('inst', r[1])
            if r and r[0] == 'ext':
                return ('ext', r[1])
            return None
        if isinstance(ann, ast.Attribute):
            r = self.prog.resolve_expr_static(ann, mod)
            if r and r[0] == 'class':
                return ('inst', r[1])
            if r and r[0] == 'ext':
                return ('ext', r[1])
            return None
        if isinstance(ann, ast.Subscript):
            head = ann.value.id if isinstance(ann.value, ast.Name) else (ann.value.attr if isinstance(ann.value, ast.Attribute) else '')
            if head == 'Optional':
                return self.annotation_type(ann.slice, mod)
            if head == 'Type':
                t = self.annotation_type(ann.slice, mod)
                return ('cls', t[1]) if t and t[0] == 'inst' else None
            if head in ('List', 'list'):
                return ('list', self.annotation_type(ann.slice, mod))
        return None

    # ------------------------------------------------------------------ locals
    def local_types(self, fn: FuncInfo) -> Dict[str, object]:
        if fn.qualname in self._local_cache:
            return self._local_cache[fn.qualname]
        env: Dict[str, object] = {}
        self._local_cache[fn.qualname] = env
        # enclosing function's locals are visible to a nested def
        if fn.parent is not None:
            env.update(self.local_types(fn.parent))
        sn = self._self_name(fn) if fn.parent is None else None
        a = fn.node.args
        for i, p in enumerate(a.posonlyargs + a.args + a.kwonlyargs):
            if i == 0 and sn == p.arg:
                if fn.is_classmethod:
                    env[p.arg] = ('cls', fn.cls)
                else:
                    env[p.arg] = ('inst', fn.cls)
                continue
            t = self.annotation_type(p.annotation, fn.module)
            env[p.arg] = t
        multi = set()

        def bind(name, t):
            if name in multi:
                return
            # `found = None` ... `found = <object>`: an Optional[T] local has the nominal type T
            if t == ('none',) and env.get(name) is not None:
                return
            if env.get(name) == ('none',) and t is not None:
                env[name] = t
                return
            if name in env and env[name] is not None and t is not None and env[name] != t:
                u = self._unify(env[name], t)
                env[name] = u
                if u is None:
                    multi.add(name)
            elif env.get(name) is None:
                env[name] = t

        def bind_target(tgt, t):
            if isinstance(tgt, ast.Name):
                bind(tgt.id, t)
            elif isinstance(tgt, (ast.Tuple, ast.List)):
                for i, e in enumerate(tgt.elts):
                    et = None
                    if t and t[0] == 'tuple' and i < len(t[1]):
                        et = t[1][i]
                    bind_target(e, et)

        for n in self._walk_own(fn.node):
            if isinstance(n, ast.FunctionDef):
                q = f"{fn.qualname}.<locals>.{n.name}"
                if q in self.prog.functions:
                    env[n.name] = ('func', self.prog.functions[q])
        # two passes so later definitions can feed earlier uses in loops
        for _ in range(2):
            for n in self._walk_own(fn.node):
                if isinstance(n, ast.Assign):
                    t = self.expr_type(n.value, fn, env)
                    for tgt in n.targets:
                        bind_target(tgt, t)
                elif isinstance(n, ast.AnnAssign) and n.value is not None:
                    bind_target(n.target, self.annotation_type(n.annotation, fn.module) or self.expr_type(n.value, fn, env))
                elif isinstance(n, ast.MatchAs) and n.name:
                    env.setdefault(n.name, None)        # a capture pattern binds a local
                elif isinstance(n, ast.NamedExpr) and isinstance(n.target, ast.Name):
                    # (name := value) binds a local of the enclosing function
                    t_ = self.expr_type(n.value, fn, env)
                    if n.target.id not in env:
                        env[n.target.id] = t_
                    else:
                        bind(n.target.id, t_)
                elif isinstance(n, (ast.For, ast.comprehension)):
                    it = self.expr_type(n.iter, fn, env)
                    bind_target(n.target, self.elem_type(it, n.iter, fn, env))
                elif isinstance(n, ast.With):
                    for item in n.items:
                        if item.optional_vars is not None:
                            bind_target(item.optional_vars, self.expr_type(item.context_expr, fn, env))
        return env

    @staticmethod
    def _unify(a, b):
        if a == b:
            return a
        if a[0] == 'list' and b[0] == 'list':
            if a[1] is None:
                return b
            if b[1] is None:
                return a
        if a[0] == 'dict' and b[0] == 'dict':
            if a[1] is None and a[2] is None:
                return b
            if b[1] is None and b[2] is None:
                return a
        fa = (a[1],) if a[0] == 'func' else (a[1] if a[0] == 'funcs' else None)
        fb = (b[1],) if b[0] == 'func' else (b[1] if b[0] == 'funcs' else None)
        if fa and fb:
            return ('funcs', tuple(dict.fromkeys(fa + fb)))
        return None

    @staticmethod
    def _walk_own(fnode):
        """Walk a function body without descending into nested defs/lambdas (comprehensions are included)."""
        stack = list(fnode.body)
        while stack:
            n = stack.pop(0)
            yield n
            if isinstance(n, (ast.FunctionDef, ast.AsyncFunctionDef, ast.ClassDef, ast.Lambda)):
                continue
            for c in ast.iter_child_nodes(n):
                stack.append(c)

    def elem_type(self, it, iter_expr=None, fn=None, env=None):
        if it is None:
            # enumerate(x) / range(...)
            if isinstance(iter_expr, ast.Call) and isinstance(iter_expr.func, ast.Name):
                if iter_expr.func.id == 'enumerate' and iter_expr.args:
                    inner = self.expr_type(iter_expr.args[0], fn, env)
                    return ('tuple', (('int',), self.elem_type(inner)))
                if iter_expr.func.id == 'range':
                    return ('int',)
            return None
        if it[0] == 'list':
            return it[1]
        if it[0] == 'dict':
            return it[1]
        if it[0] == 'dictvalues':
            return it[1]
        if it[0] == 'dictitems':
            return ('tuple', (it[1], it[2]))
        if it[0] == 'range':
            return ('int',)
        if it[0] == 'enumerate':
            return ('tuple', (('int',), it[1]))
        if it[0] == 'inst':
            ms = self.prog.lookup_method(it[1], '__iter__')
            if ms:
                rt = self.return_type(ms[0])
                if rt and rt[0] in ('list', 'gen'):
                    return rt[1]
        return None

    # ------------------------------------------------------------------ expressions
    def expr_type(self, e: ast.expr, fn: Optional[FuncInfo], env: Optional[Dict[str, object]] = None, mod: ModuleInfo = None):
        mod = mod or (fn.module if fn else None)
        if env is None and fn is not None:
            env = self.local_types(fn)
        env = env or {}
        if isinstance(e, ast.Constant):
            v = e.value
            if v is None:
                return ('none',)
            if isinstance(v, bool):
                return ('bool',)
            if isinstance(v, int):
                return ('int',)
            if isinstance(v, float):
                return ('float',)
            if isinstance(v, str):
                return ('str',)
            return None
        if isinstance(e, ast.JoinedStr):
            return ('str',)
        if isinstance(e, ast.Name):
            if e.id in env:
                return env[e.id]
            r = self.prog.resolve_name(e.id, mod) if mod else None
            if r is None:
                if e.id in BUILTIN_TYPES:
                    return ('extref', f'builtins.{e.id}')
                return None
            return self._static_type(r)
        if isinstance(e, ast.Attribute):
            bt = self.expr_type(e.value, fn, env, mod)
            return self.attr_type(bt, e.attr)
        if isinstance(e, ast.Subscript):
            bt = self.expr_type(e.value, fn, env, mod)
            if bt is None:
                return None
            if bt[0] == 'dict':
                return bt[2]
            if bt[0] == 'list':
                if isinstance(e.slice, ast.Slice):
                    return bt
                return bt[1]
            if bt[0] == 'tuple' and isinstance(e.slice, ast.Constant) and isinstance(e.slice.value, int):
                i = e.slice.value
                return bt[1][i] if 0 <= i < len(bt[1]) else None
            if bt[0] == 'inst':
                ms = self.prog.lookup_method(bt[1], '__getitem__')
                if ms:
                    return self._refine_by_class_arg(self.return_type(ms[0]), e.slice, fn, env, mod)
            if bt[0] == 'cls':
                meta = self.prog.metaclass_of(bt[1])
                if meta:
                    ms = self.prog.lookup_method(meta, '__getitem__')
                    if ms:
                        return self.return_type(ms[0])
            return None
        if isinstance(e, ast.Call):
            if len(e.args) == 2 and not e.keywords and isinstance(e.func, (ast.Name, ast.Attribute)) and mod is not None:
                nm_ = e.func.id if isinstance(e.func, ast.Name) else e.func.attr
                if nm_ == 'cast':
                    r_ = self.prog.resolve_name(nm_, mod) if isinstance(e.func, ast.Name) else self.prog.resolve_expr_static(e.func, mod)
                    if r_ and r_[0] == 'ext' and r_[1] == 'typing.cast':
                        # typing.cast(T, x): x itself, with the type the author states (falling back to x's own)
                        return self.annotation_type(e.args[0], mod) or self.expr_type(e.args[1], fn, env, mod)
            return self.call_type(e, fn, env, mod)
        if isinstance(e, (ast.List, ast.ListComp)):
            if isinstance(e, ast.List):
                ts = set()
                for x in e.elts:
                    if isinstance(x, ast.Starred):
                        ts.add(self.elem_type(self.expr_type(x.value, fn, env, mod), x.value, fn, env))
                    else:
                        ts.add(self.expr_type(x, fn, env, mod))
                return ('list', ts.pop() if len(ts) == 1 else None)
            env2 = dict(env)
            for g in e.generators:
                it = self.expr_type(g.iter, fn, env2, mod)
                self._bind_comp(g.target, self.elem_type(it, g.iter, fn, env2), env2)
            return ('list', self.expr_type(e.elt, fn, env2, mod))
        if isinstance(e, ast.GeneratorExp):
            env2 = dict(env)
            for g in e.generators:
                it = self.expr_type(g.iter, fn, env2, mod)
                self._bind_comp(g.target, self.elem_type(it, g.iter, fn, env2), env2)
            return ('gen', self.expr_type(e.elt, fn, env2, mod))
        if isinstance(e, (ast.Dict, ast.DictComp)):
            if isinstance(e, ast.Dict):
                ks = {self.expr_type(x, fn, env, mod) for x in e.keys if x is not None}
                vs = {self.expr_type(x, fn, env, mod) for x in e.values}
                return ('dict', ks.pop() if len(ks) == 1 else None, vs.pop() if len(vs) == 1 else None)
            return ('dict', None, None)
        if isinstance(e, ast.Tuple):
            return ('tuple', tuple(self.expr_type(x, fn, env, mod) for x in e.elts))
        if isinstance(e, ast.IfExp):
            a = self.expr_type(e.body, fn, env, mod)
            b = self.expr_type(e.orelse, fn, env, mod)
            if a == b:
                return a
            if a is None or a == ('none',):
                return b
            if b is None or b == ('none',):
                return a
            return None
        if isinstance(e, (ast.Compare, ast.BoolOp)) or (isinstance(e, ast.UnaryOp) and isinstance(e.op, ast.Not)):
            return ('bool',)
        if isinstance(e, ast.BinOp):
            a = self.expr_type(e.left, fn, env, mod)
            b = self.expr_type(e.right, fn, env, mod)
            if a and a[0] == 'list' and isinstance(e.op, (ast.Mult, ast.Add)):
                return a
            if a == ('int',) and b == ('int',) and not isinstance(e.op, ast.Div):
                return ('int',)
            return None
        return None

    def _bind_comp(self, tgt, t, env):
        if isinstance(tgt, ast.Name):
            env[tgt.id] = t
        elif isinstance(tgt, (ast.Tuple, ast.List)):
            for i, x in enumerate(tgt.elts):
                self._bind_comp(x, t[1][i] if t and t[0] == 'tuple' and i < len(t[1]) else None, env)

    def _static_type(self, r):
        kind, obj = r
        if kind == 'class':
            return ('cls', obj)
        if kind == 'func':
            return ('func', obj)
        if kind == 'ext':
            return ('extref', obj)
        if kind == 'module':
            return ('module', obj)
        if kind == 'modattr':
            m, name = obj
            if name in m.assigns:
                return self.expr_type(m.assigns[name], None, {}, m)
            return None
        return None

    def attr_type(self, bt, attr: str):
        if bt is None:
            return None
        k = bt[0]
        if k == 'inst':
            ci = bt[1]
            ms = self.prog.lookup_method(ci, attr)
            owner = self.field_owner(ci, attr)
            if ms and owner is None:
                getter = [m for m in ms if m.is_property]
                if getter:
                    return self.return_type(getter[0])
                return ('bound', ms[0], bt)
            if owner is not None:
                return self.field_type(ci, attr)
            # class-level attribute
            for c in self.prog.mro(ci):
                if attr in c.class_assigns:
                    return self.expr_type(c.class_assigns[attr], None, {}, c.module)
            return None
        if k == 'cls':
            ci = bt[1]
            ms = self.prog.lookup_method(ci, attr)
            if ms:
                return ('bound', ms[0], bt) if not ms[0].is_static else ('func', ms[0])
            for c in self.prog.mro(ci):
                if attr in c.class_assigns:
                    if self.prog.is_enum(ci):
                        return ('inst', ci)
                    return self.expr_type(c.class_assigns[attr], None, {}, c.module)
            meta = self.prog.metaclass_of(ci)
            if meta is not None:
                return self.attr_type(('inst', meta), attr)
            return None
        if k == 'module':
            r = self.prog.resolve_dotted(f"{bt[1].name}.{attr}")
            return self._static_type(r)
        if k == 'extref':
            return ('extref', f"{bt[1]}.{attr}")
        if k == 'ext':
            return ('extmethod', f"{bt[1]}.{attr}", bt)
        if k == 'super':
            ms = self.prog.lookup_method_from(bt[2][1] if bt[2] and bt[2][0] == 'inst' else bt[1], bt[1], attr)
            if ms:
                return ('bound', ms[0], bt[2])
            ext = [b for c in self.prog.mro(bt[1]) for b in c.bases if isinstance(b, str)]
            return ('extmethod', f"{ext[0] if ext else 'builtins.object'}.{attr}", bt[2])
        if k == 'dict':
            if attr == 'values':
                return ('extmethod', 'dict.values', bt)
            if attr == 'items':
                return ('extmethod', 'dict.items', bt)
            if attr == 'keys':
                return ('extmethod', 'dict.keys', bt)
            return ('extmethod', f'dict.{attr}', bt)
        if k == 'list':
            return ('extmethod', f'list.{attr}', bt)
        if k == 'str':
            return ('extmethod', f'str.{attr}', bt)
        return None

    def call_type(self, e: ast.Call, fn, env, mod):
        f = e.func
        if isinstance(f, ast.Name) and f.id == 'super' and not e.args:
            top = fn
            while top is not None and top.parent is not None:
                top = top.parent
            if top is not None and top.cls is not None:
                sn = self._self_name(top)
                return ('super', top.cls, env.get(sn) if sn else None)
        if isinstance(f, ast.Name) and f.id == 'super' and len(e.args) == 2:
            ct = self.expr_type(e.args[0], fn, env, mod)
            st = self.expr_type(e.args[1], fn, env, mod)
            if ct and ct[0] == 'cls':
                return ('super', ct[1], st)
        if isinstance(f, ast.Name) and f.id not in env and (mod is None or self.prog.resolve_name(f.id, mod) is None):
            b = f.id
            if b == 'type' and len(e.args) == 1:
                at = self.expr_type(e.args[0], fn, env, mod)
                if at and at[0] == 'inst':
                    return ('cls', at[1])
                return ('type',)
            if b in ('list', 'tuple'):
                if e.args:
                    at = self.expr_type(e.args[0], fn, env, mod)
                    return ('list', self.elem_type(at, e.args[0], fn, env))
                return ('list', None)
            if b == 'dict':
                return ('dict', None, None)
            if b in ('len', 'int', 'abs'):
                return ('int',) if b != 'abs' else None
            if b == 'str':
                return ('str',)
            if b == 'range':
                return ('range',)
            if b == 'enumerate' and e.args:
                at = self.expr_type(e.args[0], fn, env, mod)
                return ('enumerate', self.elem_type(at, e.args[0], fn, env))
            if b in ('sorted', 'reversed') and e.args:
                at = self.expr_type(e.args[0], fn, env, mod)
                return ('list', self.elem_type(at, e.args[0], fn, env))
            if b == 'open':
                return ('ext', 'io.TextIOWrapper')
            return None
        ft = self.expr_type(f, fn, env, mod)
        if ft is None:
            return None
        k = ft[0]
        if k == 'cls':
            return ('inst', ft[1])
        if k == 'extref':
            d = ft[1]
            if d == 'functools.partial' and e.args:
                inner = self.expr_type(e.args[0], fn, env, mod)
                if inner and inner[0] == 'func':
                    return ('partial', inner[1], len(e.args) - 1, tuple(kw.arg for kw in e.keywords))
                return None
            if d in ('random.Random', 'multiprocessing.Pool', 'pandas.DataFrame'):
                return ('ext', d)
            if d == 'logging.getLogger':
                return ('ext', 'logging.Logger')
            if d.startswith('builtins.'):
                return BUILTIN_TYPES.get(d.split('.')[1])
            return None
        if k == 'func':
            return self.return_type(ft[1])
        if k == 'bound':
            rt = self.return_type(ft[1])
            if e.args:
                rt = self._refine_by_class_arg(rt, e.args[0], fn, env, mod)
            return rt
        if k == 'partial':
            return self.return_type(ft[1])
        if k == 'extmethod':
            d = ft[1]
            if d == 'dict.values':
                return ('dictvalues', ft[2][2])
            if d == 'dict.items':
                return ('dictitems', ft[2][1], ft[2][2])
            if d == 'dict.keys':
                return ('dict', ft[2][1], ft[2][2])
            if d in ('dict.get', 'dict.pop'):
                return ft[2][2]
            if d == 'list.copy':
                return ft[2]
            if d == 'list.pop':
                return ft[2][1]
            return None
        return None

    def _refine_by_class_arg(self, rt, arg: ast.expr, fn, env, mod):
        """agent[T] / agent.get_component(T): a lookup keyed by a class yields an instance of that class."""
        if rt and rt[0] == 'inst':
            at = self.expr_type(arg, fn, env, mod)
            if at and at[0] == 'cls' and self.prog.is_subclass(at[1], rt[1]):
                return ('inst', at[1])
        return rt

    def return_type(self, f: FuncInfo):
        q = f.qualname + ('#setter' if f.is_setter else '')
        if q in self._ret_cache:
            return self._ret_cache[q]
        if q in self._in_progress:
            return None
        self._in_progress.add(q)
        try:
            t = self.annotation_type(f.node.returns, f.module)
            if t is None or t == ('list', None):
                ts = set()
                for n in self._walk_own(f.node):
                    if isinstance(n, ast.Return) and n.value is not None:
                        rt = self.expr_type(n.value, f)
                        if rt != ('none',):
                            ts.add(rt)
                ts.discard(None) if len(ts) > 1 else None
                t2 = ts.pop() if len(ts) == 1 else None
                t = t2 if t2 is not None else t
            self._ret_cache[q] = t
            return t
        finally:
            self._in_progress.discard(q)

    # ------------------------------------------------------------------ calls
    def resolve_call(self, call: ast.Call, fn: Optional[FuncInfo], env=None, mod=None) -> CallTarget:
        mod = mod or (fn.module if fn else None)
        if env is None and fn is not None:
            env = self.local_types(fn)
        env = env or {}
        f = call.func
        name = f.attr if isinstance(f, ast.Attribute) else (f.id if isinstance(f, ast.Name) else '')
        # builtins
        if isinstance(f, ast.Name) and f.id not in env and (mod is None or self.prog.resolve_name(f.id, mod) is None):
            # nested function of the enclosing def?
            top = fn
            while top is not None:
                q = f"{top.qualname}.<locals>.{f.id}"
                if q in self.prog.functions:
                    return CallTarget('pkg', [self.prog.functions[q]], via='local', name=name)
                top = top.parent
            return CallTarget('builtin', ext=f'builtins.{f.id}', via='func', name=name)
        ft = self.expr_type(f, fn, env, mod)
        recv = f.value if isinstance(f, ast.Attribute) else None
        if ft is not None:
            k = ft[0]
            if k == 'cls':
                ci = ft[1]
                ms = self.prog.lookup_method(ci, '__init__')
                return CallTarget('pkg', list(ms[:1]), via='ctor', ctor_class=ci, name=ci.name)
            if k == 'func':
                return CallTarget('pkg', [ft[1]], via='func', name=name)
            if k == 'funcs':
                return CallTarget('pkg', list(ft[1]), via='func', name=name)
            if k == 'bound':
                m = ft[1]
                funcs = [m]
                rt = ft[2]
                via = 'method'
                if isinstance(recv, ast.Call) and isinstance(recv.func, ast.Name) and recv.func.id == 'super':
                    via = 'super'
                elif rt and rt[0] == 'inst' and m.cls is not None:
                    # class-hierarchy analysis: overrides in package subclasses of the receiver's static class
                    for sub in self.prog.subclasses(rt[1], strict=True):
                        if m.name in sub.methods and sub.methods[m.name][0] not in funcs:
                            funcs.append(sub.methods[m.name][0])
                return CallTarget('pkg', funcs, via=via, recv=recv, recv_type=rt, name=name)
            if k == 'partial':
                return CallTarget('pkg', [ft[1]], via='partial', name=name)
            if k == 'extref':
                return CallTarget('ext', ext=ft[1], via='func', recv=recv, name=name)
            if k == 'extmethod':
                return CallTarget('ext', ext=ft[1], via='method', recv=recv, recv_type=ft[2], name=name)
        # receiver known to be an external instance but attr_type had no row
        if recv is not None:
            rt = self.expr_type(recv, fn, env, mod)
            if rt is not None and rt[0] in ('ext',):
                return CallTarget('ext', ext=f"{rt[1]}.{name}", via='method', recv=recv, recv_type=rt, name=name)
            if rt is None:
                # by-name fallback: a method name defined in exactly one class hierarchy of the package
                cands = [c for c in self.prog.classes.values() if name in c.methods]
                if cands:
                    roots = [c for c in cands if not any(o != c and o in self.prog.mro(c) for o in cands)]
                    if len(roots) == 1:
                        funcs = [c.methods[name][0] for c in cands]
                        funcs.sort(key=lambda m: 0 if m.cls == roots[0] else 1)
                        return CallTarget('pkg', funcs, via='byname', recv=recv, name=name)
        return CallTarget('unknown', via='', recv=recv, name=name)
