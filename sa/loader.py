"""Program model: modules, imports, classes (MRO), functions, fields.

Everything here is computed from source text with the stdlib `ast` module.  The analysed package is
never imported or executed (DESIGN.md G1/G2).
"""
from __future__ import annotations

import ast
import hashlib
import os
from dataclasses import dataclass, field
from typing import Dict, List, Optional, Tuple


class AnalysisError(Exception):
    """The analysis cannot proceed (vanished anchor, unparsable file, unsupported shape) -> exit 2."""


def _strip_docstring(body):
    if body and isinstance(body[0], ast.Expr) and isinstance(body[0].value, ast.Constant) \
            and isinstance(body[0].value.value, str):
        return body[1:]
    return body


@dataclass
class FuncInfo:
    name: str
    qualname: str            # e.g. ECAgent.Core.SystemManager.add_system
    node: ast.FunctionDef
    module: "ModuleInfo"
    cls: Optional["ClassInfo"] = None
    parent: Optional["FuncInfo"] = None      # for nested functions
    decorators: List[str] = field(default_factory=list)

    @property
    def is_static(self):
        return 'staticmethod' in self.decorators

    @property
    def is_classmethod(self):
        return 'classmethod' in self.decorators

    @property
    def is_property(self):
        return 'property' in self.decorators

    @property
    def is_setter(self):
        return any(d.endswith('.setter') for d in self.decorators)

    @property
    def body(self):
        return _strip_docstring(self.node.body)

    @property
    def params(self) -> List[str]:
        a = self.node.args
        return [x.arg for x in a.posonlyargs + a.args]

    @property
    def kwonly(self) -> List[str]:
        return [x.arg for x in self.node.args.kwonlyargs]

    @property
    def vararg(self) -> Optional[str]:
        return self.node.args.vararg.arg if self.node.args.vararg else None

    def param_default(self, name) -> Optional[ast.expr]:
        a = self.node.args
        pos = a.posonlyargs + a.args
        nd = len(a.defaults)
        for i, p in enumerate(pos):
            if p.arg == name:
                j = i - (len(pos) - nd)
                return a.defaults[j] if j >= 0 else None
        for p, d in zip(a.kwonlyargs, a.kw_defaults):
            if p.arg == name:
                return d
        return None

    def param_annotation(self, name) -> Optional[ast.expr]:
        a = self.node.args
        for p in a.posonlyargs + a.args + a.kwonlyargs:
            if p.arg == name:
                return p.annotation
        return None

    @property
    def where(self):
        return f"{self.module.relpath}:{self.node.lineno}"

    def __hash__(self):
        return hash(self.qualname)

    def __eq__(self, other):
        return isinstance(other, FuncInfo) and other.qualname == self.qualname

    def __repr__(self):
        return f"<Func {self.qualname}>"


@dataclass
class ClassInfo:
    name: str
    qualname: str
    node: ast.ClassDef
    module: "ModuleInfo"
    base_exprs: List[ast.expr] = field(default_factory=list)
    bases: List[object] = field(default_factory=list)    # ClassInfo or dotted external name
    metaclass: Optional[object] = None
    methods: Dict[str, List[FuncInfo]] = field(default_factory=dict)   # name -> defs (getter/setter share a name)
    class_assigns: Dict[str, ast.expr] = field(default_factory=dict)
    slots: Optional[List[str]] = None

    def __hash__(self):
        return hash(self.qualname)

    def __eq__(self, other):
        return isinstance(other, ClassInfo) and other.qualname == self.qualname

    def __repr__(self):
        return f"<Class {self.qualname}>"

    @property
    def where(self):
        return f"{self.module.relpath}:{self.node.lineno}"


@dataclass
class ModuleInfo:
    name: str                # ECAgent.Core
    relpath: str             # ECAgent/Core.py
    source: str
    tree: ast.Module
    sha256: str
    imports: Dict[str, str] = field(default_factory=dict)      # alias -> dotted target
    functions: Dict[str, FuncInfo] = field(default_factory=dict)
    classes: Dict[str, ClassInfo] = field(default_factory=dict)
    assigns: Dict[str, ast.expr] = field(default_factory=dict)  # module-level NAME = expr

    def line(self, lineno: int) -> str:
        lines = self.source.splitlines()
        return lines[lineno - 1].strip() if 0 < lineno <= len(lines) else ''


def _decorator_name(d: ast.expr) -> str:
    if isinstance(d, ast.Call):
        d = d.func
    parts = []
    while isinstance(d, ast.Attribute):
        parts.append(d.attr)
        d = d.value
    if isinstance(d, ast.Name):
        parts.append(d.id)
    return '.'.join(reversed(parts))


class Program:
    """The analysed package.  `sources` maps repo-relative paths to source text."""

    PACKAGE = 'ECAgent'

    def __init__(self, sources: Dict[str, str], root: str = '<memory>'):
        self.root = root
        self.sources = dict(sources)
        self.modules: Dict[str, ModuleInfo] = {}
        self.classes: Dict[str, ClassInfo] = {}
        self.functions: Dict[str, FuncInfo] = {}
        self.all_functions: List[FuncInfo] = []       # including nested
        for relpath in sorted(sources):
            self._load_module(relpath, sources[relpath])
        self._resolve_classes()

    # ------------------------------------------------------------------ loading
    @classmethod
    def read_sources(cls, root: str) -> Dict[str, str]:
        out = {}
        pkgdir = os.path.join(root, cls.PACKAGE)
        if not os.path.isfile(os.path.join(pkgdir, '__init__.py')):
            raise AnalysisError(f"package directory {pkgdir} with __init__.py not found")
        for dirpath, dirnames, filenames in os.walk(pkgdir):
            dirnames[:] = sorted(d for d in dirnames if os.path.isfile(os.path.join(dirpath, d, '__init__.py')))
            for fn in sorted(filenames):
                if fn.endswith('.py'):
                    p = os.path.join(dirpath, fn)
                    with open(p, 'r', encoding='utf-8', newline='') as fh:
                        out[os.path.relpath(p, root)] = fh.read()
        return out

    @classmethod
    def from_repo(cls, root: str) -> "Program":
        return cls(cls.read_sources(root), root=root)

    def _load_module(self, relpath: str, source: str):
        modname = relpath[:-3].replace(os.sep, '.').replace('/', '.')
        if modname.endswith('.__init__'):
            modname = modname[:-9]
        try:
            tree = ast.parse(source, filename=relpath)
            from .normalise import normalise_module
            normalise_module(tree)
            compile(source, relpath, 'exec')      # "does it still build" (compile only, never exec)
        except SyntaxError as e:
            raise AnalysisError(f"{relpath} does not parse: {e}")
        mod = ModuleInfo(modname, relpath, source, tree, hashlib.sha256(source.encode()).hexdigest())
        self.modules[modname] = mod
        for st in tree.body:
            if isinstance(st, ast.Import):
                for a in st.names:
                    mod.imports[a.asname or a.name.split('.')[0]] = a.name if a.asname else a.name.split('.')[0]
            elif isinstance(st, ast.ImportFrom):
                base = st.module or ''
                for a in st.names:
                    mod.imports[a.asname or a.name] = f"{base}.{a.name}"
            elif isinstance(st, (ast.FunctionDef, ast.AsyncFunctionDef)):
                self._add_function(st, mod, None, None)
            elif isinstance(st, ast.ClassDef):
                self._add_class(st, mod)
            elif isinstance(st, ast.Assign):
                for t in st.targets:
                    if isinstance(t, ast.Name):
                        mod.assigns[t.id] = st.value
            elif isinstance(st, ast.AnnAssign) and isinstance(st.target, ast.Name) and st.value is not None:
                mod.assigns[st.target.id] = st.value

    def _add_function(self, node, mod, cls, parent) -> FuncInfo:
        if isinstance(node, ast.AsyncFunctionDef):
            raise AnalysisError(f"{mod.relpath}:{node.lineno}: async functions are not supported by the CFG builder")
        if cls is not None and parent is None:
            q = f"{cls.qualname}.{node.name}"
        elif parent is not None:
            q = f"{parent.qualname}.<locals>.{node.name}"
        else:
            q = f"{mod.name}.{node.name}"
        fi = FuncInfo(node.name, q, node, mod, cls, parent, [_decorator_name(d) for d in node.decorator_list])
        self.all_functions.append(fi)
        if parent is None:
            if cls is None:
                mod.functions[node.name] = fi
                self.functions[q] = fi
            else:
                cls.methods.setdefault(node.name, []).append(fi)
                # property setter gets a distinct key so both are addressable
                key = q + ('#setter' if fi.is_setter else '')
                self.functions[key] = fi
        else:
            if q in self.functions and self.functions[q].node is not node:
                # a second nested def of the same name (one per branch): addressable by its line
                q2 = f"{q}@{node.lineno}"
                fi.qualname = q2
                self.functions[q2] = fi
            else:
                self.functions[q] = fi
        # nested defs
        for sub in ast.walk(node):
            if sub is node:
                continue
            if isinstance(sub, (ast.FunctionDef, ast.AsyncFunctionDef)) and self._direct_parent_func(node, sub):
                self._add_function(sub, mod, cls, fi)
        return fi

    @staticmethod
    def _direct_parent_func(outer, inner) -> bool:
        # inner is nested directly in outer (not inside another nested def)
        stack = list(ast.iter_child_nodes(outer))
        while stack:
            n = stack.pop()
            if n is inner:
                return True
            if isinstance(n, (ast.FunctionDef, ast.AsyncFunctionDef, ast.ClassDef, ast.Lambda)):
                continue
            stack.extend(ast.iter_child_nodes(n))
        return False

    def _add_class(self, node: ast.ClassDef, mod: ModuleInfo):
        ci = ClassInfo(node.name, f"{mod.name}.{node.name}", node, mod, list(node.bases))
        for kw in node.keywords:
            if kw.arg == 'metaclass':
                ci.metaclass = kw.value
        mod.classes[node.name] = ci
        self.classes[ci.qualname] = ci
        for st in node.body:
            if isinstance(st, (ast.FunctionDef, ast.AsyncFunctionDef)):
                self._add_function(st, mod, ci, None)
            elif isinstance(st, ast.Assign):
                for t in st.targets:
                    if isinstance(t, (ast.Tuple, ast.List)) and isinstance(st.value, (ast.Tuple, ast.List)) and len(t.elts) == len(st.value.elts):
                        for te, ve in zip(t.elts, st.value.elts):       # MIN, MAX = 0, 1
                            if isinstance(te, ast.Name):
                                ci.class_assigns[te.id] = ve
                    if isinstance(t, ast.Name):
                        ci.class_assigns[t.id] = st.value
                        if t.id == '__slots__' and isinstance(st.value, (ast.List, ast.Tuple)):
                            ci.slots = [e.value for e in st.value.elts if isinstance(e, ast.Constant)]
            elif isinstance(st, ast.AnnAssign) and isinstance(st.target, ast.Name) and st.value is not None:
                ci.class_assigns[st.target.id] = st.value

    def _resolve_classes(self):
        for ci in self.classes.values():
            ci.bases = []
            for b in ci.base_exprs:
                r = self.resolve_expr_static(b, ci.module)
                ci.bases.append(r[1] if r and r[0] == 'class' else (r[1] if r else ast.unparse(b)))
            if isinstance(ci.metaclass, ast.expr):
                r = self.resolve_expr_static(ci.metaclass, ci.module)
                ci.metaclass = r[1] if r and r[0] == 'class' else None

    # ------------------------------------------------------------------ name resolution
    def resolve_dotted(self, dotted: str):
        """dotted name -> ('class', ClassInfo) | ('func', FuncInfo) | ('module', ModuleInfo) | ('ext', dotted)."""
        if dotted in self.classes:
            return ('class', self.classes[dotted])
        if dotted in self.functions:
            return ('func', self.functions[dotted])
        if dotted in self.modules:
            return ('module', self.modules[dotted])
        # attribute of a package module (module-level constant)
        head, _, tail = dotted.rpartition('.')
        if head in self.modules and tail in self.modules[head].assigns:
            return ('modattr', (self.modules[head], tail))
        if head in self.modules:
            return ('modattr', (self.modules[head], tail))
        return ('ext', dotted)

    def resolve_name(self, name: str, mod: ModuleInfo):
        if name in mod.classes:
            return ('class', mod.classes[name])
        if name in mod.functions:
            return ('func', mod.functions[name])
        if name in mod.imports:
            return self.resolve_dotted(mod.imports[name])
        if name in mod.assigns:
            return ('modattr', (mod, name))
        return None

    def resolve_expr_static(self, e: ast.expr, mod: ModuleInfo):
        """Resolve Name / dotted Attribute chains that denote module-level objects."""
        if isinstance(e, ast.Name):
            return self.resolve_name(e.id, mod)
        if isinstance(e, ast.Attribute):
            base = self.resolve_expr_static(e.value, mod)
            if base is None:
                return None
            kind, obj = base
            if kind == 'ext':
                return ('ext', f"{obj}.{e.attr}")
            if kind == 'module':
                return self.resolve_dotted(f"{obj.name}.{e.attr}")
            if kind == 'class':
                ms = self.lookup_method(obj, e.attr)
                if ms:
                    return ('func', ms[0])
                if e.attr in obj.class_assigns:
                    return ('classattr', (obj, e.attr))
                return ('classattr', (obj, e.attr))
        return None

    # ------------------------------------------------------------------ classes
    def mro(self, ci: ClassInfo) -> List[ClassInfo]:
        # C3 over package classes (external bases are dropped)
        def merge(seqs):
            res = []
            seqs = [list(s) for s in seqs if s]
            while seqs:
                for s in seqs:
                    cand = s[0]
                    if not any(cand in t[1:] for t in seqs):
                        break
                else:
                    raise AnalysisError(f"inconsistent MRO for {ci.qualname}")
                res.append(cand)
                seqs = [[x for x in s if x != cand] for s in seqs]
                seqs = [s for s in seqs if s]
            return res
        bases = [b for b in ci.bases if isinstance(b, ClassInfo)]
        return [ci] + merge([self.mro(b) for b in bases] + [bases])

    def subclasses(self, ci: ClassInfo, strict=False) -> List[ClassInfo]:
        out = []
        for c in self.classes.values():
            if ci in self.mro(c) and not (strict and c == ci):
                out.append(c)
        return out

    def is_subclass(self, a: ClassInfo, b: ClassInfo) -> bool:
        return b in self.mro(a)

    def lookup_method(self, ci: ClassInfo, name: str) -> List[FuncInfo]:
        for c in self.mro(ci):
            if name in c.methods:
                return c.methods[name]
        return []

    def lookup_method_from(self, ci: ClassInfo, after: ClassInfo, name: str) -> List[FuncInfo]:
        """super() lookup: first definition after `after` in ci's MRO."""
        m = self.mro(ci)
        if after in m:
            m = m[m.index(after) + 1:]
        for c in m:
            if name in c.methods:
                return c.methods[name]
        return []

    def metaclass_of(self, ci: ClassInfo) -> Optional[ClassInfo]:
        for c in self.mro(ci):
            if isinstance(c.metaclass, ClassInfo):
                return c.metaclass
        return None

    def is_exception_class(self, ci: ClassInfo) -> bool:
        for c in self.mro(ci):
            for b in c.bases:
                if isinstance(b, str) and b.split('.')[-1] in ('Exception', 'BaseException'):
                    return True
        return False

    # ------------------------------------------------------------------ lookup helpers (anchors)
    def func(self, qualname: str) -> FuncInfo:
        f = self.functions.get(qualname)
        if f is None:
            raise AnalysisError(f"anchor vanished: function {qualname} not found in {self.root}")
        return f

    def cls(self, qualname: str) -> ClassInfo:
        c = self.classes.get(qualname)
        if c is None:
            raise AnalysisError(f"anchor vanished: class {qualname} not found in {self.root}")
        return c

    def has_func(self, qualname: str) -> bool:
        return qualname in self.functions

    def enum_members(self, ci: ClassInfo) -> Dict[str, object]:
        out = {}
        for k, v in ci.class_assigns.items():
            if isinstance(v, ast.Constant) and not k.startswith('_'):
                out[k] = v.value
            elif isinstance(v, ast.UnaryOp) and isinstance(v.op, ast.USub) and isinstance(v.operand, ast.Constant):
                out[k] = -v.operand.value
        return out

    def is_enum(self, ci: ClassInfo) -> bool:
        for c in self.mro(ci):
            for b in c.bases:
                if isinstance(b, str) and b.split('.')[-1] in ('IntEnum', 'Enum', 'IntFlag'):
                    return True
        return False

    def digest(self) -> Dict[str, str]:
        return {m.relpath: m.sha256 for m in self.modules.values()}

    def stats(self) -> Dict[str, int]:
        ncalls = sum(1 for m in self.modules.values() for n in ast.walk(m.tree) if isinstance(n, ast.Call))
        return {'modules': len(self.modules), 'classes': len(self.classes),
                'functions': len(self.all_functions), 'call_sites': ncalls}
