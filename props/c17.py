"""C17 - collectors record faithfully: nothing invented, altered, lost or duplicated."""
from __future__ import annotations

from fractions import Fraction

from sa.report import Cx
from sa.walker import WalkOptions
from sa.terms import (Sym, Attr, Sub, App, Num, Const, Fresh, TupleT, CompInfo, AIs, ATruthy, f_and, f_not, implies, compare, mk_cmp, add)
from .common import CORE, COLL, check_forwarding_chain, const_default, order_class, strip_versions

PID = 'C17'
EXPLANATION = (
    "AgentCollector.collect: the record is a dict allocated in the activation (R-FRESH, so earlier records cannot be "
    "altered) and R-DISC on Collector.records allows only tail append of such an object and clear(); the loop iterates the "
    "live model.environment.agents; agentFunc's result is stored under the agent's key exactly when it `is not None` "
    "(R-NONE), `timestep` exactly when includeTimestep with value SystemManager.timestep, the composite result updates the "
    "record when not None, and the append is guarded by non-emptiness; constructor arguments reach the fields collect "
    "reads. Default schedule: collectors default to a priority below System's (C01 then puts them behind default systems). "
    "FileCollector.execute (R-ORDER + R-GUARD, counter tracked symbolically as k / k+1): collection precedes the flush "
    "decision, the counter is incremented by exactly 1, the flush test is k + 1 > write_count, on the flush path the "
    "counter is reset to 0, write_records() is called exactly once and clear() - guarded by clear_records_on_write - "
    "follows it; otherwise nothing is written, reset or cleared. write_records opens filename with filemode, writes every "
    "held record in list order (one write per element) and closes. Not decided: on-disk state at a crash point.")
EXPLANATION += (" Premises: C01, C05 and C02 (one execute per scheduled timestep, after the timestep's systems). The record may be allocated with its timestep entry and the agents pass may be one dict comprehension merged by update().")
EXPLANATION += (' Collector.records is appended only by functions whose documented root is a collect() method.')
EXPLANATION += (' Whether the timestep is recorded is decided by the truth value of includeTimestep on every path.')
EXPLANATION += (' Collector.execute calls collect() exactly once on every path.')
EXPLANATION += (' Whether the composite result is merged is decided by `is None`.')
ASSUMPTIONS = ["OS/file-system behaviour between open and close is not decided (crash-point part of the quantifier)",
               "write_count is a non-negative integer"]

RLOC = (COLL + 'Collector', 'records')


def run(cx: Cx):
    # ------------------------------------------------------------ R-DISC on records
    sites = cx.effects.sites_of(RLOC)
    for s in sites:
        v = s.ev.data.get('value')
        if s.kind == 'rebind' and s.owner_q == COLL + 'Collector.__init__' and isinstance(v, Fresh) and v.kind == 'list' and not v.items:
            cx.ok('R-DISC', 'records start as a fresh empty list', where=s.where, function=s.fn.qualname)
        elif s.kind == 'append' and not all(o.rsplit('.', 1)[-1].split('#')[0] == 'collect' for o in (s.owners or [s.owner_q])):
            # one record per scheduled timestep: the record is appended by collect(), once; an execute() that also appends what
            # collect() returns doubles the records of every collector whose collect() returns its record as well
            cx.violation('R-DISC', s.fn.qualname, 'records-appended-by-collect-only',
                         f"{s.describe()}: records are appended outside collect() (reached from {sorted(s.owners or [s.owner_q])}): a "
                         f"collector whose collect() already appends holds two records for that timestep", where=s.where)
        elif s.kind in ('append', 'clear'):
            cx.ok('R-DISC', f"records.{s.kind}", where=s.where, function=s.fn.qualname)
        else:
            cx.violation('R-DISC', s.fn.qualname, f"records-{s.kind}", f"{s.describe()}: held records may only grow by tail append and be "
                         f"cleared after a flush; '{s.kind}' can alter, reorder or drop earlier records", where=s.where)
    cx.floor('Collector.records write sites', len(sites), 3)

    # ------------------------------------------------------------ AgentCollector.collect
    col = cx.fn(COLL + 'AgentCollector.collect')
    self_s = Sym(col.params[0])
    agents = Attr(Attr(Attr(self_s, 'model'), 'environment'), 'agents')
    reported = set()

    def viol(rule, missing, msg, where, **kw):
        if missing not in reported:
            reported.add(missing)
            cx.violation(rule, col.qualname, missing, msg, where=where, **kw)
    n = 0
    for p in cx.walker.paths(col, WalkOptions(unroll=1, callee_raises=False)):
        if p.end == 'raise':
            continue
        n += 1
        evs = p.events
        apps = [e for e in evs if e.kind == 'store' and e.data.get('loc') == RLOC]
        recs = [e.data.get('value') for e in evs if e.kind == 'assign' and isinstance(e.data.get('value'), Fresh) and e.data['value'].kind in ('dict', 'call:dict')]
        recs = [r for i_, r in enumerate(recs) if not any(r is q for q in recs[:i_])]   # a helper's `d = {}; return d` is one allocation
        seeded = False
        if len(recs) == 1 and recs[0].items and all(isinstance(it_, TupleT) and len(it_.items) == 2 and it_.items[0] == Const('timestep')
                                                    for it_ in recs[0].items) and len(recs[0].items) == 1:
            seeded = True       # the record is allocated with its timestep entry: {'timestep': t}
        if len(recs) != 1 or (recs[0].items and not seeded):
            viol('R-FRESH', 'fresh-record-per-collection', f"collect() must start from a new empty dict on every call (found {recs!r})", cx.where(col))
            continue
        D = recs[0]
        # timestep
        ts = [e for e in evs if e.kind == 'store' and strip_versions(e.data.get('target')) == D and e.data.get('key') == Const('timestep')]
        if seeded:
            class _Seed:            # the allocation plays the role of the store D['timestep'] = value
                data = {'value': D.items[0].items[1]}
            ts = [_Seed()] + ts
        inc = ATruthy(Attr(self_s, 'includeTimestep'))
        want_ts = Attr(Attr(Attr(self_s, 'model'), 'systems'), 'timestep')
        alt_ts = Attr(Attr(self_s, 'model'), 'timestep')
        if implies(p.cond, inc) is None:
            if not (len(ts) == 1 and ts[0].data.get('value') in (want_ts, alt_ts)):
                viol('R-GUARD', 'timestep-recorded-when-configured', "with includeTimestep the record must hold the scheduler's timestep", cx.where(col))
        elif implies(p.cond, f_not(inc)) is None:
            if ts:
                viol('R-GUARD', 'timestep-recorded-when-configured', "a timestep is recorded although includeTimestep is off", cx.where(col))
        else:
            # the path has not decided the TRUTH VALUE of the flag (`is True`, `== 1`, ...): a truthy flag that is not the literal
            # True (1, numpy.bool_) is then treated as off
            viol('R-GUARD', 'timestep-recorded-when-configured',
                 f"whether the timestep is recorded is not decided by the truth value of includeTimestep on a path [{p.cond!r}]: a truthy "
                 f"flag other than the literal True (1, numpy.bool_(True)) no longer records it", cx.where(col))
        # agents loop
        agent_update = None
        loops = [e for e in evs if e.kind == 'loop']
        al = [lp for lp in loops if order_class(lp.data.get('iter'), agents) != 'unrelated']
        if not al:
            # the pass over the agents written as one dictionary comprehension merged into the record:
            # D.update({key: r for key in agents if (r := agentFunc(agents[key])) is not None})
            ups = [e for e in evs if e.kind == 'store' and strip_versions(e.data.get('target')) == D and e.data.get('store') == 'update'
                   and e.data.get('args') and isinstance(e.data['args'][0], Fresh) and e.data['args'][0].kind == 'dictcomp']
            okc = False
            if len(ups) == 1:
                dc = ups[0].data['args'][0]
                d = dc.detail
                if isinstance(d, CompInfo) and len(d.gens) == 1 and order_class(d.gens[0][1], agents) == 'inorder':
                    tgt, src, conds = d.gens[0]
                    ssrc = strip_versions(src)
                    if ssrc == agents:
                        key, ag = tgt, Sub(agents, tgt)
                    elif isinstance(tgt, TupleT) and len(tgt.items) == 2:
                        key, ag = tgt.items
                    else:
                        key, ag = None, None
                    calls = [e for e in evs if e.kind == 'call' and e.data.get('args') == (ag,) and
                             ((e.data.get('callee_name') == '.agentFunc' and e.data.get('recv') == self_s) or
                              strip_versions(e.data.get('func_term')) == Attr(self_s, 'agentFunc'))]
                    if key is not None and len(calls) == 1:
                        res = calls[0].data.get('result')
                        from sa.terms import compare as _cmp
                        okc = d.key == key and d.elt == res and _cmp(f_and(*conds), f_not(AIs(res, Const(None)))) is None
            if okc:
                agent_update = ups[0]
            else:
                viol('R-ITER', 'one-pass-over-the-live-agents', f"collect() must make one pass over model.environment.agents (found "
                     f"{[repr(l.data.get('iter')) for l in loops]})", cx.where(col))
                continue
        elif len(al) != 1 or order_class(al[0].data.get('iter'), agents) != 'inorder':
            viol('R-ITER', 'one-pass-over-the-live-agents', f"collect() must make one pass over model.environment.agents (found "
                 f"{[repr(l.data.get('iter')) for l in loops]})", cx.where(col))
            continue
        lp = al[0] if al else None
        iters = [e for e in evs if e.kind == 'iter' and e.node is lp.node] if lp is not None else []
        ends = [e for e in evs if e.kind == 'endloop' and e.node is lp.node] if lp is not None else []
        if any(e.data.get('how') != 'exhausted' for e in ends):
            viol('R-ITER', 'every-agent-visited', "collect() leaves the loop over the agents early", cx.where(col, lp.line))
            continue
        bounds = ([evs.index(e) for e in iters] + [evs.index(ends[-1])]) if lp is not None else []
        bad = False
        for k, it_ev in enumerate(iters):
            seg = evs[bounds[k]:bounds[k + 1]]
            info = it_ev.data['info']
            key = info.get('var') if info.get('kind') == 'iter' else info.get('index')
            ag = Sub(agents, key) if info.get('kind') == 'iter' and strip_versions(lp.data.get('iter')) == agents else \
                (Sub(info['seq'], info['index']) if info.get('kind') == 'items' else info.get('var'))
            calls = [e for e in seg if e.kind == 'call' and ((e.data.get('callee_name') == '.agentFunc' and e.data.get('recv') == self_s) or
                                                          strip_versions(e.data.get('func_term')) == Attr(self_s, 'agentFunc'))]
            if len(calls) != 1 or calls[0].data.get('args') != (ag,):
                viol('R-GUARD', 'agentFunc-called-once-per-agent', f"collect() must call agentFunc exactly once on each resident agent "
                     f"(found {[repr(c.data.get('args')) for c in calls]})", cx.where(col, it_ev.line))
                bad = True
                break
            res = calls[0].data.get('result')
            st = [e for e in seg if e.kind == 'store' and strip_versions(e.data.get('target')) == D]
            F = f_and(*[e.data['formula'] for e in seg if e.kind == 'cond'])
            isnone = AIs(res, Const(None))
            if implies(F, f_not(isnone)) is None:
                good = len(st) == 1 and st[0].data.get('store') == 'setitem' and st[0].data.get('key') == key and st[0].data.get('value') == res
            elif implies(F, isnone) is None:
                good = not st
            else:
                good = False
            if not good:
                viol('R-NONE', 'result-kept-iff-not-None',
                     f"collect(): under [{F!r}] the per-agent result is stored {len(st)} time(s); it must be stored under the agent's key "
                     f"exactly when it is not None (falsy results such as 0 are data)", cx.where(col, it_ev.line), path=p.lines())
                bad = True
                break
        if bad:
            continue
        # composite
        cf_none = AIs(Attr(self_s, 'compositeFunc'), Const(None))
        cc = [e for e in evs if e.kind == 'call' and (e.data.get('callee_name') == '.compositeFunc' or
                                                     strip_versions(e.data.get('func_term')) == Attr(self_s, 'compositeFunc'))]
        upd = [e for e in evs if e.kind == 'store' and strip_versions(e.data.get('target')) == D and e.data.get('store') == 'update'
               and e is not agent_update]
        if implies(p.cond, cf_none) is None:
            if cc or upd:
                viol('R-GUARD', 'composite-only-when-configured', "compositeFunc is called although it is None", cx.where(col))
        elif implies(p.cond, f_not(cf_none)) is None:
            if len(cc) != 1:
                viol('R-GUARD', 'composite-only-when-configured', "a configured compositeFunc must be called exactly once", cx.where(col))
            else:
                r = cc[0].data.get('result')
                if implies(p.cond, f_not(AIs(r, Const(None)))) is None:
                    if not (len(upd) == 1 and upd[0].data.get('args') == (r,)):
                        viol('R-NONE', 'composite-result-merged-iff-not-None', "a non-None composite result must be merged into the record", cx.where(col))
                elif implies(p.cond, AIs(r, Const(None))) is None and upd:
                    viol('R-NONE', 'composite-result-merged-iff-not-None', "a None composite result is merged", cx.where(col))
                elif implies(p.cond, AIs(r, Const(None))) is not None:
                    # the path has not decided `is None` at all (`type(r) == dict`, a truth test): a result that is not None - a
                    # Counter, a defaultdict, an empty mapping - is dropped on the other branch
                    viol('R-NONE', 'composite-result-merged-iff-not-None',
                         f"whether the composite result is merged is not decided by `is None` on a path [{p.cond!r}]: a composite result "
                         f"that is not None (a dict subclass, an empty dict) is silently dropped", cx.where(col))
        # append guarded by non-emptiness
        nonempty = mk_cmp(App('len', (D,)), '>', Num(Fraction(0)))
        if apps:
            if not (len(apps) == 1 and apps[0].data.get('store') == 'append' and apps[0].data.get('args') == (D,)):
                viol('R-DISC', 'one-record-appended', f"collect() must append exactly the new record once (found "
                     f"{[(e.data.get('store'), repr(e.data.get('args'))) for e in apps]})", cx.where(col, apps[0].line))
            elif implies(p.cond, nonempty, domain='int') is not None:
                viol('R-GUARD', 'nothing-added-when-record-empty', "collect() appends a record without testing that it is non-empty", cx.where(col, apps[0].line))
        else:
            if implies(p.cond, f_not(nonempty), domain='int') is not None:
                viol('R-GUARD', 'non-empty-record-appended', f"collect() drops a record on a path that did not establish it is empty ({p.cond!r})",
                     cx.where(col))
    cx.floor('collect() paths', n, 8)
    if not reported:
        cx.ok('R-GUARD', 'collect(): fresh record, live agents in order, results kept iff not None, timestep/composite as configured, '
              'appended iff non-empty', where=cx.where(col), function=col.qualname, paths=n)
    # constructor arguments reach the fields
    ainit = cx.fn(COLL + 'AgentCollector.__init__')
    pairs = {'agentFunc': 'agentFunc', 'compositeFunc': 'compositeFunc', 'includeTimestep': 'includeTimstep'}
    for p in cx.walker.paths(ainit, WalkOptions(unroll=0, callee_raises=False)):
        for fld, par in pairs.items():
            if par not in ainit.params:
                par = fld
            st = [e for e in p.events if e.kind == 'store' and e.data.get('attr') == fld]
            if len(st) == 1 and st[0].data.get('value') == Sym(par):
                cx.ok('R-FWD', f"AgentCollector.{fld} := constructor argument {par}", where=cx.where(ainit, st[0].line), function=ainit.qualname)
            else:
                cx.violation('R-FWD', ainit.qualname, f"{fld}-from-constructor-argument", f"AgentCollector.__init__ does not store its "
                             f"'{par}' argument in '{fld}'", where=cx.where(ainit))
    # default schedule
    sysinit = CORE + 'System.__init__'
    sys_default = const_default(cx, cx.fn(sysinit), 'priority')
    for c in ('Collector', 'AgentCollector', 'FileCollector'):
        check_forwarding_chain(cx, COLL + c, ['priority', 'frequency', 'start', 'end'], sysinit)
        ctor = cx.prog.lookup_method(cx.prog.cls(COLL + c), '__init__')[0]
        d = const_default(cx, ctor, 'priority')
        if isinstance(d, Num) and isinstance(sys_default, Num) and d.value < sys_default.value:
            cx.ok('R-FWD', f"{c} default priority {d!r} < System default {sys_default!r}", where=cx.where(ctor), function=ctor.qualname)
        else:
            cx.violation('R-FWD', ctor.qualname, 'collector-default-priority-below-system-default',
                         f"{ctor.qualname}: default priority {d!r} is not below System's {sys_default!r}: a default collector no longer "
                         f"observes the state left by that timestep's systems", where=cx.where(ctor))

    # ------------------------------------------------------------ Collector.execute
    # a collector that is executed collects: the scheduler decides when (C02's window, against ITS clock) - an execute() that looks at
    # the clock again (`if start <= self.model.timestep <= end`) reads the clock of the collector's own model, which is another one
    # when the collector is registered with a second model's scheduler, and silently records nothing
    cex_ = cx.fn(COLL + 'Collector.execute')
    n_ce, bad_ce = 0, None
    for p_ in cx.walker.paths(cex_, WalkOptions(unroll=1, callee_raises=False)):
        if p_.end == 'raise':
            continue
        n_ce += 1
        cl_ = [e for e in p_.events if e.kind == 'call' and any(t.name == 'collect' for t in e.data.get('targets', []))]
        if len(cl_) != 1:
            bad_ce = bad_ce or p_
    if bad_ce is not None:
        cx.violation('R-GUARD', cex_.qualname, 'execute-collects-unconditionally',
                     f"Collector.execute does not call collect() exactly once on a path [{bad_ce.cond!r}]: whether a scheduled collector "
                     f"records is decided a second time, by something the scheduler did not look at", where=cx.where(cex_), path=bad_ce.lines())
    else:
        cx.ok('R-GUARD', f"Collector.execute calls collect() once on every path ({n_ce} path(s))", where=cx.where(cex_), function=cex_.qualname)

    # ------------------------------------------------------------ FileCollector.execute
    fx = cx.fn(COLL + 'FileCollector.execute')
    fs = Sym(fx.params[0])
    k = Attr(fs, 'last_write')
    wc = Attr(fs, 'write_count')
    flush_when = mk_cmp(add(k, Num(Fraction(1))), '>', wc)
    WR = COLL + 'FileCollector.write_records'
    rep2 = set()

    def v2(rule, missing, msg, where, **kw):
        if missing not in rep2:
            rep2.add(missing)
            cx.violation(rule, fx.qualname, missing, msg, where=where, **kw)
    flush_conds, keep_conds = [], []
    n = 0
    for p in cx.walker.paths(fx, WalkOptions(unroll=1, callee_raises=False, domain='int')):
        if p.end == 'raise':
            continue
        n += 1
        evs = p.events
        coll = [e for e in evs if e.kind == 'call' and any(t.name in ('execute', 'collect') and t.cls is not None and t.cls.name == 'Collector'
                                                             for t in e.data.get('targets', []))]
        writes = [e for e in evs if e.kind == 'call' and any(t.qualname == WR for t in e.data.get('targets', []))]
        cnt = [e for e in evs if e.kind == 'store' and e.data.get('loc') == (COLL + 'FileCollector', 'last_write')]
        clears = [e for e in evs if e.kind == 'store' and e.data.get('loc') == RLOC and e.data.get('store') == 'clear']
        first_effect = min([evs.index(e) for e in cnt + writes + clears] or [len(evs)])
        first_cond = min([evs.index(e) for e in evs if e.kind == 'cond'] or [len(evs)])
        if len(coll) != 1 or evs.index(coll[0]) > min(first_effect, first_cond):
            v2('R-ORDER', 'collects-once-before-the-flush-decision', "FileCollector.execute must collect exactly once, before counting and "
               "before the flush decision", cx.where(fx))
            continue
        final = cnt[-1].data.get('value') if cnt else k
        F = f_and(*[e.data['formula'] for e in evs if e.kind == 'cond' and not (isinstance(e.data['formula'], ATruthy) or
                                                                               isinstance(f_not(e.data['formula']), ATruthy))])
        if writes:
            flush_conds.append(F)
            if len(writes) != 1:
                v2('R-GUARD', 'flush-writes-once', f"a flush calls write_records() {len(writes)} times: records are duplicated in the file", cx.where(fx, writes[1].line))
            if final != Num(Fraction(0)):
                v2('R-GUARD', 'counter-reset-on-flush', f"after a flush the counter is {final!r}, not 0", cx.where(fx))
            clr = ATruthy(Attr(fs, 'clear_records_on_write'))
            if clears:
                if evs.index(clears[0]) < evs.index(writes[0]):
                    v2('R-ORDER', 'clear-after-write', "the held records are cleared before they are written: they are lost", cx.where(fx, clears[0].line))
                if implies(p.cond, clr) is not None:
                    v2('R-GUARD', 'clear-only-when-configured', "records are cleared although clear_records_on_write is not established", cx.where(fx, clears[0].line))
            elif implies(p.cond, f_not(clr)) is not None:
                v2('R-GUARD', 'clear-when-configured', "with clear_records_on_write the flushed records must be cleared (otherwise every "
                   "later flush in append mode writes them again)", cx.where(fx))
        else:
            keep_conds.append(F)
            if clears:
                v2('R-GUARD', 'nothing-cleared-without-flush', "records are cleared on a path that did not write them: they are lost", cx.where(fx, clears[0].line))
            if final != add(k, Num(Fraction(1))):
                v2('R-GUARD', 'counter-incremented-by-one', f"without a flush the counter becomes {final!r}; it must count exactly one more "
                   f"collection (k + 1)", cx.where(fx))
    cx.floor('FileCollector.execute paths', n, 2)
    if flush_conds and keep_conds:
        from sa.terms import f_or
        Fl = f_or(*flush_conds)
        cex = compare(Fl, flush_when, domain='int')
        if cex is not None:
            show = {a: b for a, b in cex.items() if not a.startswith('_')}
            v2('R-GUARD', 'flush-after-every-write_count-plus-1-collections',
               f"FileCollector.execute flushes under [{Fl!r}] (k = collections since the last flush, before this one); a flush after every "
               f"(write_count + 1)-th collection requires [{flush_when!r}]; they differ at {show}", cx.where(fx), found=repr(Fl), expected=repr(flush_when),
               counterexample=cex)
    elif n:
        v2('R-GUARD', 'flush-decision-exists', "FileCollector.execute has no flush / no-flush alternative", cx.where(fx))
    if not rep2 and n:
        cx.ok('R-GUARD', 'FileCollector.execute: collect, count +1, flush iff k+1 > write_count, write once then reset and (if configured) clear',
              where=cx.where(fx), function=fx.qualname)

    # ------------------------------------------------------------ write_records
    wr = cx.fn(WR)
    # the held records reach the file through the flush of execute() only, where writing is paired with the counter reset and the
    # clearing: any other package caller (a clean_up override that "saves what is left", ...) writes records that stay held and are
    # written again by the next flush
    others = []
    for k_, c_ in cx.effects.callers_of(wr):
        kf = cx.prog.functions.get(k_.split('#')[0])
        roots = cx.effects.public_roots(kf) if kf is not None else {k_}
        if k_.split('#')[0] != fx.qualname and roots != {fx.qualname}:
            others.append((k_, kf, c_))
    if others:
        k_, kf, c_ = others[0]
        cx.violation('R-PAIR', k_, 'records-written-by-the-flush-only',
                     f"{k_} calls write_records() outside FileCollector.execute's flush: the records it writes stay held (nothing is cleared, "
                     f"the counter is not reset), so the file no longer holds each collected record exactly once", where=cx.where(kf, c_.line) if kf else '')
    else:
        cx.ok('R-PAIR', 'write_records is called by the flush of execute() only', where=cx.where(wr), function=wr.qualname)
    ws = Sym(wr.params[0])
    okw = True
    nw = 0
    for p in cx.walker.paths(wr, WalkOptions(unroll=2, callee_raises=False)):
        if p.end == 'raise':
            continue
        nw += 1
        evs = p.events
        opens = [e for e in evs if e.kind == 'call' and e.data.get('callee_name') == 'builtins.open']
        if len(opens) != 1 or opens[0].data.get('args') != (Attr(ws, 'filename'), Attr(ws, 'filemode')):
            okw = False
            cx.violation('R-GUARD', wr.qualname, 'opens-filename-with-filemode', "write_records must open self.filename with self.filemode "
                         "(append mode keeps what is already written)", where=cx.where(wr))
            break
        fobj = opens[0].data.get('result')
        loops = [e for e in evs if e.kind == 'loop']
        if len(loops) != 1 or order_class(loops[0].data.get('iter'), Attr(ws, 'records')) != 'inorder':
            okw = False
            cx.violation('R-ITER', wr.qualname, 'writes-held-records-in-order', f"write_records must iterate self.records in list order (found "
                         f"{[repr(l.data.get('iter')) for l in loops]})", where=cx.where(wr))
            break
        lp = loops[0]
        iters = [e for e in evs if e.kind == 'iter' and e.node is lp.node]
        wcalls = [e for e in evs if e.kind == 'call' and e.data.get('callee_name', '').endswith('.write') and e.data.get('recv') == fobj]
        ends = [e for e in evs if e.kind == 'endloop' and e.node is lp.node]
        if len(wcalls) != len(iters) or any(e.data.get('how') != 'exhausted' for e in ends) or \
                any(w.data.get('args') != (it.data['info'].get('var'),) for w, it in zip(wcalls, iters)):
            okw = False
            cx.violation('R-ITER', wr.qualname, 'one-write-per-held-record', f"write_records performs {len(wcalls)} write(s) for {len(iters)} "
                         f"held record(s) on a path: every record must be written exactly once", where=cx.where(wr, lp.line), path=p.lines())
            break
        closes = [e for e in evs if (e.kind == 'call' and e.data.get('callee_name', '').endswith('.close') and e.data.get('recv') == fobj)]
        withs = [e for e in evs if e.kind == 'with' and e.data.get('ctx') == fobj]
        if not closes and not withs:
            okw = False
            cx.violation('R-GUARD', wr.qualname, 'file-closed', "write_records does not close the file on every path", where=cx.where(wr))
            break
    if okw and nw:
        cx.ok('R-ITER', 'write_records: open(filename, filemode), one write per held record in list order, close', where=cx.where(wr),
              function=wr.qualname)
    from .common import include_premises
    include_premises(cx, ['C01', 'C05', 'C02'], 'one record per scheduled timestep, after that timestep\'s systems: the scheduler runs each queued system once, in priority order, in its window')


