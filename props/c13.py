"""C13 - agent queries are exact filters; random picks stay within the filter."""
from __future__ import annotations

from fractions import Fraction

from sa.report import Cx
from sa.walker import WalkOptions
from sa.terms import (Sym, Attr, Sub, App, Num, Const, Fresh, CompInfo, TupleT, AIn, AIs, ATruthy, f_and, f_or, f_not, implies, compare, mk_cmp, atoms_of)
from .common import CORE, check_pure, order_class, strip_versions

PID = 'C13'
EXPLANATION = (
    "Agent.has_component is the all-of test: it returns False exactly on a path that found a listed type absent from the "
    "agent's components and True otherwise. get_agents: on every CFG path the returned list is allocated in the call "
    "(R-FRESH), is built from Environment.agents in dict order, contains an agent exactly when has_component(*args) "
    "holds for it (star-forwarded template; unfiltered when no template), and is filtered by `a.tag == tag` exactly "
    "when `tag is not None` (R-NONE: a truthiness test would treat the legal tag 0 as 'no filter'); the function is pure. "
    "R-FWD: get_random_agent and shuffle call get_agents(*args, tag=tag); the pick is Model.random.choice over that "
    "list and None on the empty branch; shuffle permutes that fresh list in place with Model.random.shuffle and returns "
    "it; neither writes environment state. Not decided: that every matching agent is reachable by the pick "
    "(uniformity of random.choice).")
EXPLANATION += (' get_agents, get_random_agent and shuffle have no raising path, direct or through package callees (calls inside f-strings included).')
ASSUMPTIONS = ["random.Random.choice / shuffle semantics", "dict preserves insertion order"]

ENVQ = CORE + 'Environment'


def run(cx: Cx):
    check_has_all(cx, CORE + 'Agent.has_component', 'components')
    _rest(cx)
    # every query is answered: a template naming a type nobody has (or a class that is no Component), a tag nobody registered - the
    # answer is the agents that match, possibly none; nothing on the way (a validation, a log line that looks the tag up) may raise
    for q in ('get_agents', 'get_random_agent', 'shuffle'):
        f = cx.fn(ENVQ + '.' + q)
        bad = [p for p in cx.walker.paths(f, WalkOptions(unroll=1)) if p.end == 'raise']
        if bad:
            p0 = bad[0]
            via = ' via ' + ' -> '.join(p0.last.data.get('via') or ()) if p0.last.data.get('via') else ''
            cx.violation('R-GUARD', f.qualname, 'every-query-is-answered',
                         f"Environment.{q} raises {p0.last.data.get('exc')}{via} under [{p0.cond!r}]: every template and every tag value "
                         f"is a legal question, and the answer is the matching agents (possibly none)", where=cx.where(f, p0.last.line),
                         path=p0.lines())
        else:
            cx.ok('R-GUARD', f"Environment.{q} has no raising path", where=cx.where(f), function=f.qualname)
    # the rules above speak for every environment of the package only if its subclasses (the spatial worlds) do not override the queries
    from .common import check_overrides_forward
    check_overrides_forward(cx, ENVQ, ['get_agents', 'get_random_agent', 'shuffle'])
    check_overrides_forward(cx, CORE + 'Agent', ['has_component'])
    from .common import include_premises
    include_premises(cx, ['C04'], 'the queries filter the agents that were added and not removed, in joining order: residency is C04\'s',
                     only=lambda o: o.rule in ('R-DISC', 'R-NONE', 'R-GUARD', 'R-ATOMIC') and (o.function or '').endswith(('.add_agent', '.remove_agent')))
    include_premises(cx, ['C20'], 'filtering by tag is exact only if an agent carries the tag it was given (tag 0 included)',
                     only=lambda o: 'Agent.__init__' in o.function)


def check_has_all(cx: Cx, q: str, field: str):
    """has_component(*types) / has_class_component(*types): True exactly when every listed type is a key of the store."""
    for q, field in ((q, field),):
        fn = cx.fn(q)
        comps = Attr(Sym(fn.params[0]), field)
        va = Sym('*' + fn.vararg) if fn.vararg else None
        ok = True
        seen = set()
        for p in cx.walker.paths(fn, WalkOptions(unroll=2)):
            if p.end != 'return':
                continue
            v = p.last.data.get('value')
            iters = [e for e in p.events if e.kind == 'iter']
            loops = [e for e in p.events if e.kind == 'loop']
            # not any(<type> not in <store> for <type> in <template>)  ==  all(<type> in <store> ...)
            from sa.terms import BoolT as _BT, FNot as _FN
            if isinstance(v, _BT) and isinstance(v.f, _FN) and isinstance(v.f.f, ATruthy) and isinstance(v.f.f.t, App) and v.f.f.t.fn == 'any':
                g = v.f.f.t.args[0] if v.f.f.t.args else None
                d = getattr(g, 'detail', None)
                if isinstance(g, Fresh) and d is not None and len(d.gens) == 1 and strip_versions(d.gens[0][1]) == va and not d.gens[0][2] \
                        and isinstance(d.elt, _BT) and d.elt.f == f_not(AIn(d.gens[0][0], comps)):
                    seen.add('all')
                    continue
            from sa.terms import IfT as _IfT
            if isinstance(v, _IfT):
                from sa.walker import _Ctx, State
                try:
                    v = _BT(_Ctx(cx.walker, fn, WalkOptions()).formula(v, State()))
                except Exception:
                    pass
            if isinstance(v, _BT) and not (isinstance(v.f, _FN)):
                # `not types or all(...)` / `len(types) == 0 or all(...)`: all() over an empty template is True anyway
                alls = [a for a in atoms_of(v.f) if isinstance(a, ATruthy) and isinstance(a.t, App) and a.t.fn == 'all']
                if len(alls) == 1 and va is not None:
                    empties = (f_not(ATruthy(va)), mk_cmp(App('len', (va,)), '==', Num(0)))
                    if v.f == alls[0] or any(compare(v.f, f_or(e0, alls[0])) is None for e0 in empties):
                        v = alls[0].t
            if isinstance(v, App) and v.fn == 'all':
                # all(<type> in <store> for <type> in <template>)
                g = v.args[0] if v.args else None
                d = getattr(g, 'detail', None)
                from sa.terms import BoolT
                okall = isinstance(g, Fresh) and d is not None and len(d.gens) == 1 and strip_versions(d.gens[0][1]) == va and \
                    not d.gens[0][2] and isinstance(d.elt, BoolT) and d.elt.f == AIn(d.gens[0][0], comps)
                if okall:
                    seen.add('all')
                    continue
                ok = False
                cx.violation('R-GUARD', fn.qualname, 'all-of-semantics', f"{fn.name} returns {v!r} over {getattr(d, 'elt', None)!r}: it must be "
                             f"true exactly when every listed type is a key of the store", where=cx.where(fn, p.last.line))
                break
            if not loops and v == Const(True) and va is not None and (implies(p.cond, f_not(ATruthy(va))) is None or
                                                                    implies(p.cond, mk_cmp(App('len', (va,)), '==', Num(0))) is None):
                seen.add('true-empty')      # `if not types: return True`: all-of over an empty template
                continue
            if not loops and va is not None and implies(p.cond, mk_cmp(App('len', (va,)), '==', Num(1))) is None:
                # a fast path for a one-type template: the answer is that one membership
                from sa.terms import BoolT as _B1
                one = AIn(Sub(va, Num(0)), comps)
                if isinstance(v, _B1) and compare(f_and(p.cond, v.f), f_and(p.cond, one)) is None:
                    seen.add('one-type')
                    continue
            if not loops or strip_versions(loops[0].data.get('iter')) != va:
                ok = False
                cx.violation('R-GUARD', fn.qualname, 'tests-every-listed-type', f"{fn.name} does not iterate its template {va!r}", where=cx.where(fn))
                break
            per_iter = []
            for k, it_ev in enumerate(iters):
                var = it_ev.data['info'].get('var')
                nxt = p.events.index(iters[k + 1]) if k + 1 < len(iters) else len(p.events)
                cs = [e.data['formula'] for e in p.events[p.events.index(it_ev):nxt] if e.kind == 'cond']
                per_iter.append((var, f_and(*cs)))
            if v == Const(False):
                seen.add('false')
                var, F = per_iter[-1] if per_iter else (None, None)
                good = per_iter and implies(F, f_not(AIn(var, comps))) is None and \
                    all(implies(G, AIn(w, comps)) is None for w, G in per_iter[:-1])
            elif v == Const(True):
                seen.add('true')
                good = all(implies(G, AIn(w, comps)) is None for w, G in per_iter) and \
                    not any(e.kind == 'endloop' and e.data.get('how') == 'break' for e in p.events)
            else:
                good = False
            if not good:
                ok = False
                cx.violation('R-GUARD', fn.qualname, 'all-of-semantics',
                             f"{fn.name} returns {v!r} on a path with per-type tests {[(repr(w), repr(G)) for w, G in per_iter]}: it must "
                             f"return False exactly when some listed type is absent (all-of), True otherwise", where=cx.where(fn, p.last.line),
                             path=p.lines())
                break
        if ok and ({'true', 'false'} <= seen or 'all' in seen):
            cx.ok('R-GUARD', f"{fn.name}: all-of semantics over the template", where=cx.where(fn), function=fn.qualname)
        elif ok:
            cx.inconclusive('R-GUARD', fn.name, f"branches found {sorted(seen)}", where=cx.where(fn), function=fn.qualname)



def _rest(cx: Cx):
    # ------------------------------------------------------------ get_agents
    ga = cx.fn(ENVQ + '.get_agents')
    self_s = Sym(ga.params[0])
    agents = Attr(self_s, 'agents')
    va = Sym('*' + ga.vararg) if ga.vararg else None
    tag = Sym('tag')
    none_tag = AIs(tag, Const(None))
    reported = set()

    def viol(rule, missing, msg, where, **kw):
        if missing not in reported:
            reported.add(missing)
            cx.violation(rule, ga.qualname, missing, msg, where=where, **kw)

    # lazy filters created in a loop bind the loop variable late (language fact): every generator/lambda then sees the
    # variable's final value, so a chain of per-type filters tests only the last listed type
    import ast as _ast
    CONSUMERS = {'list', 'tuple', 'set', 'frozenset', 'sorted', 'sum', 'any', 'all', 'max', 'min', 'next', 'dict', 'len'}
    for qf in (ga, cx.fn(CORE + 'Agent.has_component')):
        parents = {}
        for nn in _ast.walk(qf.node):
            for ch in _ast.iter_child_nodes(nn):
                parents[id(ch)] = nn
        for loop in [x for x in _ast.walk(qf.node) if isinstance(x, _ast.For)]:
            names = {t.id for t in _ast.walk(loop.target) if isinstance(t, _ast.Name)}
            for g in [x for st_ in loop.body for x in _ast.walk(st_) if isinstance(x, (_ast.GeneratorExp, _ast.Lambda))]:
                if isinstance(g, _ast.GeneratorExp):
                    lazy_parts = [g.elt] + [c for gen in g.generators for c in gen.ifs] + [gen.iter for gen in g.generators[1:]]
                else:
                    lazy_parts = [g.body]
                used = {x.id for part in lazy_parts for x in _ast.walk(part) if isinstance(x, _ast.Name)} & names
                par = parents.get(id(g))
                consumed = isinstance(par, _ast.Call) and isinstance(par.func, _ast.Name) and par.func.id in CONSUMERS and g in par.args
                if used and not consumed:
                    viol('R-GUARD', 'lazy-filter-binds-loop-variable-late',
                         f"{qf.name}: a lazy {'generator' if isinstance(g, _ast.GeneratorExp) else 'lambda'} created inside the loop over "
                         f"{sorted(names)} refers to the loop variable {sorted(used)} and is not consumed inside the iteration: when it "
                         f"finally runs, every such filter sees the LAST value, so only the last listed component type is tested",
                         cx.where(qf, g.lineno))
    from .common import list_facts
    from sa.terms import ATruthy as _AT, term_symbols, drop_literals
    all_paths = cx.walker.paths(ga, WalkOptions(unroll=1, no_inline=frozenset({'has_component'})))
    notempl = mk_cmp(App('len', (va,)), '==', Num(Fraction(0)))

    def is_base(src):
        return not isinstance(src, Fresh) and order_class(src, agents) == 'inorder'
    n = 0
    for p in all_paths:
        if p.end != 'return':
            continue
        n += 1
        v = p.last.data.get('value')
        where = cx.where(ga, p.last.line)
        if any(isinstance(a, _AT) and a.t == tag for c in p.conds for a in atoms_of(c)):
            viol('R-NONE', 'tag-filter-decided-by-is-not-None',
                 f"get_agents decides whether to filter by tag with the truthiness of `tag` ([{p.cond!r}]), not with `tag is not None`: "
                 f"the legal tag 0 (the default tag NONE) would be treated as 'no filter'", where)
            continue
        if not isinstance(v, Fresh):
            viol('R-FRESH', 'returns-a-fresh-list', f"get_agents returns {v!r}: not a list allocated in this call (a live view would "
                 f"change under the caller, and the caller's edits would reach the environment)", where)
            continue
        lf = list_facts(all_paths, p, v, is_base)
        if not lf.ok and lf.err and 'left early' in lf.err:
            viol('R-ITER', 'every-agent-considered', "get_agents leaves the scan over the agents early: agents behind that point are never "
                 "tested against the filter, so matching agents are missing from the answer (and from shuffle / get_random_agent)", where)
            continue
        if not lf.ok:
            cx.inconclusive('R-GUARD', 'get_agents result', f"the returned list could not be traced back to Environment.agents: {lf.err}",
                            where=where, function=ga.qualname)
            reported.add('inconclusive')
            continue
        from .common import known_empty_on
        if lf.elem is None and known_empty_on(p.cond, agents):
            continue            # `if not self.agents: return []`: an empty environment has no matching agents
        if lf.elem is None:
            # an empty list on this path: acceptable only if nothing can match, i.e. never for a populated environment
            viol('R-GUARD', 'lists-the-matching-agents', f"get_agents returns an empty list on the path [{p.cond!r}]", where)
            continue
        src = strip_versions(lf.base_src)
        if src == agents:
            ag = Sub(agents, lf.base_var)
        elif isinstance(src, App) and src.fn == '.items' and isinstance(lf.base_var, TupleT):
            ag = lf.base_var.items[1]
        else:
            ag = lf.base_var
        if lf.elem != ag:
            viol('R-FRESH', 'yields-the-agents', f"get_agents collects {lf.elem!r} for each entry of {src!r}, not the agent {ag!r}", where)
            continue
        hc = _AT(App('call:' + CORE + 'Agent.has_component', (ag, App('*', (va,)))))
        E = f_and(f_or(notempl, hc), f_or(none_tag, mk_cmp(Attr(ag, 'tag'), '==', tag)))
        # the path-level decisions (template given? tag given?) are the assumption under which this path's list is judged
        keep = {repr(notempl), repr(f_not(notempl)), repr(none_tag), repr(f_not(none_tag))}
        assume = f_and(*[c for c in p.conds if not term_symbols(c) & term_symbols(ag) and
                         all(isinstance(a, (type(none_tag),)) or (va in term_symbols(a)) or (tag in term_symbols(a)) for a in atoms_of(c))])
        try:
            cex = compare(lf.cond, E, assume=assume, domain='int')
        except Exception as ex:
            cx.inconclusive('R-GUARD', 'get_agents filter', f"filter comparison not possible: {ex}", where=where, function=ga.qualname)
            reported.add('inconclusive')
            continue
        if cex is not None:
            show = {a: b for a, b in cex.items() if not a.startswith('_')}
            viol('R-GUARD', 'exact-template-and-tag-filter',
                 f"get_agents keeps an agent under [{lf.cond!r}] (path [{assume!r}]) but the exact filter is [{E!r}]: all listed "
                 f"component types (has_component(*args)) and, when a tag is given, a.tag == tag; they differ at {show} (code keeps "
                 f"the agent: {cex['_left']})", where, found=repr(lf.cond), expected=repr(E), counterexample=cex)
    cx.floor('get_agents returning paths', n, 1)
    if not reported:
        cx.ok('R-GUARD', 'get_agents: fresh list, joining order, has_component(*args) template filter, tag filter iff tag is not None',
              where=cx.where(ga), function=ga.qualname, paths=n)
    check_pure(cx, ga.qualname)
    from .common import check_overrides_forward
    check_overrides_forward(cx, ENVQ, ['get_agents', 'get_random_agent', 'shuffle'])
    check_overrides_forward(cx, CORE + 'Agent', ['has_component'])
    from .common import check_result_fresh
    check_result_fresh(cx, ga.qualname)

    # ------------------------------------------------------------ get_random_agent / shuffle
    rng = Attr(Attr(self_s, 'model'), 'random')
    for name in ('get_random_agent', 'shuffle'):
        fn = cx.fn(f"{ENVQ}.{name}")
        fva = Sym('*' + fn.vararg) if fn.vararg else None
        good_all = True
        nret = 0
        for p in cx.walker.paths(fn, WalkOptions(unroll=1, callee_raises=False)):
            calls = [e for e in p.events if e.kind == 'call' and any(t.qualname == ga.qualname for t in e.data.get('targets', []))]
            if len(calls) != 1 or calls[0].data.get('args') != (App('*', (fva,)),) or dict(calls[0].data.get('kw', ())) != {'tag': Sym('tag')} \
                    or calls[0].data.get('recv') != Sym(fn.params[0]):
                good_all = False
                cx.violation('R-FWD', fn.qualname, 'filters-through-get_agents',
                             f"{name} must obtain its candidates from self.get_agents(*args, tag=tag) (found "
                             f"{[(repr(c.data.get('args')), repr(c.data.get('kw'))) for c in calls]}): the filter is not applied to the "
                             f"random {'pick' if name != 'shuffle' else 'order'}", where=cx.where(fn))
                break
            L = calls[0].data.get('result')
            v = p.last.data.get('value') if p.end == 'return' else None
            nret += 1
            empty = mk_cmp(App('len', (L,)), '==', Num(Fraction(0)))
            if name == 'get_random_agent':
                if implies(p.cond, empty) is None:
                    if v != Const(None):
                        good_all = False
                        cx.violation('R-GUARD', fn.qualname, 'nothing-when-no-candidate', f"with no candidate get_random_agent returns {v!r}",
                                     where=cx.where(fn, p.last.line))
                else:
                    ch = [e for e in p.events if e.kind == 'call' and e.data.get('callee_name') == 'random.Random.choice']
                    if not (len(ch) == 1 and ch[0].data.get('recv') == Attr(Attr(Sym(fn.params[0]), 'model'), 'random')
                            and ch[0].data.get('args') == (L,) and v == ch[0].data.get('result')):
                        good_all = False
                        cx.violation('R-GUARD', fn.qualname, 'pick-is-model-random-choice-over-the-filtered-list',
                                     f"get_random_agent must return self.model.random.choice(<the filtered list>) (returns {v!r})",
                                     where=cx.where(fn, p.last.line))
            else:
                sh = [e for e in p.events if e.kind == 'store' and e.data.get('store') == 'shuffle']
                if not (len(sh) == 1 and sh[0].data.get('target') == L and sh[0].data.get('rng') == Attr(Attr(Sym(fn.params[0]), 'model'), 'random')
                        and v == L):
                    good_all = False
                    cx.violation('R-GUARD', fn.qualname, 'shuffles-and-returns-the-filtered-list',
                                 f"shuffle must permute the filtered fresh list with self.model.random.shuffle and return it (returns {v!r})",
                                 where=cx.where(fn, p.last.line if p.last else None))
        # purity apart from the permutation of the fresh list
        others = [(w, ch) for w, ch in cx.effects.trans_writes(fn) if w.kind != 'shuffle']
        if others:
            good_all = False
            w, ch = others[0]
            cx.violation('R-PURE', fn.qualname, 'does-not-alter-the-environment', f"{name} can write {w.loc} ({w.kind} at {w.where})", where=cx.where(fn))
        if good_all and nret:
            cx.ok('R-FWD', f"{name}: candidates = get_agents(*args, tag=tag); drawn with Model.random; environment untouched", where=cx.where(fn),
                  function=fn.qualname)
    from .common import check_presence_not_truthiness
    check_presence_not_truthiness(cx, [CORE + 'Agent.has_component', ENVQ + '.get_agents', ENVQ + '.get_random_agent', ENVQ + '.shuffle'])

