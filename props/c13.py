"""C13 - agent queries are exact filters; random picks stay within the filter."""
from __future__ import annotations

from fractions import Fraction

from sa.report import Cx
from sa.walker import WalkOptions
from sa.terms import (Sym, Attr, Sub, App, Num, Const, Fresh, CompInfo, AIn, AIs, ATruthy, f_and, f_not, implies, compare, mk_cmp)
from .common import CORE, check_pure, order_class, strip_versions

PID = 'C13'
EXPLANATION = (
    "Agent.has_component is the all-of test: it returns False exactly on a path that found a listed type absent from the "
    "agent's components and True otherwise. get_agents: on every CFG path the returned list is allocated in the call "
    "(R-FRESH), is built from Environment.agents in dict order, contains an agent exactly when has_component(*args) "
    "holds for it (star-forwarded template; unfiltered when no template), and is filtered by `a.tag == tag` exactly "
    "when `tag is not None` (R-NONE: a truthiness test would treat the legal tag 0 as 'no filter'); the function is pure. "
    "R-FWD: get_random_agent and shuffle call get_agents(*args, tag=tag); the pick is Model.random.choice over that "
    "list and None on the empty branch; shuffle permutes that fresh list in place with Model.random.shuffle and returns "
    "it; neither writes environment state. Not decided: that every matching agent is reachable by the pick "
    "(uniformity of random.choice).")
ASSUMPTIONS = ["random.Random.choice / shuffle semantics", "dict preserves insertion order"]

ENVQ = CORE + 'Environment'


def run(cx: Cx):
    # ------------------------------------------------------------ has_component (instance and class level)
    for q, field in ((CORE + 'Agent.has_component', 'components'),):
        fn = cx.fn(q)
        comps = Attr(Sym(fn.params[0]), field)
        va = Sym('*' + fn.vararg) if fn.vararg else None
        ok = True
        seen = set()
        for p in cx.walker.paths(fn, WalkOptions(unroll=2)):
            if p.end != 'return':
                continue
            v = p.last.data.get('value')
            iters = [e for e in p.events if e.kind == 'iter']
            loops = [e for e in p.events if e.kind == 'loop']
            if isinstance(v, App) and v.fn == 'all':
                seen.add('all')
                continue
            if not loops or strip_versions(loops[0].data.get('iter')) != va:
                ok = False
                cx.violation('R-GUARD', fn.qualname, 'tests-every-listed-type', f"{fn.name} does not iterate its template {va!r}", where=cx.where(fn))
                break
            per_iter = []
            for k, it_ev in enumerate(iters):
                var = it_ev.data['info'].get('var')
                nxt = p.events.index(iters[k + 1]) if k + 1 < len(iters) else len(p.events)
                cs = [e.data['formula'] for e in p.events[p.events.index(it_ev):nxt] if e.kind == 'cond']
                per_iter.append((var, f_and(*cs)))
            if v == Const(False):
                seen.add('false')
                var, F = per_iter[-1] if per_iter else (None, None)
                good = per_iter and implies(F, f_not(AIn(var, comps))) is None and \
                    all(implies(G, AIn(w, comps)) is None for w, G in per_iter[:-1])
            elif v == Const(True):
                seen.add('true')
                good = all(implies(G, AIn(w, comps)) is None for w, G in per_iter) and \
                    not any(e.kind == 'endloop' and e.data.get('how') == 'break' for e in p.events)
            else:
                good = False
            if not good:
                ok = False
                cx.violation('R-GUARD', fn.qualname, 'all-of-semantics',
                             f"{fn.name} returns {v!r} on a path with per-type tests {[(repr(w), repr(G)) for w, G in per_iter]}: it must "
                             f"return False exactly when some listed type is absent (all-of), True otherwise", where=cx.where(fn, p.last.line),
                             path=p.lines())
                break
        if ok and ({'true', 'false'} <= seen or 'all' in seen):
            cx.ok('R-GUARD', f"{fn.name}: all-of semantics over the template", where=cx.where(fn), function=fn.qualname)
        elif ok:
            cx.inconclusive('R-GUARD', fn.name, f"branches found {sorted(seen)}", where=cx.where(fn), function=fn.qualname)

    # ------------------------------------------------------------ get_agents
    ga = cx.fn(ENVQ + '.get_agents')
    self_s = Sym(ga.params[0])
    agents = Attr(self_s, 'agents')
    va = Sym('*' + ga.vararg) if ga.vararg else None
    tag = Sym('tag')
    none_tag = AIs(tag, Const(None))
    reported = set()

    def viol(rule, missing, msg, where, **kw):
        if missing not in reported:
            reported.add(missing)
            cx.violation(rule, ga.qualname, missing, msg, where=where, **kw)

    def base_list_ok(p, L, where):
        """L is built from agents in order, containing an agent iff has_component(*args) (or everything when no template)."""
        notempl = mk_cmp(App('len', (va,)), '==', Num(Fraction(0)))
        if isinstance(L, Fresh) and L.kind == 'listcomp' and isinstance(L.detail, CompInfo) and len(L.detail.gens) == 1:
            tgt, src, conds = L.detail.gens[0]
            if order_class(src, agents) != 'inorder':
                viol('R-ITER', 'lists-agents-in-joining-order', f"get_agents builds its list from {src!r}", where)
                return False
            ag = Sub(agents, tgt) if strip_versions(src) == agents else tgt
            if L.detail.elt != ag:
                viol('R-FRESH', 'yields-the-agents', f"get_agents collects {L.detail.elt!r}, not the agents", where)
                return False
            hc = ATruthy(App('call:' + CORE + 'Agent.has_component', (ag, App('*', (va,)))))
            if not conds:
                if implies(p.cond, notempl) is not None:
                    viol('R-GUARD', 'template-filter-applied', "get_agents returns every agent although a component template was given", where)
                    return False
                return True
            if f_and(*conds) != hc:
                viol('R-GUARD', 'template-filter-is-has_component', f"get_agents filters with [{f_and(*conds)!r}], not has_component(*args)", where)
                return False
            return True
        if isinstance(L, Fresh) and L.kind in ('list', 'call:list') and not L.items:
            # literal + appends in a loop over agents
            loops = [e for e in p.events if e.kind == 'loop' and order_class(e.data.get('iter'), agents) != 'unrelated']
            if implies(p.cond, notempl) is None and not loops:
                viol('R-GUARD', 'no-template-lists-everyone', "get_agents returns an empty list when no template is given", where)
                return False
            if len(loops) != 1 or order_class(loops[0].data.get('iter'), agents) != 'inorder':
                viol('R-ITER', 'lists-agents-in-joining-order', f"get_agents does not make one in-order pass over the agents "
                     f"({[repr(e.data.get('iter')) for e in loops]})", where)
                return False
            lp = loops[0]
            iters = [e for e in p.events if e.kind == 'iter' and e.node is lp.node]
            ends = [e for e in p.events if e.kind == 'endloop' and e.node is lp.node]
            if any(e.data.get('how') != 'exhausted' for e in ends):
                viol('R-ITER', 'every-agent-considered', "get_agents leaves the loop over the agents early", where)
                return False
            bounds = [p.events.index(e) for e in iters] + [p.events.index(ends[-1])]
            for k, it_ev in enumerate(iters):
                seg = p.events[bounds[k]:bounds[k + 1]]
                info = it_ev.data['info']
                key = info.get('var') or info.get('index')
                ag = Sub(agents, key) if info.get('kind') != 'items' else Sub(info['seq'], info['index'])
                if isinstance(lp.data.get('iter'), App) and lp.data['iter'].fn == '.values':
                    ag = info.get('var')
                hc = ATruthy(App('call:' + CORE + 'Agent.has_component', (ag, App('*', (va,)))))
                F = f_and(*[e.data['formula'] for e in seg if e.kind == 'cond'])
                apps = [e for e in seg if e.kind == 'store' and strip_versions(e.data.get('target')) == L]
                if implies(F, hc) is None:
                    good = len(apps) == 1 and apps[0].data.get('store') == 'append' and apps[0].data.get('args') == (ag,)
                elif implies(F, f_not(hc)) is None:
                    good = not apps
                else:
                    good = False
                if not good:
                    viol('R-GUARD', 'agent-listed-iff-has_component', f"get_agents: under [{F!r}] the agent is stored {len(apps)} time(s); it "
                         f"must be appended once exactly when has_component(*args) holds", cx.where(ga, it_ev.line), path=p.lines())
                    return False
            return True
        viol('R-FRESH', 'returns-a-fresh-list', f"get_agents returns {L!r}: not a list allocated in this call (a live view would change "
             f"under the caller, and the caller's edits would reach the environment)", where)
        return False

    n = 0
    for p in cx.walker.paths(ga, WalkOptions(unroll=1)):
        if p.end != 'return':
            continue
        n += 1
        v = p.last.data.get('value')
        where = cx.where(ga, p.last.line)
        tagged = implies(p.cond, f_not(none_tag)) is None
        untagged = implies(p.cond, none_tag) is None
        if not (tagged or untagged):
            viol('R-NONE', 'tag-filter-decided-by-is-not-None',
                 f"get_agents decides whether to filter by tag with [{p.cond!r}], not with `tag is not None`: the legal tag 0 (the "
                 f"default tag NONE) would be treated as 'no filter'", where)
            continue
        if untagged:
            base_list_ok(p, v, where)
            continue
        # tagged: [a for a in base if a.tag == tag]
        if not (isinstance(v, Fresh) and v.kind == 'listcomp' and isinstance(v.detail, CompInfo) and len(v.detail.gens) == 1):
            viol('R-FRESH', 'returns-a-fresh-list', f"get_agents (tag given) returns {v!r}", where)
            continue
        tgt, src, conds = v.detail.gens[0]
        want = mk_cmp(Attr(tgt, 'tag'), '==', tag)
        if not (v.detail.elt == tgt and len(conds) == 1 and conds[0] == want):
            viol('R-GUARD', 'tag-filter-is-equality', f"get_agents filters by tag with {[repr(c) for c in conds]}; it must keep exactly the "
                 f"agents with a.tag == tag", where)
            continue
        base_list_ok(p, src, where)
    cx.floor('get_agents returning paths', n, 4)
    if not reported:
        cx.ok('R-GUARD', 'get_agents: fresh list, joining order, has_component(*args) template filter, tag filter iff tag is not None',
              where=cx.where(ga), function=ga.qualname, paths=n)
    check_pure(cx, ga.qualname)
    from .common import check_result_fresh
    check_result_fresh(cx, ga.qualname)

    # ------------------------------------------------------------ get_random_agent / shuffle
    rng = Attr(Attr(self_s, 'model'), 'random')
    for name in ('get_random_agent', 'shuffle'):
        fn = cx.fn(f"{ENVQ}.{name}")
        fva = Sym('*' + fn.vararg) if fn.vararg else None
        good_all = True
        nret = 0
        for p in cx.walker.paths(fn, WalkOptions(unroll=1, callee_raises=False)):
            calls = [e for e in p.events if e.kind == 'call' and any(t.qualname == ga.qualname for t in e.data.get('targets', []))]
            if len(calls) != 1 or calls[0].data.get('args') != (App('*', (fva,)),) or dict(calls[0].data.get('kw', ())) != {'tag': Sym('tag')} \
                    or calls[0].data.get('recv') != Sym(fn.params[0]):
                good_all = False
                cx.violation('R-FWD', fn.qualname, 'filters-through-get_agents',
                             f"{name} must obtain its candidates from self.get_agents(*args, tag=tag) (found "
                             f"{[(repr(c.data.get('args')), repr(c.data.get('kw'))) for c in calls]}): the filter is not applied to the "
                             f"random {'pick' if name != 'shuffle' else 'order'}", where=cx.where(fn))
                break
            L = calls[0].data.get('result')
            v = p.last.data.get('value') if p.end == 'return' else None
            nret += 1
            empty = mk_cmp(App('len', (L,)), '==', Num(Fraction(0)))
            if name == 'get_random_agent':
                if implies(p.cond, empty) is None:
                    if v != Const(None):
                        good_all = False
                        cx.violation('R-GUARD', fn.qualname, 'nothing-when-no-candidate', f"with no candidate get_random_agent returns {v!r}",
                                     where=cx.where(fn, p.last.line))
                else:
                    ch = [e for e in p.events if e.kind == 'call' and e.data.get('callee_name') == 'random.Random.choice']
                    if not (len(ch) == 1 and ch[0].data.get('recv') == Attr(Attr(Sym(fn.params[0]), 'model'), 'random')
                            and ch[0].data.get('args') == (L,) and v == ch[0].data.get('result')):
                        good_all = False
                        cx.violation('R-GUARD', fn.qualname, 'pick-is-model-random-choice-over-the-filtered-list',
                                     f"get_random_agent must return self.model.random.choice(<the filtered list>) (returns {v!r})",
                                     where=cx.where(fn, p.last.line))
            else:
                sh = [e for e in p.events if e.kind == 'store' and e.data.get('store') == 'shuffle']
                if not (len(sh) == 1 and sh[0].data.get('target') == L and sh[0].data.get('rng') == Attr(Attr(Sym(fn.params[0]), 'model'), 'random')
                        and v == L):
                    good_all = False
                    cx.violation('R-GUARD', fn.qualname, 'shuffles-and-returns-the-filtered-list',
                                 f"shuffle must permute the filtered fresh list with self.model.random.shuffle and return it (returns {v!r})",
                                 where=cx.where(fn, p.last.line if p.last else None))
        # purity apart from the permutation of the fresh list
        others = [(w, ch) for w, ch in cx.effects.trans_writes(fn) if w.kind != 'shuffle']
        if others:
            good_all = False
            w, ch = others[0]
            cx.violation('R-PURE', fn.qualname, 'does-not-alter-the-environment', f"{name} can write {w.loc} ({w.kind} at {w.where})", where=cx.where(fn))
        if good_all and nret:
            cx.ok('R-FWD', f"{name}: candidates = get_agents(*args, tag=tag); drawn with Model.random; environment untouched", where=cx.where(fn),
                  function=fn.qualname)
