"""C05 - systems changing the system set mid-timestep never cause skips or reruns."""
from __future__ import annotations

from sa.report import Cx
from sa.walker import WalkOptions
from sa.terms import Sym, Attr, Sub, App, Fresh, AIs, f_and, f_or, implies, atoms_of
from .common import CORE, scheduler_paths, exec_sites, classify_iterable, queue_term, strip_versions
from .c02 import registered_atom_kind, guard_of_sites

PID = 'C05'
EXPLANATION = (
    "R-ITER-snapshot: the scheduler loop calls the open-world System.execute, which (G6) may call add_system / "
    "remove_system (System.clean_up is the package's own such caller - confirmed in the call graph each run); a list "
    "iterator over a list that shrinks at or before the cursor skips the successor and one that grows before the cursor "
    "repeats the current element (language fact), so the iterable must be a fresh same-order copy of the queue. "
    "R-GUARD: a still-registered test of the very object (identity, not merely its id) dominates the execute call, "
    "otherwise a system removed before its turn still runs from the snapshot. At most one execute per iteration; the "
    "snapshot is not mutated in the body. Decides the necessary structure; whether a system added mid-step runs now or "
    "next step is left open by the property.")
EXPLANATION += (' The scheduler loop is left early (break / return) only on a path that established that the model is no longer running. Premise: all of C01 (priority order, queue holds each registered system once).')
EXPLANATION += (' add_system / remove_system / clean_up write the registry and the queue and nothing else of the tabled model state; overrides of System.clean_up hand the removal on to super().clean_up on every path.')
EXPLANATION += (' (System.model included.)')
EXPLANATION += (' SystemNotFoundError is an ordinary Exception whose constructor only formats; no package function calls System.clean_up().')
ASSUMPTIONS = ["G6 open-world callbacks may call any public method", "list iterator index semantics (language fact)"]


def run(cx: Cx):
    fn, ps = scheduler_paths(cx, unroll=2)
    self_n = fn.params[0]
    Q = queue_term(self_n)

    # the premise: execute() can reach queue mutations (package's own witness: System.clean_up -> remove_system)
    cu = cx.prog.functions.get(CORE + 'System.clean_up')
    if cu is not None:
        ws = [w for w, ch in cx.effects.trans_writes(cu) if w.loc == (CORE + 'SystemManager', 'execution_queue')]
        cx.ok('R-ITER', f"premise: System.clean_up (callable from execute) mutates the queue at {len(ws)} site(s)",
              where=cu.where, function=cu.qualname)

    loops = {}
    by_node = {}
    for p in ps:
        for s in exec_sites(cx, p):
            if s.loop_ev is None:
                continue
            loops.setdefault((s.loop_id, repr(strip_versions(s.loop_ev.data.get('iter')))), s)
            by_node.setdefault(id(s.ev.node), []).append(s)
            # snapshot not mutated inside the iteration
            it = s.loop_ev.data.get('iter')
            for e in p.events:
                if e.kind == 'store' and e.loops and e.loops[0] == s.loop_id and strip_versions(e.data.get('target')) == it \
                        and classify_iterable(it, Q) == 'copy':
                    cx.violation('R-ITER', fn.qualname, 'snapshot-mutated-in-loop',
                                 f"the snapshot being iterated is mutated inside the loop ({e.data.get('store')})",
                                 where=cx.where(fn, e.line), path=p.lines())
    cx.floor('scheduler loops calling System.execute', len(loops), 1)
    for lid, s in loops.items():
        it = s.loop_ev.data.get('iter')
        info = s.iter_ev.data['info']
        kind = classify_iterable(it, Q) if info.get('kind') == 'iter' else 'index'
        where = cx.where(fn, s.loop_ev.line)
        if kind == 'copy':
            cx.ok('R-ITER', 'scheduler iterates a fresh same-order copy of the queue', where=where, function=fn.qualname,
                  iterable=repr(it))
        elif kind == 'live':
            cx.violation('R-ITER', fn.qualname, 'iterates-live-queue',
                         "execute_systems iterates the live execution_queue while System.execute() may add or remove "
                         "systems: a system that removes itself (System.clean_up) makes its successor be skipped, a "
                         "higher-priority insertion makes the current system run twice", where=where,
                         iterable=repr(it))
        elif kind == 'index':
            cx.violation('R-ITER', fn.qualname, 'iterates-live-queue',
                         "execute_systems walks the live queue by index while System.execute() may add or remove systems",
                         where=where, iterable=repr(it))
        elif kind == 'stored':
            cx.violation('R-ITER', fn.qualname, 'snapshot-taken-in-this-timestep',
                         f"execute_systems iterates {it!r}, a snapshot kept in a field across calls: systems registered or removed "
                         f"since it was taken are not honoured in this timestep", where=where)
        elif kind in ('reversed', 'sorted', 'set'):
            cx.violation('R-ITER', fn.qualname, f"snapshot-order-{kind}",
                         f"execute_systems iterates {it!r}: not a same-order copy of the queue", where=where)
        else:
            cx.inconclusive('R-ITER', 'scheduler iterable', f"{it!r} is not recognisably the queue or a same-order copy",
                            where=where, function=fn.qualname)

    # the snapshot must be taken in the timestep it is used in: a loop that runs after the clock was advanced (a later step
    # of a multi-step request) must iterate a copy allocated after that clock write
    TLOC = (CORE + 'SystemManager', 'timestep')
    stale = None
    for root in (None, CORE + 'Model.execute'):
        try:
            rfn, rps = scheduler_paths(cx, unroll=2, root=root)
        except Exception:
            continue
        for p in rps:
            evs = p.events
            clocks = [i for i, e in enumerate(evs) if e.kind == 'store' and e.data.get('loc') == TLOC]
            for s in exec_sites(cx, p):
                if s.loop_ev is None:
                    continue
                li = evs.index(s.loop_ev)
                prev_clock = max([c for c in clocks if c < li], default=None)
                if prev_clock is None:
                    continue
                it = s.loop_ev.data.get('iter')
                if classify_iterable(it, queue_term(fn.params[0])) != 'copy' and not isinstance(it, Fresh):
                    continue
                alloc = [i for i, e in enumerate(evs[:li]) if e.kind == 'call' and e.data.get('result') is not None and e.data.get('result') == it]
                if alloc and alloc[-1] < prev_clock:
                    stale = (p, s, rfn)
                    break
            if stale:
                break
        if stale:
            break
    if stale:
        p, s, rfn = stale
        cx.violation('R-ITER', fn.qualname, 'snapshot-taken-in-this-timestep',
                     "a later timestep of a multi-step request walks a snapshot of the queue that was taken before the clock was last "
                     "advanced: a system registered during an earlier step of the same request never runs in the following steps "
                     "although it stays registered for whole timesteps", where=cx.where(rfn, s.loop_ev.line), path=p.lines())
    else:
        cx.ok('R-ITER', 'every timestep of a multi-step request takes its own snapshot', where=cx.where(fn), function=fn.qualname)

    def _pre_clock(site):
        i = site.path.events.index(site.ev)
        return not any(e.kind == 'store' and e.data.get('loc') == TLOC for e in site.path.events[:i])
    for nid, sites in by_node.items():
        first = [s for s in sites if s.iter_ev is not None and s.iter_ev.data.get('k') == 1 and _pre_clock(s)]
        if not first:
            continue
        s0 = first[0]
        G = guard_of_sites(cx, first)
        kinds = {}
        for a in atoms_of(G):
            k = registered_atom_kind(a, s0.recv, self_n)
            if k and implies(G, a) is None:
                kinds[k] = a
        where = cx.where(fn, s0.ev.line)
        if 'identity' in kinds:
            cx.ok('R-GUARD', 'still-registered test (object identity) dominates System.execute', where=where,
                  function=fn.qualname, atom=repr(kinds['identity']))
        elif 'id-only' in kinds:
            cx.violation('R-GUARD', fn.qualname, 'still-registered-test-by-identity',
                         "the still-registered test only looks at the system's id: a system removed mid-step whose id was "
                         "re-registered by another system still runs from the snapshot", where=where, guard=repr(G))
        else:
            cx.violation('R-GUARD', fn.qualname, 'still-registered-test',
                         "no still-registered test dominates System.execute: a system removed by an earlier system of the "
                         "same timestep still runs", where=where, guard=repr(G))
    # every entry of the snapshot gets its turn: the scheduler loop is left early only because the model stopped running
    from .common import status_atom_kind
    from sa.terms import f_not
    sched_lines = {lid for lid, _ in loops}
    # a step of a running model always walks the queue: no flag, cache or early return lets a step pass without giving the
    # registered systems their turn
    from .c02 import _passed_entry_check
    skipped = None
    for p in ps:
        if p.end == 'raise' or _passed_entry_check(cx, p) is False:
            continue
        if not any(e.kind == 'loop' and e.node.lineno in sched_lines for e in p.events):
            from .common import known_empty_on
            if known_empty_on(p.cond, queue_term(fn.params[0])):
                continue        # nothing is queued: the walk would visit nobody
            skipped = p
            break
    if skipped is not None:
        cx.violation('R-ITER', fn.qualname, 'running-step-walks-the-queue',
                     f"execute_systems can finish a step of a running model without walking the queue (path condition {skipped.cond!r}): "
                     f"systems that stay registered for the whole timestep do not run in it", where=cx.where(fn, skipped.last.line if skipped.last else None),
                     path=skipped.lines())
    else:
        cx.ok('R-ITER', 'every step of a running model walks the queue', where=cx.where(fn), function=fn.qualname)
    early = None
    n_exits = 0
    for p in ps:
        evs = p.events
        exits = [e for e in evs if e.kind == 'endloop' and e.node.lineno in sched_lines and e.data.get('how') == 'break']
        if p.end == 'return' and p.last is not None and p.last.loops and p.last.loops[0] in sched_lines:
            exits.append(p.last)
        for en in exits:
            lid = en.node.lineno if en.kind == 'endloop' else en.loops[0]
            i = evs.index(en)
            j = i
            while j >= 0 and not (evs[j].kind == 'iter' and evs[j].node.lineno == lid):
                j -= 1
            depth = len(evs[j].loops) if j >= 0 else 1
            conds = [x.data['formula'] for x in evs[max(j, 0):i] if x.kind == 'cond' and len(x.loops) <= depth]
            F = f_and(*conds)
            n_exits += 1
            stopped = False
            for a in atoms_of(F):
                for lit in (a, f_not(a)):
                    if status_atom_kind(cx, lit) == 'not-running' and implies(F, lit) is None:
                        stopped = True
            if not stopped and early is None:
                early = (p, en, F)
    if early is not None:
        p, en, F = early
        cx.violation('R-ITER', fn.qualname, 'loop-left-only-when-the-model-stopped',
                     f"execute_systems leaves the loop over the snapshot early under [{F!r}], which does not establish that the model "
                     f"stopped running: the systems queued behind that point lose their turn in this timestep", where=cx.where(fn, en.line),
                     path=p.lines())
    else:
        cx.ok('R-ITER', f"the scheduler loop is left early only when the model is no longer running ({n_exits} early exits examined)",
              where=cx.where(fn), function=fn.qualname)
    cu2 = cx.prog.functions.get(CORE + 'System.clean_up')
    if cu2 is not None:
        me = Sym(cu2.params[0])
        reg = Attr(Attr(Attr(me, 'model'), 'systems'), 'systems')
        badp = None
        for p in cx.walker.paths(cu2, WalkOptions(unroll=1, callee_raises=False)):
            if p.end == 'raise':
                continue
            rm = [e for e in p.events if e.kind == 'call' and any(t.qualname == CORE + 'SystemManager.remove_system' for t in e.data.get('targets', []))
                  and e.data.get('args') == (Attr(me, 'id'),)]
            if rm:
                continue
            # not removing is only right when the registry itself says that the id now belongs to another object
            via_registry = any(isinstance(a, AIs) and any(strip_versions(getattr(t, 'base', None) if isinstance(t, Sub) else
                                                                      (t.args[0] if isinstance(t, App) and t.fn == '.get' and t.args else None)) == reg
                                                        for t in (a.a, a.b)) for a in atoms_of(p.cond))
            if not via_registry:
                badp = p
        if badp is not None:
            cx.violation('R-PAIR', cu2.qualname, 'clean_up-removes-the-system',
                         f"System.clean_up returns without calling remove_system(self.id) on a path [{badp.cond!r}] that has not established, "
                         f"from the registry itself, that another object holds the id: the retired system stays queued and keeps running",
                         where=cx.where(cu2))
        else:
            cx.ok('R-PAIR', 'System.clean_up removes the system from its scheduler', where=cx.where(cu2), function=cu2.qualname)
        # ... and nothing else of the model: registering / removing a system changes who is scheduled, not the clock, the status or
        # the environment (a removal that also completes the model stops the systems registered in the same step from ever running)
        from .common import STATE_FIELDS
        allowed = {(CORE + 'SystemManager', 'systems'), (CORE + 'SystemManager', 'execution_queue')}
        for q in (CORE + 'SystemManager.add_system', CORE + 'SystemManager.remove_system', CORE + 'System.clean_up'):
            f1 = cx.prog.functions.get(q)
            if f1 is None:
                continue
            extra = [(w, ch) for w, ch in cx.effects.trans_writes(f1) if w.loc and w.loc not in allowed and w.loc[1] in STATE_FIELDS]
            if extra:
                w, ch = extra[0]
                cx.violation('R-DISC', q, 'registration-changes-the-schedule-only',
                             f"{q} also writes {w.loc[0].rsplit('.', 1)[-1]}.{w.loc[1]} ({w.describe()}"
                             f"{' via ' + ' -> '.join(ch) if ch else ''}): registering or removing a system must change who is scheduled and "
                             f"nothing else of the model", where=w.where)
            else:
                cx.ok('R-DISC', f"{q.rsplit('.', 2)[-2]}.{f1.name} writes the registry and the queue only", where=cx.where(f1), function=q)
        # the documented "no such system" error reaches the caller as that error, whatever the identifier is (a tuple id and a
        # '%s' % id message: the constructor raises TypeError, a guarded removal no longer catches it and the step is abandoned)
        from .common import check_error_ctor_pure, check_error_is_plain_exception
        check_error_is_plain_exception(cx, CORE + 'SystemNotFoundError')
        check_error_ctor_pure(cx, cx.prog.cls(CORE + 'SystemNotFoundError'))
        # nobody in the package retires a system on its own initiative: clean_up() is for the model's code to call (a collector that
        # unregisters itself "at the end of its window" drops the last beat; an alias that goes through clean_up() runs user code)
        strays = [(k, ev) for k, ev in cx.effects.callers_of(cu2) if not (ev.data.get('via') == 'super')]
        if strays:
            k, ev = strays[0]
            kf = cx.prog.functions.get(k.split('#')[0])
            cx.violation('R-DISC', k, 'package-never-retires-a-system-itself',
                         f"{k} calls clean_up(): the package removes a system only when asked through remove_system - a system that "
                         f"stays registered for the whole timestep runs in it", where=cx.where(kf, ev.line) if kf else '')
        else:
            cx.ok('R-DISC', 'no package function calls System.clean_up()', where=cx.where(cu2), function=cu2.qualname)
        # ... for every kind of system the package ships: an override may do more (flush what it holds), but it hands the removal on
        from .common import check_overrides_forward
        check_overrides_forward(cx, CORE + 'System', ['clean_up'], rule='R-PAIR')
    # one execute per iteration
    for p in ps:
        per = {}
        for s in exec_sites(cx, p):
            if s.iter_ev is not None:
                per.setdefault(id(s.iter_ev), []).append(s)
        for lst in per.values():
            if len(lst) > 1:
                cx.violation('R-GUARD', fn.qualname, 'one-execute-per-iteration',
                             "a scheduler iteration calls System.execute more than once", where=cx.where(fn, lst[1].ev.line),
                             path=p.lines())
                return
    cx.ok('R-GUARD', 'at most one execute per iteration', where=cx.where(fn), function=fn.qualname)
    # 'no system runs more than once' also needs the queue to hold each registered system once: removal must really remove
    from .c01 import check_remove_pairing
    check_remove_pairing(cx)
    from .common import include_premises
    include_premises(cx, ['C01'], 'no skips or reruns needs a queue that holds each registered system exactly once')
    include_premises(cx, ['C02'], "which systems are 'eligible' in a timestep is C02's activation window",
                     only=lambda o: o.rule == 'R-GUARD' and ('window' in o.key or 'activation' in o.key))


