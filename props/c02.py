"""C02 - activation window, +1 per step, execute(n) == n steps, model clock == scheduler clock."""
from __future__ import annotations

from fractions import Fraction

from sa.report import Cx
from sa.walker import WalkOptions
from sa.terms import (Sym, Attr, Sub, App, Num, Const, Fresh, ACmp, AIn, AIs, AEq, ADiv, ATruthy, AIsInst, FNot, FTrue, FFalse,
                      f_and, f_or, f_not, compare, implies, mk_cmp, atoms_of, subst_atoms, sub, sign_normalise)
from .common import (CORE, COLL, check_atomic, check_forwarding_chain, strip_versions, scheduler_paths, exec_sites,
                     status_atom_kind, queue_term, is_system_execute_call)

PID = 'C02'
EXPLANATION = (
    "R-GUARD: the disjunction over CFG paths of the branch conditions that dominate the System.execute call inside one "
    "scheduler iteration, after copy propagation and with the recognised non-window conjuncts (model running, system "
    "still registered) set aside, is compared - as a predicate over the order regions of (start - t), (t - end) and the "
    "divisibility atom frequency | (t - start) - with the property's window predicate; exactly one execute per "
    "iteration. R-DISC on SystemManager.timestep: initialiser 0 and a single '+= 1' that lies outside the loop, after "
    "every execute of the step, on exactly the paths that passed the entry running-check; no re-entry into "
    "execute_systems from the package. Model.execute: type/value tests partition the inputs as the property says, the "
    "success paths loop range(n) over exactly one execute_systems call. Model.__getattr__('timestep') returns the "
    "scheduler's clock and Model holds no second copy. R-FWD: window parameters reach System's fields.")
EXPLANATION += (" Premises re-checked on every run: C01's pairing/discipline rules (each registered system queued exactly once) and all of C05 (every queued system visited once per step).")
EXPLANATION += (" The clock is not advanced on a path that a system's exception aborts. Premise: C17's `execute-collects-unconditionally`.")
EXPLANATION += (" Premise: C06's own-model rules on execute_systems; the collectors' constructors are held to R-API (order, names, defaults).")
ASSUMPTIONS = [
    "G6: user systems do not write scheduler fields directly; frequency >= 1 (quantifier)",
    "Python's % with positive modulus; divisibility is invariant under negation of the dividend",
]

TLOC = (CORE + 'SystemManager', 'timestep')


def window_predicate(sys_t, t):
    start, end, freq = Attr(sys_t, 'start'), Attr(sys_t, 'end'), Attr(sys_t, 'frequency')
    e, _ = sign_normalise(sub(t, start))
    return f_and(mk_cmp(start, '<=', t), mk_cmp(t, '<=', end), ADiv(freq, e))


def registered_atom_kind(f, sys_t, self_n='self'):
    """'identity' for tests that the very object is still registered, 'id-only' for a test of its id."""
    q = queue_term(self_n)
    reg = Attr(Sym(self_n), 'systems')
    if isinstance(f, AIn):
        c = strip_versions(f.container)
        if f.x == sys_t and c == q:
            return 'identity'
        if f.x == Attr(sys_t, 'id') and c == reg:
            return 'id-only'
    if isinstance(f, AIs):
        for a, b in ((f.a, f.b), (f.b, f.a)):
            if a == sys_t and isinstance(b, (App, Sub)):
                inner = b
                if isinstance(inner, App) and inner.fn == '.get' and strip_versions(inner.args[0]) == reg \
                        and inner.args[1] == Attr(sys_t, 'id'):
                    return 'identity'
                if isinstance(inner, Sub) and strip_versions(inner.base) == reg and inner.index == Attr(sys_t, 'id'):
                    return 'identity'
    return None


def guard_of_sites(cx: Cx, sites):
    """OR over paths of the AND of the conditions inside the iteration before the call."""
    conjs = []
    for s in sites:
        f = f_and(*[c.data['formula'] for c in s.conds])
        if f not in conjs:
            conjs.append(f)
    return f_or(*conjs)


def set_aside(cx: Cx, G, sys_t, self_n):
    """Replace recognised non-window atoms by TRUE (they are C05's / C06's obligations)."""
    aside = []

    def m(a):
        k = status_atom_kind(cx, a)
        if k == 'running':
            aside.append(('running', a))
            return FTrue
        if k == 'not-running':
            aside.append(('running', a))
            return FFalse
        if registered_atom_kind(a, sys_t, self_n):
            aside.append(('registered', a))
            return FTrue
        return None
    return subst_atoms(G, m), aside


def run(cx: Cx):
    fn, ps = scheduler_paths(cx, unroll=2)
    self_n = fn.params[0]
    t = Attr(Sym(self_n), 'timestep')

    # ------------------------------------------------------------ clause 1/2: window guard, one execute per iteration
    by_node = {}
    n_iter_checked = 0
    for p in ps:
        sites = exec_sites(cx, p)
        per_iter = {}
        for s in sites:
            if s.iter_ev is None:
                cx.violation('R-GUARD', fn.qualname, 'execute-inside-queue-loop',
                             "System.execute is called outside the scheduler loop", where=cx.where(fn, s.ev.line))
                continue
            per_iter.setdefault(id(s.iter_ev), []).append(s)
            by_node.setdefault(id(s.ev.node), []).append(s)
        for k, lst in per_iter.items():
            n_iter_checked += 1
            if len(lst) > 1:
                cx.violation('R-GUARD', fn.qualname, 'one-execute-per-iteration',
                             f"a scheduler iteration calls System.execute {len(lst)} times on one CFG path",
                             where=cx.where(fn, lst[1].ev.line), path=p.lines())
    if not by_node:
        cx.inconclusive('R-GUARD', 'execute call in scheduler', 'no System.execute call found in execute_systems',
                        where=cx.where(fn), function=fn.qualname)
    for nid, sites in by_node.items():
        s0 = sites[0]
        info = s0.iter_ev.data['info']
        # receiver must be the element of this iteration
        sys_t = s0.recv
        # only first-iteration instances are compared (later iterations carry primed loop variables)
        def _before_any_clock_write(site):
            i = site.path.events.index(site.ev)
            return not any(e.kind == 'store' and e.data.get('loc') == TLOC for e in site.path.events[:i])
        first = [s for s in sites if s.iter_ev.data.get('k') == 1 and _before_any_clock_write(s)]
        if not first:
            first = [s for s in sites if s.iter_ev.data.get('k') == 1][:1]
        G = guard_of_sites(cx, first)
        G2, aside = set_aside(cx, G, sys_t, self_n)
        E = window_predicate(sys_t, t)
        cex = compare(G2, E, domain='int')
        where = cx.where(fn, s0.ev.line)
        if cex is None:
            cx.ok('R-GUARD', 'activation window of System.execute', where=where, function=fn.qualname,
                  guard=repr(G), expected=repr(E), set_aside=[repr(a) for _, a in aside])
            continue
        eatoms = atoms_of(E)
        ebases = {a.base for a in eatoms if isinstance(a, ACmp)}
        unknown = [a for a in atoms_of(G2) if not ((isinstance(a, ACmp) and a.base in ebases) or a in eatoms)]
        verdict = 'differs'
        if unknown:
            # does any truth assignment of the unrecognised atoms make the guard equal to the window?
            import itertools
            verdict = 'differs'
            for bits in itertools.product((FTrue, FFalse), repeat=len(unknown)):
                mp = dict(zip(unknown, bits))
                if compare(subst_atoms(G2, mp), E, domain='int') is None:
                    verdict = 'unknown-conjunct'
                    break
        if verdict == 'differs':
            show = {a: b for a, b in cex.items() if not a.startswith('_')}
            cx.violation('R-GUARD', fn.qualname, 'activation-window',
                         f"execute_systems runs a system under [{G2!r}] but the property's window is [{E!r}]; they "
                         f"disagree in the region {show} (code runs it: {cex['_left']}, property: {cex['_right']})",
                         where=where, path=s0.path.lines(), found=repr(G2), expected=repr(E), counterexample=cex)
        else:
            cx.inconclusive('R-GUARD', 'activation window', f"the guard [{G2!r}] contains conjunct(s) "
                            f"{[repr(u) for u in unknown]} that the window rule does not recognise", where=where,
                            function=fn.qualname)
    cx.floor('scheduler iterations examined', n_iter_checked, 1)

    # a step that is abandoned by an exception has not happened: the clock stays, so that the driver's retry replays the timestep and
    # the systems that had not run yet (the collectors, lowest priority) still see it (`finally: timestep += 1` skips them for good)
    n_rp = 0
    advanced = None
    for p in cx.walker.paths(fn, WalkOptions(unroll=1)):
        rz = [e for e in p.events if e.kind == 'raise']
        if p.end != 'raise' or not rz or rz[-1].data.get('direct'):
            continue
        n_rp += 1
        if any(e.kind == 'store' and e.data.get('loc') == TLOC for e in p.events):
            advanced = advanced or p
    if advanced is not None:
        cx.violation('R-ORDER', fn.qualname, 'clock-stays-when-a-step-is-abandoned',
                     f"execute_systems advances the clock on a path that ends in an exception raised by a system [{advanced.cond!r}]: the "
                     f"systems behind it never run at that timestep, not even when the caller catches the error and steps again",
                     where=cx.where(fn, advanced.last.line), path=advanced.lines())
    elif n_rp:
        cx.ok('R-ORDER', f"the clock is not advanced on a step that a system aborts ({n_rp} raising path(s))", where=cx.where(fn), function=fn.qualname)
    # ------------------------------------------------------------ clause 3: clock discipline
    sites = cx.effects.sites_of(TLOC)
    for s in sites:
        d = s.ev.data
        if s.owner_q == CORE + 'SystemManager.__init__' and s.kind == 'rebind' and d.get('value') == Num(Fraction(0)):
            cx.ok('R-DISC', 'clock starts at 0', where=s.where, function=s.fn.qualname)
        elif s.owner_q == fn.qualname and s.kind == 'aug' and d.get('aug') == 'Add' and d.get('operand') == Num(Fraction(1)):
            cx.ok('R-DISC', 'clock += 1 in execute_systems', where=s.where, function=s.fn.qualname)
        elif s.owner_q == fn.qualname and s.kind == 'rebind' and d.get('value') == \
                __import__('sa.terms', fromlist=['add']).add(t, Num(Fraction(1))):
            cx.ok('R-DISC', 'clock = clock + 1 in execute_systems', where=s.where, function=s.fn.qualname)
        else:
            cx.violation('R-DISC', s.fn.qualname, f"timestep-{s.kind}",
                         f"{s.describe()}: the scheduler clock may only be initialised to 0 and advanced by exactly 1 in "
                         f"execute_systems", where=s.where)
    cx.floor('clock write sites', len(sites), 2)
    n_run = 0
    for p in ps:
        writes = [e for e in p.events if e.kind == 'store' and e.data.get('loc') == TLOC]
        execs = [e for e in p.events if is_system_execute_call(cx, e)]
        running = _passed_entry_check(cx, p)
        if p.end == 'raise':
            if writes:
                cx.violation('R-DISC', fn.qualname, 'clock-advanced-on-raising-path',
                             "the clock is advanced on a path that raises", where=cx.where(fn, writes[0].line), path=p.lines())
            continue
        if running is False:
            if writes:
                cx.violation('R-DISC', fn.qualname, 'clock-advanced-when-not-running',
                             "the clock is advanced although the model is not running", where=cx.where(fn, writes[0].line),
                             path=p.lines())
            continue
        n_run += 1
        if len(writes) != 1:
            cx.violation('R-DISC', fn.qualname, 'clock-advanced-exactly-once-per-step',
                         f"a running step advances the clock {len(writes)} times (path condition {p.cond!r})",
                         where=cx.where(fn, writes[1].line if len(writes) > 1 else None), path=p.lines())
            continue
        w = writes[0]
        # the step adds 1 to the clock as it is NOW: systems are open-world code and may themselves have requested steps
        # (model.execute() from inside execute()), so a value read before they ran is stale by the time it is written back
        iw = p.events.index(w)
        if any(is_system_execute_call(cx, e) for e in p.events[:iw]) and w.data.get('store') != 'aug':
            from sa.terms import subterms_of
            import ast as _ast
            v_ = w.data.get('value')
            first_hook = min(i for i, e in enumerate(p.events[:iw]) if is_system_execute_call(cx, e))
            rhs = getattr(w.node, 'value', None)
            names = {y.id for y in _ast.walk(rhs) if isinstance(y, _ast.Name)} if rhs is not None else set()
            stale_read = False
            for nm in names:
                defs = [i for i, e in enumerate(p.events[:iw]) if e.kind == 'assign' and e.data.get('name') == nm]
                if defs and defs[-1] < first_hook and any(strip_versions(y) == t for y in subterms_of(p.events[defs[-1]].data.get('value'))):
                    stale_read = True       # a local copy of the clock taken before the systems ran
            if stale_read:
                cx.violation('R-DISC', fn.qualname, 'clock-advanced-from-its-current-value',
                             f"the clock is set to {v_!r}, computed from a value read before this timestep's systems ran: a step that a "
                             f"system requests from inside execute() is overwritten, so n requests advance the clock by fewer than n",
                             where=cx.where(fn, w.line), path=p.lines())
                continue
        if w.loops:
            cx.violation('R-DISC', fn.qualname, 'clock-advanced-outside-loop',
                         "the clock is advanced inside the scheduler loop", where=cx.where(fn, w.line), path=p.lines())
            continue
        if any(p.events.index(e) > p.events.index(w) for e in execs):
            cx.violation('R-ORDER', fn.qualname, 'clock-advanced-after-all-executes',
                         "the clock is advanced before a system of the same step has run: systems observe t+1",
                         where=cx.where(fn, w.line), path=p.lines())
            continue
    cx.floor('running-step paths', n_run, 1)
    if n_run:
        cx.ok('R-DISC', f"clock advanced exactly once, after the loop, on {n_run} running path(s)", where=cx.where(fn),
              function=fn.qualname)
    # no re-entry
    reach = cx.effects.reachable([fn]) - {cx.effects.key(fn)}
    inner = set()
    for k in reach:
        if cx.effects.key(fn) in cx.effects.callees.get(k, ()):
            inner.add(k)
    if inner:
        cx.violation('R-DISC', fn.qualname, 're-entered-from-' + sorted(inner)[0],
                     f"execute_systems can be re-entered from package code it calls: {sorted(inner)}", where=cx.where(fn))
    else:
        cx.ok('R-DISC', 'no package re-entry into execute_systems', where=cx.where(fn), function=fn.qualname,
              reachable_functions=len(reach))

    # ------------------------------------------------------------ clause 4: Model.execute
    mex = cx.fn(CORE + 'Model.execute')
    nname = mex.params[1] if len(mex.params) > 1 else 'n'
    n = Sym(nname)
    type_ok_atoms = [AEq(App('type', (n,)), Sym('int')), AIsInst(n, Sym('int'))]
    mps = cx.walker.paths(mex, WalkOptions(unroll=2, callee_raises=False))
    succ_conds = []
    for p in mps:
        calls = [e for e in p.events if e.kind == 'call' and any(tg.qualname == fn.qualname for tg in e.data.get('targets', []))]
        other = [e for e in p.events if e.kind == 'call' and e.data.get('target_kind') in ('pkg', 'unknown')
                 and e not in calls and e.data.get('via') != 'getitem' and not e.data.get('full_inline')
                 and not e.data.get('inlined') and not e.inlined]
        if p.end == 'raise':
            last = p.last
            if not last.data.get('direct'):
                continue      # an error propagating out of a step
            if calls:
                cx.violation('R-ATOMIC', mex.qualname, 'rejects-before-stepping',
                             "Model.execute steps the model before rejecting its argument", where=cx.where(mex, last.line),
                             path=p.lines())
            continue
        iters = [e for e in p.events if e.kind == 'iter']
        loops = [e for e in p.events if e.kind == 'loop']
        # acceptance is decided by the conditions established before the first step is taken
        first_it = p.events.index(iters[0]) if iters else len(p.events)
        succ_conds.append(f_and(*[e.data['formula'] for e in p.events[:first_it + 1] if e.kind == 'cond' and
                                  (p.events.index(e) < first_it)]))
        if len(loops) == 0 and len(calls) == 1 and implies(p.cond, mk_cmp(n, '==', Num(Fraction(1)))) is None:
            continue        # a fast path for the common single step: n == 1 established, one step taken
        if len(loops) != 1:
            cx.violation('R-ITER', mex.qualname, 'single-range-n-loop',
                         f"Model.execute's accepting path has {len(loops)} loops (expected one loop of n steps)",
                         where=cx.where(mex), path=p.lines())
            continue
        lp = loops[0]
        info_ok = False
        itn = lp.data.get('iter')
        if itn is None:
            # a counting while loop: the k-th loop test must be `n - (k-1) > 0` (a local that starts at n and goes down by
            # one per step) or `(k-1) < n` (a local that starts at 0 and goes up by one per step)
            tests = [e for e in p.events if e.kind == 'cond' and e.data.get('loop_test')]
            good_tests = bool(tests)
            for k, te in enumerate([t for t in tests if t.data.get('taken')]):
                want = mk_cmp(sub(n, Num(Fraction(k))), '>', Num(Fraction(0)))
                if compare(te.data['formula'], want, domain='int') is not None:
                    good_tests = False
            exits = [t for t in tests if not t.data.get('taken')]
            for te in exits:
                k = len([t for t in tests if t.data.get('taken') and p.events.index(t) < p.events.index(te)])
                want = f_not(mk_cmp(sub(n, Num(Fraction(k))), '>', Num(Fraction(0))))
                if compare(te.data['formula'], want, domain='int') is not None:
                    good_tests = False
            if good_tests:
                info_ok = True
            else:
                cx.inconclusive('R-ITER', 'Model.execute trip count', "Model.execute steps in a while loop whose trip count is not "
                                "recognisably n", where=cx.where(mex, lp.line), function=mex.qualname)
                continue
        if isinstance(itn, App) and itn.fn == 'range':
            a = itn.args
            if (len(a) == 1 and a[0] == n) or (len(a) >= 2 and a[0] == Num(Fraction(0)) and a[1] == n and
                                                (len(a) == 2 or a[2] == Num(Fraction(1)))):
                info_ok = True
            elif len(a) == 2 and sub(a[1], a[0]) == n and (len(a) == 2):
                info_ok = True
        if not info_ok:
            cx.violation('R-ITER', mex.qualname, 'trip-count-n',
                         f"Model.execute iterates {itn!r}; the trip count must be exactly n", where=cx.where(mex, lp.line),
                         path=p.lines())
            continue
        if len(calls) != len(iters) or other:
            cx.violation('R-ITER', mex.qualname, 'one-step-per-iteration',
                         f"Model.execute performs {len(calls)} execute_systems call(s) in {len(iters)} iteration(s)"
                         + (f" and also calls {other[0].data.get('callee_name')}" if other else ''),
                         where=cx.where(mex, lp.line), path=p.lines())
            continue
        bad_recv = [c for c in calls if c.data.get('recv') != Attr(Sym(mex.params[0]), 'systems')]
        bad_arg = [c for c in calls if c.data.get('args') or c.data.get('kw')]
        if bad_recv or bad_arg:
            cx.violation('R-FWD', mex.qualname, 'steps-own-scheduler',
                         "Model.execute must call execute_systems() of its own scheduler without changing its error mode",
                         where=cx.where(mex, calls[0].line), path=p.lines())
            continue
    if succ_conds:
        from sa.terms import drop_literals, term_symbols
        # only the literals that speak about n decide acceptance; everything else on these paths (scheduler internals
        # when a helper was merged into the loop) is another clause's business
        S = f_or(*[drop_literals(c, lambda a: n not in term_symbols(a)) for c in succ_conds])
        ok = False
        tried = []
        for ta in type_ok_atoms:
            E = f_and(ta, mk_cmp(n, '>=', Num(Fraction(1))))
            cex = compare(S, E, domain='int')
            tried.append((E, cex))
            if cex is None:
                ok = True
                cx.ok('R-GUARD', 'Model.execute accepts exactly integer n >= 1', where=cx.where(mex), function=mex.qualname,
                      accepts=repr(S))
                break
        if not ok:
            E, cex = tried[0]
            cx.violation('R-GUARD', mex.qualname, 'accepts-exactly-integer-n-ge-1',
                         f"Model.execute accepts n under [{S!r}] but must accept exactly [{E!r}] (non-integer or "
                         f"non-positive n must be rejected)", where=cx.where(mex), found=repr(S), expected=repr(E),
                         counterexample=cex)
    else:
        cx.inconclusive('R-GUARD', 'Model.execute', 'no accepting path found', where=cx.where(mex), function=mex.qualname)
    check_atomic(cx, mex.qualname, ['TypeError', 'ValueError'])

    # ------------------------------------------------------------ clause 5: Model.timestep is the scheduler's clock
    model = cx.prog.cls(CORE + 'Model')
    ga = cx.fn(CORE + 'Model.__getattr__')
    item = Sym(ga.params[1])
    want = Attr(Attr(Sym(ga.params[0]), 'systems'), 'timestep')
    found = False
    for p in cx.walker.paths(ga, WalkOptions(unroll=1)):
        c = p.cond
        key = mk_cmp(item, '==', Const('timestep'))
        if implies(c, key) is None and p.end == 'return':
            found = True
            v = p.last.data.get('value')
            if v == want:
                cx.ok('R-FWD', "Model.timestep forwards to systems.timestep", where=cx.where(ga, p.last.line), function=ga.qualname)
            else:
                cx.violation('R-FWD', ga.qualname, 'timestep-forwards-to-scheduler-clock',
                             f"Model.__getattr__('timestep') returns {v!r}, not the scheduler's clock {want!r}",
                             where=cx.where(ga, p.last.line))
    if not found:
        cx.violation('R-FWD', ga.qualname, 'timestep-forwards-to-scheduler-clock',
                     "Model.__getattr__ has no returning path for item == 'timestep'", where=cx.where(ga))
    shadow = []
    for c in cx.prog.mro(model):
        if c.slots and 'timestep' in c.slots:
            shadow.append(f"slot in {c.name}")
        if 'timestep' in c.class_assigns:
            shadow.append(f"class attribute in {c.name}")
        if 'timestep' in c.methods:
            m = c.methods['timestep'][0]
            # a property that itself forwards to the scheduler clock is fine
            pr = cx.walker.paths(m, WalkOptions(unroll=1))
            if not (m.is_property and all(p.end == 'return' and p.last.data.get('value') ==
                                          Attr(Attr(Sym(m.params[0]), 'systems'), 'timestep') for p in pr)):
                shadow.append(f"method/property in {c.name}")
    for s in cx.effects.sites_of_field('timestep'):
        if s.loc and s.loc[0] == model.qualname:
            shadow.append(f"store at {s.where}")
    if shadow:
        cx.violation('R-FWD', model.qualname, 'no-second-copy-of-the-clock',
                     f"Model holds its own 'timestep' ({shadow}); __getattr__ is then bypassed and the copies can diverge",
                     where=cx.where(ga))
    else:
        cx.ok('R-FWD', 'Model holds no copy of the clock', where=model.where, function=model.qualname)

    # ------------------------------------------------------------ clause 6: window parameters reach the fields
    sysinit = cx.fn(CORE + 'System.__init__')
    for p in cx.walker.paths(sysinit, WalkOptions(unroll=1)):
        for name in ('priority', 'frequency', 'start', 'end'):
            st = [e for e in p.events if e.kind == 'store' and e.data.get('attr') == name]
            if len(st) == 1 and st[0].data.get('value') == Sym(name):
                cx.ok('R-FWD', f"System.{name} := parameter {name}", where=cx.where(sysinit, st[0].line), function=sysinit.qualname)
            else:
                cx.violation('R-FWD', sysinit.qualname, f"{name}-field-from-parameter",
                             f"System.__init__ does not store its '{name}' parameter in the field '{name}'",
                             where=cx.where(sysinit))
    for c in ('Collector', 'AgentCollector', 'FileCollector'):
        check_forwarding_chain(cx, COLL + c, ['frequency', 'start', 'end'], CORE + 'System.__init__')
    # the declared window is the window used: no package code rewrites start / end / frequency after construction
    for fld in ('start', 'end', 'frequency'):
        for s_ in cx.effects.sites_of((CORE + 'System', fld)):
            if s_.owner_name != '__init__':
                cx.violation('R-DISC', s_.fn.qualname, f"{fld}-rewritten",
                             f"{s_.describe()}: System.{fld} is written outside a constructor - a registered system no longer runs in the "
                             f"window it was declared with", where=s_.where)
            else:
                cx.ok('R-DISC', f"{fld} written only at construction", where=s_.where, function=s_.fn.qualname)
    from .common import include_premises
    include_premises(cx, ['C01'], 'a system runs once per due timestep only if it is queued exactly once',
                     only=lambda o: o.rule in ('R-PAIR', 'R-DISC', 'R-NONE', 'R-ATOMIC'))
    include_premises(cx, ['C05'], 'a system runs once per due timestep only if the scheduler visits every queued system once')
    include_premises(cx, ['C06'], 'the side condition of the window is "this scheduler\'s own model is running" (a status read through the '
                     'scheduled system belongs to another model)', only=lambda o: (o.function or '').endswith('execute_systems') and o.rule in ('R-GUARD', 'R-ORDER'))
    for c_ in ('Collector', 'AgentCollector', 'FileCollector'):
        cx.fn(COLL + c_ + '.__init__')          # R-API: positional order, names and defaults of the schedule parameters
    include_premises(cx, ['C17'], 'the systems the package ships (the collectors) do their work whenever the scheduler runs them: no second '
                     'look at a clock of their own', only=lambda o: 'execute-collects-unconditionally' in o.key)


def _passed_entry_check(cx: Cx, p):
    """True if the path established 'model running' at entry, False if it established the opposite, None if untested."""
    for e in p.events:
        if e.kind == 'cond' and not e.loops:
            for a in atoms_of(e.data['formula']):
                k = status_atom_kind(cx, a)
                if k in ('running', 'not-running'):
                    r = implies(e.data['formula'], a if k == 'running' else f_not(a))
                    if r is None:
                        return True
                    r2 = implies(e.data['formula'], f_not(a) if k == 'running' else a)
                    if r2 is None:
                        return False
        if e.kind in ('loop', 'store'):
            break
    return None
