"""C20 - class components and default tags belong to exactly one agent class."""
from __future__ import annotations

import ast

from sa.report import Cx
from sa.walker import WalkOptions
from sa.terms import (Sym, Attr, Sub, App, Fresh, Const, IfT, AIs, ATruthy, FNot, f_not, implies, term_symbols, compare)
from .common import CORE, super_init_bindings, const_default, check_atomic, check_keyed_insert, check_keyed_delete, strip_versions

PID = 'C20'
EXPLANATION = (
    "R-SHARED: _MetaAgent.__init__ assigns a fresh {} to _components and the NONE constant to _tag on every class it "
    "creates (nothing is inherited by attribute lookup) and no class body in the package assigns these names. R-DISC: "
    "class-level operations write _components/_tag of their receiver only (store rooted at the method's own first "
    "parameter), instance-level operations only the instance's `components`, which Agent.__init__ allocates fresh; no "
    "store moves one into the other. R-DYN + R-NONE in Agent.__init__: the value stored in `tag` is the explicit "
    "argument exactly when it `is not None` (truthiness would lose the legal tag 0) and otherwise the default read "
    "through the dynamic class of self (type(self) / self.__class__), never through a named class. R-ATOMIC + keyed "
    "store/delete discipline for the class-level and the instance-level component API (R-SIB: both agree).")
EXPLANATION += (' get_class_component / get_component are three-case lookups without truthiness; a subclass constructor passes only None or its own None-defaulted parameter as tag.')
EXPLANATION += (" An agent's own tag is written by Agent.__init__ only; the default-tag setter has no raising path; the private fields behind the documented `components` / `tag` views are located through the view properties.")
EXPLANATION += (' The default-tag setter stores into its receiver only.')
EXPLANATION += (' `Cls[T]` is get_class_component(T) / the exact-key look-up; the default-tag setter stores its argument on every path.')
ASSUMPTIONS = ["metaclass __init__ runs for every class statement (language fact)", "user hierarchies have no metaclass conflicts"]

META = CORE + '_MetaAgent'
MC = (META, '_components')
MT = (META, '_tag')
FC, FT = '_components', '_tag'
AC = (CORE + 'Agent', 'components')


def _rooted_at(t, sym):
    cur = strip_versions(t)
    while isinstance(cur, (Attr, Sub)):
        cur = cur.base
        cur = strip_versions(cur)
    return cur == sym


def run(cx: Cx):
    global MC, MT, FC, FT
    prog = cx.prog
    # the private names behind the documented `components` / `tag` views of a class are the implementation's business
    from .common import backing_field
    FC, FT = backing_field(cx, META, 'components', '_components'), backing_field(cx, META, 'tag', '_tag')
    MC, MT = (META, FC), (META, FT)
    meta = prog.cls(META)
    agent = prog.cls(CORE + 'Agent')
    minit = cx.fn(META + '.__init__')
    c = Sym(minit.params[0])

    # ------------------------------------------------------------ clause 1: per-class state allocated in the metaclass ctor
    n = 0
    for p in cx.walker.paths(minit, WalkOptions(unroll=1)):
        if p.end == 'raise':
            continue
        n += 1
        comps = [e for e in p.events if e.kind == 'store' and e.data.get('loc') == MC]
        tags = [e for e in p.events if e.kind == 'store' and e.data.get('loc') == MT]
        v = comps[-1].data.get('value') if comps else None
        if comps and comps[-1].data.get('store') == 'rebind' and isinstance(v, Fresh) and v.kind in ('dict', 'call:dict') and not v.items \
                and _rooted_at(comps[-1].data.get('target'), c):
            cx.ok('R-SHARED', 'every class gets its own fresh _components', where=cx.where(minit, comps[-1].line), function=minit.qualname)
        else:
            cx.violation('R-SHARED', minit.qualname, 'fresh-_components-per-class',
                         f"_MetaAgent.__init__ does not assign a fresh empty dict to the new class's _components (found {v!r}): "
                         f"subclasses would share or inherit their parent's class components", where=cx.where(minit), path=p.lines())
        tv = tags[-1].data.get('value') if tags else None
        none_const = tv == Attr(Sym('ECAgent.Tags'), 'NONE') or repr(tv) in ('0',)
        if tags and tags[-1].data.get('store') == 'rebind' and none_const and _rooted_at(tags[-1].data.get('target'), c):
            cx.ok('R-SHARED', 'every class starts with its own default tag NONE', where=cx.where(minit, tags[-1].line), function=minit.qualname)
        else:
            cx.violation('R-SHARED', minit.qualname, 'own-_tag-per-class',
                         f"_MetaAgent.__init__ does not give the new class its own _tag = NONE (found {tv!r}): a subclass "
                         f"would read its parent's default tag", where=cx.where(minit), path=p.lines())
    cx.floor('_MetaAgent.__init__ paths', n, 1)
    for ci in prog.classes.values():
        if prog.metaclass_of(ci) == meta or ci == meta:
            bad = [k for k in (FC, FT, 'components') if k in ci.class_assigns]
            if bad and ci != meta:
                cx.violation('R-SHARED', ci.qualname, 'no-class-body-state',
                             f"class body of {ci.qualname} assigns {bad}: shared with every subclass by attribute lookup",
                             where=ci.where)
    cx.ok('R-SHARED', 'no agent class body assigns _components/_tag', where=agent.where, function=agent.qualname)

    # ------------------------------------------------------------ clause 2: write discipline
    allowed = {MC: {'__init__': 'rebind', 'add_class_component': 'setitem', 'remove_class_component': 'delitem'},
               MT: {'__init__': 'rebind', 'tag': 'rebind'}}
    for loc, table in allowed.items():
        sites = cx.effects.sites_of(loc)
        for s in sites:
            self_sym = Sym(s.fn.params[0]) if s.fn.params else None
            kinds = table.get(s.owner_name)
            kind_ok = kinds == s.kind or (s.owner_name == 'remove_class_component' and s.kind == 'pop')
            if s.fn.cls == meta and kind_ok and _rooted_at(s.ev.data.get('target'), self_sym):
                cx.ok('R-DISC', f"{s.fn.name}: {s.kind} on the receiver's own {loc[1]}", where=s.where, function=s.fn.qualname)
            else:
                cx.violation('R-DISC', s.fn.qualname, f"{loc[1]}-{s.kind}-of-receiver-only",
                             f"{s.describe()}: class-level state may only be written by the metaclass constructor and the "
                             f"class-level API, on the receiver class itself", where=s.where)
        cx.floor(f"{loc[1]} write sites", len(sites), 2)
    # ... and the class-level API of one class never operates on another class: a call that reaches a class-level write through a
    # receiver other than `self` changes what a different class (a parent, a sibling) holds
    n_calls = 0
    for mname in ('add_class_component', 'remove_class_component', '__init__', 'tag#setter'):
        for mfn in ([prog.functions[META + '.tag#setter']] if mname == 'tag#setter' and (META + '.tag#setter') in prog.functions
                    else meta.methods.get(mname, [])[:1]):
            self_sym = Sym(mfn.params[0]) if mfn.params else None
            hit = None
            for p in cx.walker.paths(mfn, WalkOptions(unroll=1, callee_raises=False)):
                for e in p.events:
                    if e.kind == 'store' and e.data.get('attr') in ('tag', FT, 'components', FC) and not _rooted_at(e.data.get('target'), self_sym) \
                            and not any(o.key.endswith('class-level-operations-touch-the-receiver-only') for o in cx.violations()):
                        # `subclass.tag = val` in the setter of the default tag: the change is pushed into other classes
                        cx.violation('R-DISC', mfn.qualname, 'class-level-operations-touch-the-receiver-only',
                                     f"{mfn.qualname} stores {e.data.get('attr')} of {e.data.get('target')!r}, another class: a change made "
                                     f"on one class shows through its children (and their new untagged instances)", where=cx.where(mfn, e.line))
                    if e.kind != 'call' or e.data.get('target_kind') != 'pkg':
                        continue
                    n_calls += 1
                    recv = e.data.get('recv')
                    if recv is None or _rooted_at(recv, self_sym) or strip_versions(recv) == self_sym:
                        continue
                    for t in e.data.get('targets', []) or []:
                        if any(w.loc in (MC, MT) for w, _ch in cx.effects.trans_writes(t)):
                            hit = hit or (e, t)
            if hit:
                e, t = hit
                cx.violation('R-DISC', mfn.qualname, 'class-level-operations-touch-the-receiver-only',
                             f"{mfn.qualname} calls {t.qualname} on {e.data.get('recv')!r}, another class: attaching to (or detaching from) one "
                             f"class changes the class components of a different class", where=cx.where(mfn, e.line))
    if not any(o.key.endswith('class-level-operations-touch-the-receiver-only') for o in cx.violations()):
        cx.ok('R-DISC', f"class-level operations change the receiver class only ({n_calls} package call(s) examined)", where=meta.where,
              function=meta.qualname)
    for s in cx.effects.sites_of(AC):
        v = s.ev.data.get('value')
        syms = term_symbols(v) if v is not None else set()
        if any(isinstance(x, Attr) and x.name == FC for x in syms):
            cx.violation('R-DISC', s.fn.qualname, 'instance-components-not-seeded-from-class',
                         f"{s.describe()}: an instance's components are built from the class-level store", where=s.where)
    for s in cx.effects.sites_of(MC):
        v = s.ev.data.get('value')
        syms = term_symbols(v) if v is not None else set()
        if any(isinstance(x, Attr) and x.name == 'components' and not _rooted_at(x, Sym('__none__')) and
               isinstance(x.base, Sym) and x.base.name not in ('self', 'cls') for x in syms):
            pass
    ainit = cx.fn(CORE + 'Agent.__init__')
    self_s = Sym(ainit.params[0])
    tagp = Sym('tag') if 'tag' in ainit.params else None

    # an instance's tag is given at creation and the framework never rewrites it afterwards ("picking up" the class default later
    # overwrites an explicit NONE and makes an existing instance follow a later change of its class's default)
    tsites = cx.effects.sites_of((CORE + 'Agent', 'tag'))
    late = [s for s in tsites if not all(o == ainit.qualname for o in (s.owners or {s.owner_q}))]
    if late:
        cx.violation('R-DISC', late[0].fn.qualname, 'instance-tag-set-at-creation-only',
                     f"{late[0].describe()}: an agent's own tag is written after its creation - the tag it was created with (an explicit "
                     f"tag always wins, NONE included) is replaced", where=late[0].where)
    else:
        cx.ok('R-DISC', f"an agent's tag is written by Agent.__init__ only ({len(tsites)} site(s))", where=cx.where(ainit), function=ainit.qualname)
    # `Cls[T]` is get_class_component(T): the exact-key look-up, not the first stored type that happens to be a subclass of T
    mgi = prog.functions.get(META + '.__getitem__')
    if mgi is not None and len(mgi.params) >= 2:
        s0, it0 = Sym(mgi.params[0]), Sym(mgi.params[1])
        okg = True
        for p in cx.walker.paths(mgi, WalkOptions(unroll=1, callee_raises=False)):
            if p.end != 'return':
                continue
            v = strip_versions(p.last.data.get('value'))
            fwd = isinstance(v, App) and v.fn == 'call:' + META + '.get_class_component' and tuple(v.args[:2]) == (s0, it0) and \
                all(a == Const(False) for a in v.args[2:]) and all(val == Const(False) for _, val in (v.kw or ()))
            direct = v == Sub(Attr(s0, FC), it0) and implies(p.cond, AIn(it0, Attr(s0, FC))) is None or \
                (v == Const(None) and implies(p.cond, f_not(AIn(it0, Attr(s0, FC)))) is None) or \
                (isinstance(v, App) and v.fn == '.get' and tuple(v.args) in ((Attr(s0, FC), it0), (Attr(s0, FC), it0, Const(None))))
            if not (fwd or direct):
                okg = False
                cx.violation('R-FWD', mgi.qualname, 'class-subscript-is-the-exact-key-lookup',
                             f"_MetaAgent.__getitem__ returns {v!r} under [{p.cond!r}]: `Cls[T]` must be the class component stored under "
                             f"exactly T (None when there is none), like get_class_component(T) and `T in Cls`", where=cx.where(mgi, p.last.line))
                break
        if okg:
            cx.ok('R-FWD', '_MetaAgent.__getitem__ is the exact-key look-up', where=cx.where(mgi), function=mgi.qualname)
    # changing a class's default tag is always accepted: the setter stores what it is given (a validation of its own refuses the
    # values Agent.__init__ accepts as explicit tags - IntEnum members, numpy integers, bool)
    tset = prog.functions.get(META + '.tag#setter')
    if tset is not None:
        refusing = [p for p in cx.walker.paths(tset, WalkOptions(unroll=1)) if p.end == 'raise']
        if refusing:
            cx.violation('R-GUARD', tset.qualname + '#setter', 'default-tag-change-is-accepted',
                         f"the setter of a class's default tag raises {refusing[0].last.data.get('exc')} under [{refusing[0].cond!r}]: the "
                         f"change is refused and new untagged instances keep the old default", where=cx.where(tset, refusing[0].last.line))
        else:
            cx.ok('R-GUARD', "the default-tag setter refuses nothing", where=cx.where(tset), function=tset.qualname)
        vparam = Sym(tset.params[1]) if len(tset.params) > 1 else None
        for p in cx.walker.paths(tset, WalkOptions(unroll=1, callee_raises=False)):
            if p.end == 'raise':
                continue
            st_ = [e for e in p.events if e.kind == 'store' and e.data.get('loc') == MT]
            if not (st_ and st_[-1].data.get('value') == vparam):
                cx.violation('R-GUARD', tset.qualname + '#setter', 'default-tag-change-is-accepted',
                             f"the setter of a class's default tag does not store the value it is given on a path [{p.cond!r}]: the "
                             f"assignment is silently dropped and new untagged instances keep the old default", where=cx.where(tset))
                break

    # ------------------------------------------------------------ clause 3: R-DYN + R-NONE
    n = 0
    for p in cx.walker.paths(ainit, WalkOptions(unroll=1)):
        if p.end == 'raise':
            continue
        n += 1
        comps = [e for e in p.events if e.kind == 'store' and e.data.get('loc') == AC]
        v = comps[-1].data.get('value') if comps else None
        if len(comps) == 1 and isinstance(v, Fresh) and v.kind in ('dict', 'call:dict') and not v.items:
            cx.ok('R-SHARED', "Agent.__init__ allocates the instance's own components", where=cx.where(ainit, comps[0].line), function=ainit.qualname)
        else:
            cx.violation('R-SHARED', ainit.qualname, 'fresh-components-per-instance',
                         f"Agent.__init__ does not allocate a fresh components dict per instance (found {v!r})", where=cx.where(ainit))
        tags = [e for e in p.events if e.kind == 'store' and e.data.get('attr') == 'tag' and _rooted_at(e.data.get('target'), self_s)]
        if len(tags) == 0 and tagp is not None:
            cx.violation('R-DYN', ainit.qualname, 'tag-received-at-creation',
                         f"Agent.__init__ stores no tag on a path [{p.cond!r}]: an agent created without an explicit tag receives the default "
                         f"tag its class has AT THAT MOMENT - left to a later lookup, a change of the class default retroactively changes "
                         f"the tag of agents that already exist", where=cx.where(ainit), path=p.lines())
            continue
        if len(tags) != 1 or tagp is None:
            cx.inconclusive('R-DYN', 'Agent.__init__ tag store', f"{len(tags)} stores to self.tag on a constructor path",
                            where=cx.where(ainit), function=ainit.qualname)
            continue
        tv = tags[0].data.get('value')
        is_none = AIs(tagp, Const(None))
        # effective (condition for explicit, explicit value, default value) from the stored term and the path condition
        explicit_cond = default = explicit = None
        if isinstance(tv, IfT):
            if tv.b == tagp:
                explicit_cond, explicit, default = f_not(tv.cond), tv.b, tv.a
            elif tv.a == tagp:
                explicit_cond, explicit, default = tv.cond, tv.a, tv.b
        elif tv == tagp:
            explicit_cond, explicit = p.cond, tv
        else:
            explicit_cond, default = f_not(p.cond), tv
        where = cx.where(ainit, tags[0].line)
        if explicit is not None and explicit_cond is not None:
            cex = compare(explicit_cond, f_not(is_none)) if isinstance(tv, IfT) else implies(explicit_cond, f_not(is_none))
            if isinstance(tv, IfT) and cex is not None:
                cx.violation('R-NONE', ainit.qualname, 'explicit-tag-wins-on-is-not-None',
                             f"Agent.__init__ takes the explicit tag under [{explicit_cond!r}] instead of [tag is not None]: "
                             f"an explicitly given tag 0 is replaced by the class default", where=where)
            else:
                cx.ok('R-NONE', 'explicit tag wins exactly when it is not None', where=where, function=ainit.qualname)
        if default is not None:
            dyn = [App('type', (self_s,)), Attr(self_s, '__class__')]
            syms = term_symbols(default)
            rooted_dyn = any(d in _subterms(default) for d in dyn)
            named = [x for x in syms if isinstance(x, Sym) and x.name in prog.classes]
            if rooted_dyn and not named:
                cx.ok('R-DYN', 'default tag read through the dynamic class of self', where=where, function=ainit.qualname,
                      default=repr(default))
            elif named:
                cx.violation('R-DYN', ainit.qualname, 'default-tag-read-through-literal-class',
                             f"Agent.__init__ reads the default tag as {default!r}, i.e. through the named class "
                             f"{named[0].name.split('.')[-1]} instead of type(self): `class CA(Agent); CA.tag = 5; CA('a', m).tag` "
                             f"gives the base class's tag", where=where, default=repr(default))
            else:
                cx.inconclusive('R-DYN', 'Agent.__init__ default tag', f"default tag expression {default!r} not recognised",
                                where=where, function=ainit.qualname)
    cx.floor('Agent.__init__ paths', n, 1)

    # ------------------------------------------------------------ clause 3b: "no explicit tag" reaches Agent.__init__ as None
    # Every agent class of the package (environments are agents) forwards its constructor arguments through
    # super().__init__; the class default is consulted only when Agent.__init__ sees tag None, so a subclass constructor may
    # pass nothing, None, or its own parameter whose default is None - any other value silently overrides the class default.
    carrier = {ainit.qualname: 'tag'} if tagp is not None else {}
    order = [ci for ci in prog.classes.values() if ci != agent and agent in prog.mro(ci)]
    order.sort(key=lambda ci: len(prog.mro(ci)))
    nfw = 0
    for ci in order:
        own = ci.methods.get('__init__')
        if not own:
            continue
        own = own[0]
        r = super_init_bindings(cx, own)
        if r is None:
            continue
        callee, b, ev = r
        cp = carrier.get(callee.qualname)
        if cp is None:
            continue
        v = b.get(cp)
        if v is None:
            v = const_default(cx, callee, cp)
        v = strip_versions(v) if v is not None else None
        where = cx.where(own, ev.line)
        nfw += 1
        if v == Const(None):
            cx.ok('R-NONE', f"{ci.name}: passes no tag to its parent constructor", where=where, function=own.qualname)
        elif isinstance(v, Sym) and v.name in own.params + own.kwonly and const_default(cx, own, v.name) == Const(None):
            carrier[own.qualname] = v.name
            cx.ok('R-NONE', f"{ci.name}: forwards its own parameter `{v.name}` (default None)", where=where, function=own.qualname)
        else:
            cx.violation('R-NONE', own.qualname, 'absent-tag-forwarded-as-None',
                         f"{own.qualname} passes {v!r} as the tag of its parent constructor: an instance created without an "
                         f"explicit tag never receives the current default tag of its class", where=where)
    cx.floor('agent subclasses forwarding to Agent.__init__', nfw, 1)

    # ------------------------------------------------------------ clause 4: atomic + keyed discipline, both APIs
    addc = cx.fn(META + '.add_class_component')
    remc = cx.fn(META + '.remove_class_component')
    addi = cx.fn(CORE + 'Agent.add_component')
    remi = cx.fn(CORE + 'Agent.remove_component')
    check_atomic(cx, addc.qualname, ['ValueError'])
    check_atomic(cx, remc.qualname, ['ComponentNotFoundError'])
    check_atomic(cx, addi.qualname, ['ValueError'])
    check_atomic(cx, remi.qualname, ['ComponentNotFoundError'])
    for fn, loc, field in ((addc, MC, FC), (addi, AC, 'components')):
        comp = Sym(fn.params[1])
        check_keyed_insert(cx, fn.qualname, loc, Attr(Sym(fn.params[0]), field), App('type', (comp,)), comp, dup_exc='ValueError')
    for fn, loc, field in ((remc, MC, FC), (remi, AC, 'components')):
        check_keyed_delete(cx, fn.qualname, loc, Attr(Sym(fn.params[0]), field), Sym(fn.params[1]), missing_exc='ComponentNotFoundError')
    _lookups(cx)
    _membership(cx)
    from .c13 import check_has_all
    check_has_all(cx, META + '.has_class_component', FC)
    check_has_all(cx, CORE + 'Agent.has_component', 'components')


def _subterms(t):
    out = [t]
    if isinstance(t, (Attr, Sub)):
        out += _subterms(t.base)
    elif isinstance(t, App):
        for a in t.args:
            out += _subterms(a)
    return out


def _lookups(cx: Cx):
    """Accessors: present -> the stored component, absent -> error / None; presence by membership, never by truthiness."""
    from .common import check_lookup, check_presence_not_truthiness
    gcc = cx.fn(META + '.get_class_component')
    gic = cx.fn(CORE + 'Agent.get_component')
    check_lookup(cx, gcc.qualname, Attr(Sym(gcc.params[0]), FC), Sym(gcc.params[1]), 'ComponentNotFoundError')
    check_lookup(cx, gic.qualname, Attr(Sym(gic.params[0]), 'components'), Sym(gic.params[1]), 'ComponentNotFoundError')
    check_presence_not_truthiness(cx, [gcc.qualname, gic.qualname, META + '.add_class_component', META + '.remove_class_component',
                                       CORE + 'Agent.add_component', CORE + 'Agent.remove_component',
                                       META + '.has_class_component', CORE + 'Agent.has_component'])


def _membership(cx: Cx):
    """`T in Cls` / `T in agent`: exactly `T in <store>` for the key as given (no conversion of the key - a class that has a
    metaclass of its own is still a class, not "an object whose type is meant")."""
    from sa.walker import _Ctx, State
    from sa.terms import f_or, f_and, compare, BoolT, FFalse, AIn
    for q, field in ((META + '.__contains__', FC), (CORE + 'Agent.__contains__', 'components')):
        fn = cx.fn(q)
        if len(fn.params) < 2:
            continue
        item = Sym(fn.params[1])
        store = Attr(Sym(fn.params[0]), field)
        acc = []
        bad = None
        for p in cx.walker.paths(fn, WalkOptions(unroll=1, callee_raises=False)):
            if p.end != 'return':
                bad = bad or f"a path ends in {p.end}"
                continue
            v = p.last.data.get('value')
            hv = strip_versions(v)
            if isinstance(hv, App) and hv.fn.startswith('call:') and hv.fn.rsplit('.', 1)[-1] in ('has_component', 'has_class_component') \
                    and not hv.kw and tuple(strip_versions(a) for a in hv.args[-1:]) == (item,) and len(hv.args) <= 2:
                # forwarded to the all-of test (verified above) with the key as given
                acc.append(f_and(p.cond, AIn(item, store)))
                continue
            try:
                f = _Ctx(cx.walker, fn, WalkOptions()).formula(v, State()) if v is not None else None
            except Exception:
                f = None
            if f is None:
                bad = bad or f"returns {v!r}"
                continue
            acc.append(f_and(p.cond, f))
        got = f_or(*acc) if acc else FFalse
        cex = None if bad else compare(got, AIn(item, store))
        if bad or cex is not None:
            cx.violation('R-GUARD', fn.qualname, 'membership-of-the-key-as-given',
                         f"{fn.qualname} answers `{fn.params[1]} in ...` with [{got!r}] ({bad or 'differs at ' + str({k: v for k, v in cex.items() if not k.startswith('_')})}); "
                         f"it must be exactly [{AIn(item, store)!r}]", where=cx.where(fn))
        else:
            cx.ok('R-GUARD', f"{fn.name}: `key in owner` is `key in {field}`", where=cx.where(fn), function=fn.qualname)
