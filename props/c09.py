"""C09 - cell coordinates and cell ids are in one-to-one correspondence."""
from __future__ import annotations

import ast
from fractions import Fraction

from sa.report import Cx
from sa.walker import WalkOptions, _Ctx, State
from sa.terms import (Sym, Attr, Sub, App, Num, Const, Fresh, TupleT, CompInfo, f_and, f_or, f_not, compare, mk_cmp, add, mul, sub,
                      subst_term, drop_literals, AIn, AIs, ATruthy)
from .common import CORE, ENV, check_atomic, strip_versions, super_init_bindings
from .geom import AXES, ZERO, ONE, positive, extent_domain, layers, extent_cases, subst_case, expected_id

PID = 'C09'
EXPLANATION = (
    "R-AGREE between the producer and the consumers of the cell table, symbolically in the extents. Producer facts from "
    "the comprehension in DiscreteWorld.__init__: generators outer->inner (z, y, x) each over range(max(extent, 1)), "
    "element (x, y, z) - hence row index id = x + y*N_x + z*N_x*N_y with N = max(extent, 1), a mixed-radix bijection "
    "(the trusted arithmetic lemma). Constructor parameters are identified with the world's fields through the "
    "super().__init__ chain (R-FWD). Consumers: (range) get_cell's accepting condition must equal, in each of the 2^3 "
    "extent cases (extent == 0 / extent >= 1 per axis, max(E,1) folded accordingly) and over the order regions of the "
    "coordinates, the conjunction 0 <= v < N_axis, and its complement raises IndexError before the row access; "
    "(strides) at every in-package call site of discrete_grid_pos_to_id the polynomial obtained by inlining the callee "
    "with the actual arguments must equal x + y*N_x + z*N_x*N_y in every extent case; the public formula itself is "
    "z*width*height + y*width + x; get_cell reads row `id` positionally and the id -> coordinates lookup reads row id "
    "of the 'pos' column.")
EXPLANATION += (" Premise: C10's rule that the ids reported by the neighbourhood queries use the cell table's strides. The id polynomial is compared per extent case that the path condition admits.")
EXPLANATION += (' The deprecated spellings of DiscreteWorld forward every argument unchanged.')
EXPLANATION += (' No world method stores an attribute under a computed name. Premise on C10 widened to its loop-bound rules.')
ASSUMPTIONS = ["pandas positional indexing (iloc / default RangeIndex) semantics", "mixed-radix numbering is a bijection",
               "extents are 0 or >= 1 (quantifier)"]

DW = ENV + 'DiscreteWorld'
IDF = ENV + 'discrete_grid_pos_to_id'


def find_comp(t):
    """Find the listcomp stored under the 'pos' key of the DataFrame constructor argument."""
    if isinstance(t, Fresh) and t.kind == 'dict':
        for it in t.items:
            if isinstance(it, TupleT) and len(it.items) == 2 and it.items[0] == Const('pos'):
                return it.items[1]
    if isinstance(t, App):
        for a in t.args:
            r = find_comp(a)
            if r is not None:
                return r
    return None


def producer_facts(cx, dinit):
    """(generators outer->inner as (var, iterable), element term, line) of the cell-position producer in
    DiscreteWorld.__init__, whether it is written as a comprehension or as nested loops with an append."""
    for p in cx.walker.paths(dinit, WalkOptions(unroll=1, callee_raises=False)):
        if p.end == 'raise':
            continue
        for e in p.events:
            if e.kind == 'store' and e.data.get('attr') == 'cells':
                P = find_comp(e.data.get('value'))
                if isinstance(P, Fresh) and P.kind == 'listcomp' and isinstance(P.detail, CompInfo):
                    gens = [(t, it) for t, it, c in P.detail.gens]
                    # one generator over itertools.product(A, B, C) with a tuple target is the three nested generators (the
                    # rightmost factor varies fastest = innermost)
                    if len(gens) == 1 and isinstance(gens[0][0], TupleT) and isinstance(strip_versions(gens[0][1]), App):
                        pr = strip_versions(gens[0][1])
                        fac = None
                        if pr.fn == '.product' and pr.args[:1] == (Sym('itertools'),) and not pr.kw:
                            fac = pr.args[1:]
                        elif pr.fn == 'call' and pr.args[:1] == (Sym('itertools.product'),) and not pr.kw:
                            fac = pr.args[1:]
                        if fac is not None and len(fac) == len(gens[0][0].items):
                            gens = list(zip(gens[0][0].items, fac))
                    return gens, P.detail.elt, e.line, any(c for _, _, c in P.detail.gens)
                if isinstance(P, Fresh) and P.kind in ('list', 'call:list') and not P.items:
                    apps = [a for a in p.events if a.kind == 'store' and a.data.get('store') == 'append'
                            and strip_versions(a.data.get('target')) == P]
                    if len(apps) == 1 and apps[0].loops:
                        a = apps[0]
                        gens = []
                        conds = False
                        for lid in a.loops:
                            its = [x for x in p.events if x.kind == 'iter' and x.node.lineno == lid]
                            lps = [x for x in p.events if x.kind == 'loop' and x.node.lineno == lid]
                            if not its or not lps:
                                return None
                            info = its[0].data['info']
                            gens.append((info.get('index') or info.get('var'), lps[0].data.get('iter')))
                        i0 = p.events.index([x for x in p.events if x.kind == 'iter' and x.node.lineno == a.loops[0]][0])
                        conds = any(x.kind == 'cond' for x in p.events[i0:p.events.index(a)])
                        return gens, a.data.get('args', (None,))[0], a.line, conds
    return None


def check_id_poly(cx, fn, idterm, self_s, x, y, z, where, construct, what, cond=None, quiet=False):
    """idterm must equal x + y*N_x + z*N_x*N_y in every extent case (of those the path condition `cond` admits: a term read
    on a path that has tested an extent is already simplified with that fact)."""
    want = expected_id(self_s, x, y, z)
    for label, mapping, assume in extent_cases(self_s):
        if cond is not None:
            from sa.terms import mk_cmp as _mk, f_and as _fa, f_not as _fn, implies as _imp
            from .geom import AXES as _AX, positive as _pos
            case = _fa(*[(_mk(Attr(self_s, ext), '==', ZERO) if Attr(self_s, ext) in mapping else _pos(Attr(self_s, ext))) for _, ext, _ in _AX])
            try:
                if _imp(cond, _fn(case), domain='int') is None:
                    continue
            except Exception:
                pass
        a = subst_case(idterm, mapping)
        b = subst_case(want, mapping)
        if a != b:
            cx.violation('R-AGREE', construct, 'id-strides-agree-with-cell-table',
                         f"{what}: the cell id is computed as {idterm!r} but the cell table's row numbering is {want!r}; in "
                         f"the case [{label}] these are {a!r} vs {b!r} - ids collide / point at the wrong row on worlds "
                         f"with a zero-extent axis below a populated one", where=where, found=repr(idterm), expected=repr(want),
                         case=label)
            return False
    if not quiet:
        cx.ok('R-AGREE', f"{what}: id == x + y*N_x + z*N_x*N_y in all 8 extent cases", where=where, function=fn.qualname,
              id=repr(idterm))
    return True


def run(cx: Cx):
    prog = cx.prog
    dinit = cx.fn(DW + '.__init__')
    get_cell = cx.fn(DW + '.get_cell')
    idf = cx.fn(IDF)
    self_s = Sym(dinit.params[0])

    # ------------------------------------------------------------ R-FWD: constructor parameters are the world's fields
    r = super_init_bindings(cx, dinit)
    sinit = cx.fn(ENV + 'SpaceWorld.__init__')
    param_of = {}
    if r is None or r[0].qualname != sinit.qualname:
        cx.violation('R-FWD', dinit.qualname, 'forwards-extents-to-SpaceWorld', "DiscreteWorld.__init__ does not call "
                     "SpaceWorld.__init__ on its success path", where=cx.where(dinit))
    else:
        callee, b, ev = r
        okf = True
        for ax, ext, _ in AXES:
            if b.get(ext) != Sym(ext):
                okf = False
                cx.violation('R-FWD', dinit.qualname, f"{ext}-forwarded",
                             f"DiscreteWorld.__init__ passes {b.get(ext)!r} as SpaceWorld's '{ext}'", where=cx.where(dinit, ev.line))
            param_of[Sym(ext)] = Attr(self_s, ext)
        for p in cx.walker.paths(sinit, WalkOptions(unroll=1)):
            for ax, ext, _ in AXES:
                st = [e for e in p.events if e.kind == 'store' and e.data.get('attr') == ext]
                if not (len(st) == 1 and st[0].data.get('value') == Sym(ext)):
                    okf = False
                    cx.violation('R-FWD', sinit.qualname, f"{ext}-field-from-parameter",
                                 f"SpaceWorld.__init__ does not store parameter '{ext}' in field '{ext}'", where=cx.where(sinit))
        if okf:
            cx.ok('R-FWD', 'width/height/depth parameters are the fields width/height/depth', where=cx.where(dinit, ev.line),
                  function=dinit.qualname)
    for cq, consts in ((ENV + 'LineWorld', {'height': ZERO, 'depth': ZERO}), (ENV + 'GridWorld', {'depth': ZERO})):
        ctor = cx.fn(cq + '.__init__')
        rr = super_init_bindings(cx, ctor)
        if rr is None:
            cx.violation('R-FWD', ctor.qualname, 'reaches-DiscreteWorld-init', f"{ctor.qualname} does not call the base constructor",
                         where=cx.where(ctor))
            continue
        callee, b, ev = rr
        bad = [k for k, v in consts.items() if b.get(k) != v] + [ext for _, ext, _ in AXES if ext not in consts and b.get(ext) != Sym(ext)]
        if bad:
            cx.violation('R-FWD', ctor.qualname, 'extents-forwarded', f"{ctor.qualname} forwards {bad} wrongly to the base constructor",
                         where=cx.where(ctor, ev.line))
        else:
            cx.ok('R-FWD', f"{cq.split('.')[-1]} forwards its extents and constant zeros", where=cx.where(ctor, ev.line), function=ctor.qualname)

    # the extents the ids are computed from, and the table they index, are fixed after construction
    for ax, ext, _ in AXES:
        for st_ in cx.effects.sites_of((ENV + 'SpaceWorld', ext)):
            if st_.owner_q != ENV + 'SpaceWorld.__init__':
                cx.violation('R-DISC', st_.owner_q, f"{ext}-fixed-after-construction",
                             f"{st_.describe()}: a world's {ext} is rewritten after construction; cell ids, the range check and the "
                             f"position table no longer agree for the cells that already exist", where=st_.where)
    for st_ in cx.effects.sites_of((DW, 'cells')):
        if st_.kind in ('rebind',) and st_.owner_q != DW + '.__init__':
            cx.violation('R-DISC', st_.owner_q, 'cell-table-rebuilt-outside-the-constructor',
                         f"{st_.describe()}: the cell table is replaced after construction: row labels / row order are no longer "
                         f"the ids the position table was built with", where=st_.where)
    # ... nor through a computed attribute name: `setattr(self, name, ...)` with a caller-chosen name overwrites `height` / `cells`
    # when a cell component happens to be called that
    dyn = None
    for st_ in cx.effects.all_sites():
        if st_.kind == 'setattr' and st_.fn.cls is not None and cx.prog.cls(ENV + 'SpaceWorld') in cx.prog.mro(st_.fn.cls) \
                and not isinstance(st_.ev.data.get('key'), Const):
            selfn = Sym(st_.fn.params[0]) if st_.fn.params else None
            tg = st_.ev.data.get('target')
            if isinstance(tg, App) and tg.args and strip_versions(tg.args[0]) == selfn:
                dyn = dyn or st_
    if dyn is not None:
        cx.violation('R-DISC', dyn.fn.qualname, 'extent-fixed-after-construction',
                     f"{dyn.describe()}: an attribute of the world is stored under a computed name - a name such as 'height', 'depth', "
                     f"'width' or 'cells' replaces the extent / table the ids, the range check and the neighbourhood clipping use",
                     where=dyn.where)
    cx.ok('R-DISC', 'extents and the cell table object are written only by the constructors', where=cx.where(dinit), function=dinit.qualname)

    # ------------------------------------------------------------ clause 1: producer facts
    pf = producer_facts(cx, dinit)
    comp = pf
    prod_ok = False
    if pf is None:
        cx.inconclusive('R-AGREE', 'cell table producer', "the 'pos' column is built neither by a list comprehension nor by nested "
                        "loops with one append in DiscreteWorld.__init__", where=cx.where(dinit), function=dinit.qualname)
    else:
        gens, elt, comp_line, has_conds = pf
        where = cx.where(dinit, comp_line)
        facts = []
        if isinstance(elt, TupleT) and len(elt.items) == 3 and len(gens) == 3:
            axes_of = []
            for tgt, it in gens:
                idx = [i for i, x in enumerate(elt.items) if x == tgt]
                axes_of.append(idx[0] if len(idx) == 1 else None)
            if axes_of == [2, 1, 0] and not has_conds:
                prod_ok = True
                for (tgt, it), (ax, ext, i) in zip(gens, reversed(AXES)):
                    n = None
                    if isinstance(it, App) and it.fn == 'range':
                        if len(it.args) == 1:
                            n = it.args[0]
                        elif len(it.args) == 2 and it.args[0] == ZERO:
                            n = it.args[1]
                    n_f = subst_term(n, param_of) if n is not None else None
                    if n_f != layers(Attr(self_s, ext)):
                        prod_ok = False
                        cx.violation('R-AGREE', dinit.qualname, f"{ax}-layers-are-max-extent-1",
                                     f"the cell table iterates {ax} over {it!r}; it must cover range(max({ext}, 1)) so that "
                                     f"every world has at least one layer per axis", where=where)
                    facts.append((ax, repr(it)))
            else:
                cx.violation('R-AGREE', dinit.qualname, 'x-fastest-then-y-then-z',
                             f"the cell table's generators (outer->inner) bind tuple positions {axes_of}; row ids are x fastest, "
                             f"then y, then z only for the order z, y, x with element (x, y, z)", where=where)
        elif isinstance(elt, TupleT) and len(elt.items) == 3 and len(gens) == 1 and not has_conds and isinstance(gens[0][0], Sym):
            # positions derived from the row number: (i % Nx, i // Nx % Ny, i // (Nx * Ny)) for i in range(Nx * Ny * Nz)
            i_ = gens[0][0]
            N = {ax: layers(Attr(self_s, ext)) for ax, ext, _ in AXES}
            want = TupleT((App('%', (i_, N['x'])), App('%', (App('//', (i_, N['x'])), N['y'])), App('//', (i_, mul(N['x'], N['y'])))))
            got = subst_term(elt, param_of)
            it = gens[0][1]
            total = mul(mul(N['x'], N['y']), N['z'])
            rng = None
            if isinstance(it, App) and it.fn == 'range':
                rng = it.args[0] if len(it.args) == 1 else (it.args[1] if len(it.args) == 2 and it.args[0] == ZERO else None)
            rng = subst_term(rng, param_of) if rng is not None else None
            # the same inverse taken layer first: i = z*(Nx*Ny) + r, then r = y*Nx + x (for Nx, Ny >= 1: (i mod ab) mod a = i mod a and
            # (i mod ab) div a = (i div a) mod b)
            r_ = App('%', (i_, mul(N['x'], N['y'])))
            want_b = TupleT((App('%', (r_, N['x'])), App('//', (r_, N['x'])), App('//', (i_, mul(N['x'], N['y'])))))
            if got in (want, want_b) and rng == total:
                prod_ok = True
                facts.append(('closed form', repr(got)))
            else:
                cx.violation('R-AGREE', dinit.qualname, 'positions-are-the-inverse-of-the-row-numbering',
                             f"the cell table derives the position of row i as {got!r} for i in {it!r}; the inverse of the row numbering "
                             f"x + y*Nx + z*Nx*Ny is {want!r} for i in range({total!r})", where=where)
        else:
            cx.inconclusive('R-AGREE', 'cell table producer', f"element {elt!r} / {len(gens)} generators: not the 3-axis shape",
                            where=where, function=dinit.qualname)
        if prod_ok:
            cx.ok('R-AGREE', 'producer: rows enumerate (x, y, z) with x fastest, N_axis = max(extent, 1)', where=where,
                  function=dinit.qualname, generators=facts)
    cx.floor('producer comprehension found', 1 if comp is not None else 0, 1)

    # ------------------------------------------------------------ public formula
    ex = _Ctx(cx.walker, dinit, WalkOptions())
    X, Y, Z, W, H = (Sym(n) for n in ('x', 'y', 'z', 'width', 'height'))
    t = ex.inline_call(idf, None, [], {'x': X, 'y': Y, 'z': Z, 'width': W, 'height': H}, State(), None) \
        if all(q in idf.params for q in ('x', 'y', 'z', 'width', 'height')) else None
    if t is not None:
        want = add(add(X, mul(Y, W)), mul(Z, mul(W, H)))
        if t == want:
            cx.ok('R-AGREE', 'discrete_grid_pos_to_id == z*width*height + y*width + x', where=cx.where(idf), function=idf.qualname)
        else:
            cx.violation('R-AGREE', idf.qualname, 'documented-id-formula',
                         f"discrete_grid_pos_to_id returns {t!r}, not z*width*height + y*width + x", where=cx.where(idf))
    else:
        cx.inconclusive('R-AGREE', 'discrete_grid_pos_to_id', 'not a straight-line expression of (x, y, width, z, height)', where=cx.where(idf),
                        function=idf.qualname)

    # ------------------------------------------------------------ clause 2 + 3 + 4: get_cell
    gs = Sym(get_cell.params[0])
    coords = {ax: Sym(ax) for ax, _, _ in AXES}
    succ = [p for p in cx.walker.paths(get_cell, WalkOptions(unroll=1, domain='int')) if p.end == 'return']
    if not succ:
        cx.inconclusive('R-AGREE', 'get_cell', 'no returning path', where=cx.where(get_cell), function=get_cell.qualname)
    else:
        S = f_or(*[p.cond for p in succ])
        S = drop_literals(S, lambda a: isinstance(a, (AIn, AIs, ATruthy)))
        E_pred = f_and(*[f_and(mk_cmp(ZERO, '<=', coords[ax]), mk_cmp(coords[ax], '<', layers(Attr(gs, ext)))) for ax, ext, _ in AXES])
        bad = None
        for label, mapping, assume in extent_cases(gs):
            a = subst_case(S, mapping)
            b = subst_case(E_pred, mapping)
            cex = compare(a, b, assume=assume, domain='int')
            if cex is not None:
                bad = (label, a, b, cex)
                break
        if bad is None:
            cx.ok('R-AGREE', 'get_cell accepts exactly 0 <= v < max(extent, 1) per axis (8 extent cases)', where=cx.where(get_cell),
                  function=get_cell.qualname, accepts=repr(S))
        else:
            label, a, b, cex = bad
            show = {k: v for k, v in cex.items() if not k.startswith('_')}
            cx.violation('R-AGREE', get_cell.qualname, 'range-check-agrees-with-cell-table',
                         f"get_cell accepts coordinates under [{S!r}] but the cell table holds exactly [{E_pred!r}]; in the case "
                         f"[{label}] they differ at {show} (get_cell accepts: {cex['_left']}, cell exists: {cex['_right']}) - "
                         f"e.g. every lookup on a LineWorld/GridWorld (depth 0) is rejected", where=cx.where(get_cell),
                         found=repr(S), expected=repr(E_pred), case=label, counterexample=cex)
        for p in succ:
            v = p.last.data.get('value')
            good = isinstance(v, Sub) and v.base in (Attr(Attr(gs, 'cells'), 'iloc'), Attr(Attr(gs, 'cells'), 'loc'))
            if not good:
                cx.violation('R-AGREE', get_cell.qualname, 'positional-row-access',
                             f"get_cell returns {v!r}: not a row access (iloc / loc on the default RangeIndex) of the cell table", where=cx.where(get_cell, p.last.line))
                continue
            check_id_poly(cx, get_cell, v.index, gs, coords['x'], coords['y'], coords['z'], cx.where(get_cell, p.last.line),
                          get_cell.qualname, 'get_cell')
    check_atomic(cx, get_cell.qualname, ['IndexError'])
    from .common import check_overrides_forward
    check_overrides_forward(cx, DW, ['get_cell', '_get_cell_pos_as_tuple'])

    # every in-package call site of the id function (the two if_int helpers are C10's; listed here for the floor)
    callers = cx.effects.callers_of(idf)
    cx.floor('in-package call sites of discrete_grid_pos_to_id', len([c for c in callers if 'discreteGridPosToID' not in c[0]]), 0)

    # id -> coordinates
    gp = cx.fn(DW + '._get_cell_pos_as_tuple')
    ps = Sym(gp.params[0])
    cp = Sym(gp.params[1])
    found = False
    for p in cx.walker.paths(gp, WalkOptions(unroll=1)):
        from sa.terms import AIsInst, implies
        if p.end == 'return' and implies(p.cond, AIsInst(cp, Sym('int'))) is None:
            found = True
            v = p.last.data.get('value')
            if v == Sub(Sub(Attr(ps, 'cells'), Const('pos')), cp):
                cx.ok('R-AGREE', "id -> coordinates reads row id of the 'pos' column", where=cx.where(gp, p.last.line), function=gp.qualname)
            else:
                cx.violation('R-AGREE', gp.qualname, 'id-to-coordinates-through-pos-column',
                             f"_get_cell_pos_as_tuple(int) returns {v!r}, not cells['pos'][id]", where=cx.where(gp, p.last.line))
    if not found:
        cx.inconclusive('R-AGREE', '_get_cell_pos_as_tuple', 'no int branch found', where=cx.where(gp), function=gp.qualname)
    from .common import check_deprecated_aliases_forward
    check_deprecated_aliases_forward(cx, DW)
    from .common import include_premises
    include_premises(cx, ['C10'], 'ids reported by the neighbourhood queries are cell ids: same strides as the cell table',
                     only=lambda o: 'id-strides' in o.key or 'id form' in o.message or (o.rule == 'R-GUARD' and 'loop' in o.message)
                     or (o.rule == 'R-FWD' and '_get_cell_pos_as_tuple' in ((o.function or '') + o.message + o.key)))
    include_premises(cx, ['C11'], "the row looked up carries the cell's component values only if every cell component stores each cell's "
                     "own value under that cell's id")
    from .common import check_no_stateful_memo
    check_no_stateful_memo(cx)


