"""Facts shared by C15 (batch_run) and C16 (grid_search): work list, partial binding, serial/pool arm agreement, the
per-run driver loop, and the error discipline of the run path."""
from __future__ import annotations

import ast
from fractions import Fraction
from typing import Dict, List, Optional

from sa.report import Cx
from sa.walker import WalkOptions, _Ctx, State, Path, Event
from sa.terms import (Term, Sym, Attr, Sub, App, Num, Const, Fresh, IfT, TupleT, ATruthy, AIs, AEq, f_and, f_or, f_not, implies, compare,
                      mk_cmp, mul, atoms_of, subst_atoms, FTrue, FFalse, term_symbols)
from .common import CORE, BATCH, status_atom_kind, strip_versions

PL = BATCH + 'ParameterList'
RUNNING = ATruthy(Sym('<model running>'))


def built_list_ok(t: Term, parameters: Term, cond=None) -> bool:
    """t is `parameters.build()` for a ParameterList and `ParameterList(parameters).build()` otherwise - as one conditional
    expression, or as either call on a path whose condition `cond` has established which case it is."""
    from sa.terms import AIsInst, strip_epochs
    t = strip_epochs(t)
    b1 = App('call:' + PL + '.build', (parameters,))
    b2 = App('call:' + PL + '.build', (App('new:' + PL, (parameters,)),))
    is_pl = [AEq(App('type', (parameters,)), Sym(PL)), AIsInst(parameters, Sym(PL))]
    def plain(x):
        # ParameterList(parameters) written through `cls(...)` in a classmethod carries the class it was called on
        if isinstance(x, App) and x.fn == 'new:' + PL and x.args == (parameters,) and all(k == '<cls>' and v == Sym(PL) for k, v in x.kw):
            return App('new:' + PL, (parameters,))
        return x
    if isinstance(t, IfT):
        if t.cond in is_pl and t.a == b1 and t.b == b2:
            return True
        if f_not(t.cond) in is_pl and t.a == b2 and t.b == b1:
            return True
    # the list is chosen first and built once: build(parameters if <is a ParameterList> else ParameterList(parameters))
    if isinstance(t, App) and t.fn == 'call:' + PL + '.build' and len(t.args) == 1 and isinstance(t.args[0], IfT):
        c = t.args[0]
        if c.cond in is_pl and c.a == parameters and plain(c.b) == App('new:' + PL, (parameters,)):
            return True
        if f_not(c.cond) in is_pl and c.b == parameters and plain(c.a) == App('new:' + PL, (parameters,)):
            return True
    if isinstance(t, App) and t.fn == 'call:' + PL + '.build' and len(t.args) == 1:
        t = App(t.fn, (plain(t.args[0]),))
    if cond is not None:
        if t == b1 and any(implies(cond, a) is None for a in is_pl):
            return True
        if t == b2 and any(implies(cond, f_not(a)) is None for a in is_pl):
            return True
    return False


def partial_binding(cx: Cx, fn, term: Term, item: Term) -> Optional[tuple]:
    """For run = partial(f, a..., k=v...), the binding of f's parameters when called as run(item)."""
    if isinstance(term, App) and term.fn.startswith('new:'):
        # a callable object of a package class (a frozen dataclass standing in for functools.partial): what its __call__ returns
        ci = cx.prog.classes.get(term.fn[4:])
        ms = cx.prog.lookup_method(ci, '__call__') if ci is not None else []
        if ms and len(ms[0].params) == 2:
            cfn = ms[0]
            from sa.terms import subst_term
            rows = []
            for q in cx.walker.paths(cfn, WalkOptions(unroll=1, callee_raises=False,
                                                      no_full_inline=frozenset({'_run_model_for_search', '_run_model_for_batch'})),
                                     init_env={cfn.params[0]: term}):
                if q.end == 'return':
                    rows.append(q.last.data.get('value'))
            if len(rows) == 1 and isinstance(rows[0], App) and rows[0].fn.startswith('call:'):
                callee = cx.prog.functions.get(rows[0].fn[5:])
                if callee is not None:
                    args_ = [subst_term(a, {Sym(cfn.params[1]): item}) for a in rows[0].args]
                    kw_ = {k: subst_term(v, {Sym(cfn.params[1]): item}) for k, v in rows[0].kw}
                    b = _Ctx(cx.walker, fn, WalkOptions()).bind_args(callee, None, args_, kw_, State(), False)
                    return (callee, b) if b is not None else None
        return None
    if not (isinstance(term, App) and term.fn == 'call' and term.args and term.args[0] == Sym('functools.partial') and len(term.args) >= 2):
        return None
    f = term.args[1]
    if not (isinstance(f, Sym) and f.name.startswith('<func ')):
        return None
    callee = cx.prog.functions.get(f.name[6:-1])
    if callee is None:
        return None
    kwd = dict(term.kw)
    star = strip_versions(kwd.get('**')) if '**' in kwd else None
    if isinstance(star, Fresh) and star.kind == 'dict' and star.items and \
            all(isinstance(it, TupleT) and len(it.items) == 2 and isinstance(it.items[0], Const) and isinstance(it.items[0].value, str)
                for it in star.items):
        # partial(f, a, **{'k': v, ...}) with a dictionary written out in the same function
        del kwd['**']
        for it in star.items:
            kwd[it.items[0].value] = it.items[1]
    b = _Ctx(cx.walker, fn, WalkOptions()).bind_args(callee, None, list(term.args[2:]) + [item], kwd, State(), False)
    return (callee, b) if b is not None else None


def guard_with_running(cx: Cx, F):
    """Replace the (inlined) model-status atoms of a guard by one boolean RUNNING."""
    def m(a):
        k = status_atom_kind(cx, a)
        if k == 'running':
            return RUNNING
        if k == 'not-running':
            return f_not(RUNNING)
        return None
    return subst_atoms(F, m)


def check_driver_loop(cx: Cx, fn, model_from: List[str], rule='R-GUARD', limit: str = 'max_timesteps', _depth=0):
    """In fn: the model is built by _build_model_from_kwargs(model_cls, <kwargs param>) == model_cls(**kwargs) on every
    call, and model.execute() (one step) runs under `model.is_running() and timestep < max_timesteps` (strict)."""
    mexec = CORE + 'Model.execute'
    kw = Sym(model_from[1])
    want_model = App('call', (Sym(model_from[0]),), (('**', kw),))
    want_model2 = App('new:' + CORE + 'Model', (), (('**', kw), ('<cls>', Sym(model_from[0]))))
    wanted_models = (want_model, want_model2)
    seen_exec = 0
    ok = True
    model_terms = set()
    # helpers (public or private) through which the stepping was factored out are walked inline
    reach = set()
    for k, calls in cx.effects.calls.items():
        if any(any(t.qualname in (mexec, CORE + 'SystemManager.execute_systems') for t in c.data.get('targets', [])) for c in calls):
            reach.add(k)
    changed = True
    while changed:
        changed = False
        for k, cs in cx.effects.callees.items():
            if k not in reach and any(c in reach for c in cs) and not k.startswith(CORE + 'SystemManager'):
                reach.add(k)
                changed = True
    inl = frozenset({q for q in reach if q not in (fn.qualname, mexec) and '#' not in q}) | {'<private>'}
    for p in cx.walker.paths(fn, WalkOptions(unroll=2, callee_raises=False, inline_full=inl,
                                             no_full_inline=frozenset({'_run_model_for_search', '_run_model_for_batch', '_score_model_for_search'}))):
        evs = p.events
        for i, e in enumerate(evs):
            is_exec = e.kind == 'call' and not e.data.get('full_inline') and (any(t.qualname in (mexec, CORE + 'SystemManager.execute_systems') for t in e.data.get('targets', [])) or
                                            (e.data.get('target_kind') == 'unknown' and e.data.get('callee_name') == '.execute'
                                             and strip_versions(e.data.get('recv')) in wanted_models))
            if is_exec:
                seen_exec += 1
                model = e.data.get('recv')
                # the object that is stepped: the model itself, or its scheduler
                mt = strip_versions(model)
                if any(t.qualname == CORE + 'SystemManager.execute_systems' for t in e.data.get('targets', [])) and _depth == 0 and \
                        not getattr(cx, '_stepping_reported', False):
                    cx._stepping_reported = True
                    cx.violation(rule, fn.qualname, 'steps-through-Model.execute',
                                 f"{fn.name} steps the scheduler directly (execute_systems) instead of calling model.execute(): a Model "
                                 f"subclass that overrides execute() (its own completion rule, bookkeeping per step) is bypassed, so the run "
                                 f"differs from running that model by hand", where=cx.where(fn, e.line))
                if isinstance(mt, Attr) and mt.name == 'systems' and any(t.qualname == CORE + 'SystemManager.execute_systems' for t in e.data.get('targets', [])):
                    mt = mt.base
                    model = mt
                model_terms.add(mt)
                if e.data.get('args') or e.data.get('kw'):
                    cx.violation(rule, fn.qualname, 'one-step-per-guard-test', f"{fn.name} advances the model by "
                                 f"{e.data.get('args') or e.data.get('kw')} steps between tests of the step limit: an execution can run "
                                 f"past max_timesteps", where=cx.where(fn, e.line))
                    return
                # conditions of the current iteration of the innermost loop (while: test precedes the iter event)
                lid = e.loops[-1] if e.loops else None
                j = i
                while j >= 0 and not (evs[j].kind == 'iter' and evs[j].node.lineno == lid):
                    j -= 1
                k = j - 1
                conds = [x for x in evs[j:i] if x.kind == 'cond']
                if k >= 0 and evs[k].kind == 'cond' and evs[k].data.get('loop_test'):
                    conds.insert(0, evs[k])
                from sa.terms import strip_epochs
                F = strip_epochs(guard_with_running(cx, f_and(*[c.data['formula'] for c in conds])))
                model = strip_epochs(model)
                ts = Attr(Attr(model, 'systems'), 'timestep')
                alt = Attr(model, 'timestep')
                want = f_and(RUNNING, mk_cmp(ts, '<', Sym(limit)))
                want2 = f_and(RUNNING, mk_cmp(alt, '<', Sym(limit)))
                cex = compare(F, want, domain='int')
                if cex is not None and compare(F, want2, domain='int') is not None:
                    show = {a: b for a, b in cex.items() if not a.startswith('_')}
                    cx.violation(rule, fn.qualname, 'steps-while-running-and-below-the-limit',
                                 f"{fn.name} steps the model under [{F!r}]; it must be exactly [model running and timestep < "
                                 f"max_timesteps] (strict): they differ at {show} (code steps: {cex['_left']})", where=cx.where(fn, e.line),
                                 found=repr(F), expected=repr(want), counterexample=cex, path=p.lines())
                    return
    if seen_exec == 0 and _depth < 3:
        # the run was factored out into a helper that is called where it cannot be walked inline (inside a comprehension):
        # the helper is the driver, with the caller's arguments bound to its parameters
        helpers = {}
        for p in cx.walker.paths(fn, WalkOptions(unroll=1, callee_raises=False)):
            for e in p.events:
                if e.kind == 'call' and len(e.data.get('targets', [])) == 1 and cx.effects.key(e.data['targets'][0]) in reach \
                        and e.data['targets'][0].qualname not in (mexec, fn.qualname) and not e.data.get('full_inline'):
                    h = e.data['targets'][0]
                    b = _Ctx(cx.walker, fn, WalkOptions()).bind_args(h, e.data.get('recv'), list(e.data.get('args', ())), dict(e.data.get('kw', ())),
                                                                    State(), e.data.get('recv') is not None)
                    inv = {t.name: k for k, t in (b or {}).items() if isinstance(t, Sym)}
                    helpers.setdefault(h.qualname, (h, inv))
        if len(helpers) == 1:
            (h, inv), = helpers.values()
            if all(x in inv for x in model_from + [limit]):
                return check_driver_loop(cx, h, [inv[x] for x in model_from], rule, inv[limit], _depth + 1)
    if seen_exec == 0:
        cx.inconclusive(rule, f"{fn.name} driver loop", 'no model.execute() call found', where=cx.where(fn), function=fn.qualname)
        return
    cx.ok(rule, f"{fn.name}: model.execute() only under running and timestep < max_timesteps (strict), one step per test",
          where=cx.where(fn), function=fn.qualname, execute_events=seen_exec)
    # fresh model per run: whatever is stepped was built in this call from the caller's class and combination
    bad = [m for m in model_terms if m not in wanted_models]
    if not model_terms or bad:
        cx.violation('R-FRESH', fn.qualname, 'fresh-model-per-run',
                     f"{fn.name} must build its model as {model_from[0]}(**{model_from[1]}) on every run (found "
                     f"{[repr(m) for m in model_terms]})", where=cx.where(fn))
    else:
        cx.ok('R-FRESH', f"{fn.name}: model = {model_from[0]}(**{model_from[1]}) built inside every call", where=cx.where(fn), function=fn.qualname)
    # no module-level mutable state is read
    from .common import module_state_reads
    for n in module_state_reads(fn):
        if isinstance(n, ast.Name):
            cx.violation('R-FRESH', fn.qualname, 'no-module-level-state',
                         f"{fn.name} reads the module-level object '{n.id}': runs are no longer independent of each other",
                         where=cx.where(fn, n.lineno))
        else:
            cx.violation('R-FRESH', fn.qualname, 'no-module-level-state', f"{fn.name} declares global state", where=cx.where(fn, n.lineno))


def check_no_swallow(cx: Cx, quals: List[str]):
    """Error discipline: no handler on the run path swallows an exception."""
    for q in quals:
        fn = cx.fn(q)
        bad = None
        for n in ast.walk(fn.node):
            if isinstance(n, ast.Try):
                for h in n.handlers:
                    if not any(isinstance(x, ast.Raise) for s in h.body for x in ast.walk(s)):
                        bad = h
        if bad is not None:
            cx.violation('R-GUARD', fn.qualname, 'errors-propagate',
                         f"{fn.name} catches {ast.unparse(bad.type) if bad.type else 'everything'} without re-raising: an error "
                         f"raised by an execution is dropped instead of reaching the caller", where=cx.where(fn, bad.lineno))
        else:
            cx.ok('R-GUARD', f"{fn.name}: no exception handler on the run path", where=cx.where(fn), function=fn.qualname)


def arms(cx: Cx, fn, paths: List[Path]):
    """Split the non-raising paths of a batch front-end into the serial arm (processes == 1) and the pool arm."""
    one = mk_cmp(Sym('processes'), '==', Num(Fraction(1)))
    serial, pool = [], []
    for p in paths:
        if implies(p.cond, one) is None:
            serial.append(p)
        elif implies(p.cond, f_not(one)) is None:
            pool.append(p)
    return serial, pool


def result_pipeline(cx: Cx, fn, paths: List[Path], p: Path, ret: Term, table=None):
    """The result list `ret` of a batch front-end on path p, read as [F(w) for w in W if keep(F(w))] whichever way it is
    written (loop with appends, comprehension, map(F, W), pool.imap*(F, W), copies of those).  Returns a dict
    {F, W, keep: 'not-none' | 'all', via: 'serial' | '.imap' | ..., forms} or an error string."""
    from .common import list_facts
    ret = strip_versions(ret)
    if not isinstance(ret, Fresh):
        return f"{ret!r} is not a list built in this call"
    lf = list_facts(paths, p, ret, lambda s: not isinstance(s, Fresh), table)
    if not lf.ok:
        return lf.err
    if lf.base_src is None or lf.elem is None:
        return 'the result list is never filled on this path'
    src, v = strip_versions(lf.base_src), lf.base_var
    if isinstance(src, App) and src.fn in ('.imap_unordered', '.imap', '.map') and len(src.args) in (3, 4) and \
            all(k == 'chunksize' for k, _ in (src.kw or ())):       # chunksize only batches the dispatch (trusted library)
        F, W, x, via = src.args[1], src.args[2], v, src.fn
        # the worker processes belong to this call: a pool kept between calls is a snapshot of the process as it was when the FIRST
        # call forked it (class-level configuration made since is missing in it), so later sweeps differ from in-process runs
        pool_t = strip_versions(src.args[0])
        made_here = isinstance(pool_t, App) and pool_t.fn in ('call', 'new') and pool_t.args and isinstance(pool_t.args[0], Sym) and \
            pool_t.args[0].name.rsplit('.', 1)[-1] == 'Pool'
        # ... and they are PROCESSES: a thread pool (multiprocessing.dummy.Pool, multiprocessing.pool.ThreadPool) runs the models side by
        # side in one interpreter, where everything kept outside the instances (class components, default tags, the global tag
        # library) is shared between the runs
        ctor_ = pool_t.args[0] if isinstance(pool_t, App) and pool_t.fn in ('call', 'new') and pool_t.args else \
            (strip_versions(pool_t.args[0]).args[0] if isinstance(pool_t, App) and pool_t.fn == '.__enter__' and pool_t.args and
             isinstance(strip_versions(pool_t.args[0]), App) and strip_versions(pool_t.args[0]).args else None)
        if isinstance(ctor_, Sym) and ('dummy' in ctor_.name or 'Thread' in ctor_.name):
            return (f"the pool arm runs the work list on {ctor_.name}, a pool of THREADS: the runs share one interpreter, so models that "
                    f"keep state outside their instances overwrite each other's state and the results depend on thread timing")
        if not made_here and not (isinstance(pool_t, App) and pool_t.fn in ('.__enter__',) and pool_t.args and
                                  isinstance(strip_versions(pool_t.args[0]), App) and 'Pool' in repr(strip_versions(pool_t.args[0]))[:60]):
            return (f"the pool arm maps over {pool_t!r}, which is not a Pool created in this call: worker processes kept between calls "
                    f"run later sweeps in a stale copy of the process")
        # ... with as many workers as the caller asked for: `processes` goes to Pool() as it came (None means "all cores", and an
        # empty work list still is a legal sweep - Pool(min(processes, len(work))) raises for both)
        pc = strip_versions(pool_t.args[0]) if isinstance(pool_t, App) and pool_t.fn == '.__enter__' and pool_t.args else pool_t
        if isinstance(pc, App) and pc.fn in ('call', 'new') and pc.args and isinstance(pc.args[0], Sym) and pc.args[0].name.rsplit('.', 1)[-1] == 'Pool':
            given = list(pc.args[1:]) + [v_ for k_, v_ in (pc.kw or ()) if k_ == 'processes']
            if 'processes' in fn.params and given != [Sym('processes')]:
                return (f"the pool is created with {given!r} worker processes, not with the caller's `processes` as given: None (all "
                        f"cores) or an empty work list now raise although the serial arm answers")
        # ... provided it is at least 1 (Pool.imap raises ValueError for 0; Pool.map takes None as "choose for me")
        chunks = list(src.args[3:]) + [cv for k, cv in (src.kw or ()) if k == 'chunksize']
        for cz in chunks:
            cz = strip_versions(cz)
            mm = cz if isinstance(cz, App) and cz.fn == 'max' else None
            ok_cz = (isinstance(cz, Num) and cz.value >= 1) or (cz == Const(None) and src.fn == '.map') or \
                (mm is not None and any(isinstance(a, Num) and a.value >= 1 for a in mm.args))
            if not ok_cz:
                return (f"the pool map is given chunksize={cz!r}, which is not known to be at least 1: with fewer work items than worker "
                        f"processes it is 0 and the map raises ValueError, although the serial arm answers")
    elif isinstance(src, App) and src.fn in ('map', 'call') and Sym('builtins.map') in src.args[:1] and len(src.args) == 3:
        F, W, x, via = src.args[1], src.args[2], v, 'serial'
    elif isinstance(src, App) and src.fn == 'map' and len(src.args) == 2 and not src.kw:
        F, W, x, via = src.args[0], src.args[1], v, 'serial'
    else:
        calls = [e for q in paths for e in q.events if e.kind == 'call' and e.data.get('args') == (v,) and not e.data.get('kw')
                 and e.data.get('result') == lf.elem and e.data.get('func_term') is not None]
        fts = {e.data.get('func_term') for e in calls}
        if len(fts) != 1:
            # the worker called directly, work item among its arguments: W(a, item, b) is partial(W, a, <third>=b)(item)
            direct = [e for q in paths for e in q.events if e.kind == 'call' and e.data.get('target_kind') == 'pkg' and
                      e.data.get('result') == lf.elem and len(e.data.get('targets', [])) == 1 and
                      list(e.data.get('args', ())).count(v) == 1 and e.data.get('recv') is None]
            synth = set()
            for e in direct:
                callee = e.data['targets'][0]
                args_ = list(e.data.get('args', ()))
                i = args_.index(v)
                if len(args_) > len(callee.params) or any(isinstance(a, App) and a.fn == '*' for a in args_):
                    continue
                kw_ = dict(e.data.get('kw', ()))
                for j in range(i + 1, len(args_)):
                    kw_[callee.params[j]] = args_[j]
                synth.add(App('call', (Sym('functools.partial'), Sym('<func ' + callee.qualname + '>')) + tuple(args_[:i]), tuple(sorted(kw_.items()))))
            if len(synth) == 1:
                fts = synth
        if len(fts) != 1:
            return f"the kept element {lf.elem!r} is not the result of calling the worker on the work item {v!r}"
        F, W, x, via = next(iter(fts)), src, lf.elem, 'serial'
    if x != lf.elem:
        return f"the list keeps {lf.elem!r}, not the worker's result {x!r}"
    notnone = f_not(AIs(x, Const(None)))
    if lf.cond == FTrue:
        keep = 'all'
    elif compare(lf.cond, notnone) is None:
        keep = 'not-none'
    else:
        return (f"whether a result is kept does not depend on `is not None` alone (condition {lf.cond!r}): falsy but valid "
                f"results (empty record lists) would be dropped")
    return {'F': F, 'W': W, 'keep': keep, 'via': via, 'forms': lf.forms}
