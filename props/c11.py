"""C11 - cell components hold each cell's own value and are independent of their sources."""
from __future__ import annotations

import ast
from fractions import Fraction

from sa.report import Cx
from sa.walker import WalkOptions
from sa.terms import (Sym, Attr, Sub, App, Num, Const, Fresh, TupleT, CompInfo, AIn, AEq, AIsInst, ACmp, f_and, f_not, implies, mk_cmp,
                      subst_formula, FTrue, FFalse, FConst, atoms_of, Term)
from .common import ENV, check_atomic, order_class, strip_versions, super_init_bindings
from .c09 import find_comp, producer_facts

PID = 'C11'
EXPLANATION = (
    "Callable source (R-ITER + R-FWD): the stored column is built by an order-preserving comprehension over the 'pos' "
    "column (id order by C09) that calls generator(pos, cells) with the position first - one value per cell, in id order; "
    "every branch of add_cell_component writes only the column `name`. R-AGREE (arity): the tuple arity produced for "
    "`pos` by the cell-table comprehension versus the arms LookupGenerator.__call__ dispatches on; each world class's "
    "dimensionality is derived from the constant zeros its constructor forwards to DiscreteWorld.__init__; an arm whose "
    "subscript depth differs from the world's dimensionality while being the only arm reachable for the produced arity is "
    "reported. ConstantGenerator returns its single-assignment value. R-ATOMIC + R-GUARD: remove_cell_component raises "
    "ComponentNotFoundError before any write when the name is absent and drops exactly [name]. Not decided: that assigning "
    "a list/ndarray puts element i in row i and that later changes to the caller's buffer do not show through - pandas "
    "semantics (under the installed pandas 3 column assignment copies, so the explicit np.copy is not a necessary "
    "condition and is deliberately not checked).")
EXPLANATION += (" A dispatch that depends on the VALUE of a coordinate is a violation. Premise: C09's get_cell rules (coordinate -> id).")
EXPLANATION += (' Overrides of get_cell keep the base signature; importing the package executes no call statement at module level.')
EXPLANATION += (' LookupGenerator indexes its table by pos[0], pos[1], ... in that order.')
ASSUMPTIONS = ["pandas column assignment / drop semantics", "C09 (row i holds the cell with id i)"]

DW = ENV + 'DiscreteWorld'


def run(cx: Cx):
    add = cx.fn(DW + '.add_cell_component')
    rem = cx.fn(DW + '.remove_cell_component')
    self_s, name, gen = (Sym(x) for x in add.params[:3])
    cells = Attr(self_s, 'cells')
    # ------------------------------------------------------------ clause 1: add_cell_component
    seen = set()
    n = 0
    add_paths = cx.walker.paths(add, WalkOptions(unroll=1, callee_raises=False))
    for p in add_paths:
        if p.end == 'raise':
            continue
        n += 1
        st = [e for e in p.events if e.kind == 'store' and e.data.get('loc') == (DW, 'cells')]
        where = cx.where(add, st[0].line if st else None)
        if len(st) != 1 or st[0].data.get('store') != 'setitem' or st[0].data.get('key') != name or strip_versions(st[0].data.get('target')) != cells:
            cx.violation('R-GUARD', add.qualname, 'writes-only-the-named-column',
                         f"add_cell_component must write exactly the column `name` of the cell table (found "
                         f"{[(e.data.get('store'), repr(e.data.get('key'))) for e in st]}): other cell components / the set of cells would change",
                         where=where, path=p.lines())
            continue
        v = st[0].data.get('value')
        is_arr = AIsInst(gen, Sym('numpy.ndarray'))
        is_list = AIsInst(gen, Sym('list'))
        if implies(p.cond, is_arr) is None:
            seen.add('ndarray')
            copies = ('.copy', 'copy', '.array', '.asarray', 'list', 'call')
            ok = v == gen
            if isinstance(v, App) and v.args and gen in v.args:
                # numpy.copy(gen) / gen.copy() / numpy.array(gen): element i stays element i; a converting call
                # (nan_to_num, astype, clip, sort, ...) does not
                nm = v.fn if v.fn != 'call' else repr(v.args[0])
                ok = any(nm.endswith(c) for c in ('.copy', 'copy', '.array', '.asarray', 'numpy.copy', 'numpy.array'))
            if not ok:
                cx.violation('R-GUARD', add.qualname, 'array-source-stored', f"an ndarray source is stored as {v!r}", where=where)
        elif implies(p.cond, is_list) is None:
            seen.add('list')
            if not (v == gen or (isinstance(v, Fresh) and v.items == (gen,))):
                cx.violation('R-GUARD', add.qualname, 'list-source-stored', f"a list source is stored as {v!r}", where=where)
        else:
            seen.add('callable')
            from .common import list_facts
            posc = Sub(cells, Const('pos'))
            lf = list_facts(add_paths, p, v, lambda src: not isinstance(src, Fresh) and order_class(src, posc) == 'inorder') \
                if isinstance(v, Fresh) else None
            if lf is None or not lf.ok:
                if isinstance(v, Fresh) and v.kind in ('listcomp', 'gen') and v.detail is not None and v.detail.gens and \
                        order_class(v.detail.gens[0][1], posc) == 'reordered':
                    cx.violation('R-ITER', add.qualname, 'values-in-id-order', f"the callable source is evaluated over "
                                 f"{v.detail.gens[0][1]!r}: values no longer line up with the cell ids", where=where)
                else:
                    cx.violation('R-ITER', add.qualname, 'one-value-per-cell-in-id-order', f"the callable source is stored as {v!r}: not one "
                                 f"generator(pos, cells) per entry of cells['pos'], in order ({lf.err if lf is not None else 'not a list built here'})",
                                 where=where)
                continue
            from sa.terms import FTrue as _T
            want_elem = App('call', (gen, lf.base_var, cells))
            if lf.cond != _T:
                cx.violation('R-ITER', add.qualname, 'one-value-per-cell-in-id-order', f"cells can be skipped (filter {lf.cond!r}): all later "
                             f"values shift against the cell ids", where=where)
            elif lf.elem != want_elem and _exact_type_shortcut(cx, p, gen, lf.elem, lf.base_var, cells):
                pass        # a source of exactly a bundled generator class, answered with what that class's __call__ returns
            elif lf.elem != want_elem:
                cx.violation('R-FWD', add.qualname, 'generator-called-with-position-then-cells',
                             f"the callable source is evaluated as {lf.elem!r}; every cell's value must be generator(<that cell's position>, "
                             f"cells)", where=where)
    if seen >= {'ndarray', 'list', 'callable'} and not any(o.verdict == 'violation' and o.function == add.qualname for o in cx.obs):
        cx.ok('R-ITER', "add_cell_component: ndarray / list / callable branches write only column `name`; callable evaluated per cell in id order",
              where=cx.where(add), function=add.qualname)
    elif not seen >= {'ndarray', 'list', 'callable'}:
        cx.inconclusive('R-ITER', 'add_cell_component branches', f"branches found: {sorted(seen)}", where=cx.where(add), function=add.qualname)
    cx.floor('add_cell_component success paths', n, 3)

    # ------------------------------------------------------------ clause 4: remove_cell_component
    check_atomic(cx, rem.qualname, ['ComponentNotFoundError'])
    from .common import check_overrides_forward
    check_overrides_forward(cx, DW, ['add_cell_component', 'remove_cell_component', 'get_cell'])
    from .common import check_import_has_no_side_effects
    check_import_has_no_side_effects(cx, rule='R-GUARD')
    rs, rn = Sym(rem.params[0]), Sym(rem.params[1])
    rcells = Attr(rs, 'cells')
    for p in cx.walker.paths(rem, WalkOptions(unroll=1, callee_raises=False)):
        if p.end == 'raise':
            continue
        st = [e for e in p.events if e.kind == 'store' and e.data.get('loc') == (DW, 'cells')]
        good = False
        if len(st) == 1 and implies(p.cond, AIn(rn, rcells)) is None:
            e = st[0]
            kw = dict(e.data.get('kw', ()))
            cols = kw.get('columns')
            if e.data.get('store') == 'drop' and isinstance(cols, Fresh) and cols.items == (rn,):
                good = True
            if e.data.get('store') == 'delitem' and e.data.get('key') == rn:
                good = True
            if e.data.get('store') == 'rebind' and isinstance(e.data.get('value'), App) and e.data['value'].fn == '.drop':
                kw2 = dict(e.data['value'].kw)
                good = isinstance(kw2.get('columns'), Fresh) and kw2['columns'].items == (rn,)
        if good:
            cx.ok('R-GUARD', 'remove_cell_component drops exactly [name] under the presence test', where=cx.where(rem, st[0].line), function=rem.qualname)
        else:
            cx.violation('R-GUARD', rem.qualname, 'drops-exactly-the-named-column',
                         f"remove_cell_component must drop exactly the column `name`, after establishing that it exists (found "
                         f"{[(e.data.get('store'), repr(dict(e.data.get('kw', ())).get('columns'))) for e in st]})", where=cx.where(rem), path=p.lines())
    # only an unknown name is rejected: every cell component that exists can be removed
    for p in cx.walker.paths(rem, WalkOptions(unroll=1, callee_raises=False)):
        if p.end == 'raise' and p.last.data.get('exc') == 'ComponentNotFoundError' and implies(p.cond, f_not(AIn(rn, rcells))) is not None:
            cx.violation('R-GUARD', rem.qualname, 'only-unknown-names-are-rejected',
                         f"remove_cell_component rejects a name under [{p.cond!r}], which does not establish that the name is unknown: an "
                         f"existing cell component with such a name cannot be removed", where=cx.where(rem, p.last.line), path=p.lines())
            break
    else:
        cx.ok('R-GUARD', 'remove_cell_component rejects unknown names only', where=cx.where(rem), function=rem.qualname)
    # adding a cell component writes that one column and nothing else: in particular it never drops a column first (the source may
    # read the existing column, and a failing source must leave the table as it was)
    extra = [(w, ch) for w, ch in cx.effects.trans_writes(add) if w.loc == (DW, 'cells') and w.owner_q != add.qualname]
    if extra:
        w, ch = extra[0]
        cx.violation('R-ATOMIC', add.qualname, 'add-writes-only-the-new-column',
                     f"add_cell_component also changes the cell table through {' -> '.join(ch)} ({w.describe()}): a column is gone before "
                     f"the new values exist, so a source that reads it (or fails) loses the existing component", where=w.where)
    else:
        cx.ok('R-ATOMIC', 'add_cell_component writes the cell table only by storing the new column', where=cx.where(add), function=add.qualname)
    sites = cx.effects.sites_of((DW, 'cells'))
    allowed = {DW + '.__init__', add.qualname, rem.qualname}
    for s in sites:
        if not s.owned_within(allowed):
            cx.violation('R-DISC', s.fn.qualname, f"cells-{s.kind}", f"{s.describe()}: the cell table is written outside the constructor / "
                         f"add_cell_component / remove_cell_component", where=s.where)
    cx.floor('cell table write sites', len(sites), 3)

    # ------------------------------------------------------------ clause 3: ConstantGenerator
    cg_call = cx.fn(ENV + 'ConstantGenerator.__call__')
    for p in cx.walker.paths(cg_call, WalkOptions(unroll=1)):
        v = p.last.data.get('value') if p.end == 'return' else None
        if v == Attr(Sym(cg_call.params[0]), 'value'):
            cx.ok('R-GUARD', 'ConstantGenerator returns its value for every cell', where=cx.where(cg_call), function=cg_call.qualname)
        else:
            cx.violation('R-GUARD', cg_call.qualname, 'returns-the-constant', f"ConstantGenerator.__call__ returns {v!r}", where=cx.where(cg_call))
    vs = cx.effects.sites_of((ENV + 'ConstantGenerator', 'value'))
    if all(s.owner_name == '__init__' and s.ev.data.get('value') == Sym('value') for s in vs) and vs:
        cx.ok('R-DISC', 'ConstantGenerator.value is single-assignment from the constructor argument', where=vs[0].where, function=vs[0].fn.qualname)
    else:
        cx.violation('R-DISC', ENV + 'ConstantGenerator', 'value-single-assignment', "ConstantGenerator.value is written outside its constructor",
                     where=cx.where(cg_call))

    # ------------------------------------------------------------ clause 2: LookupGenerator arity vs the producer
    dinit = cx.fn(DW + '.__init__')
    pf = producer_facts(cx, dinit)
    if pf is None or not isinstance(pf[1], TupleT):
        cx.inconclusive('R-AGREE', 'cell position producer', "the 'pos' column producer was not found", where=cx.where(dinit), function=dinit.qualname)
        return
    arity = len(pf[1].items)
    lg = cx.fn(ENV + 'LookupGenerator.__call__')
    pos = Sym(lg.params[1])
    table = Attr(Sym(lg.params[0]), 'table')
    arms = []
    for p in cx.walker.paths(lg, WalkOptions(unroll=1)):
        if p.end != 'return':
            continue
        v = p.last.data.get('value')
        from sa.terms import IfT as _IfT
        variants = [(p.cond, v)]
        if isinstance(v, _IfT):
            variants = [(f_and(p.cond, v.cond), v.a), (f_and(p.cond, f_not(v.cond)), v.b)]
        for pcond, v in variants:
            _arm(arms, pcond, v, p, pos, arity, table)
            # the table is indexed by the coordinates in their own order: table[x][y][z] (an exchanged pair hands cell (x, y, z)
            # the entry of (y, x, z))
            idx, t_ = [], strip_versions(v)
            while isinstance(t_, Sub):
                idx.append(strip_versions(t_.index))
                t_ = strip_versions(t_.base)
            idx.reverse()
            if t_ == table and idx and idx != [pos] and idx != [Sub(pos, Num(Fraction(i))) for i in range(len(idx))] \
                    and all(isinstance(i_, Sub) and strip_versions(i_.base) == pos for i_ in idx):
                cx.violation('R-AGREE', lg.qualname, 'table-indexed-by-the-coordinates-in-order',
                             f"LookupGenerator.__call__ returns {v!r}: the table is not indexed as table[pos[0]][pos[1]]... in coordinate "
                             f"order, so a cell receives the entry of another cell", where=cx.where(lg, p.last.line))
    for _unused in ():
        depth = 0
        t = v
        idxs = []
        while isinstance(t, Sub):
            idxs.append(t.index)
            t = t.base
            depth += 1
        # is this arm reachable when pos is a tuple of `arity` ints?
        def fold(a):
            if isinstance(a, AEq) and a.a == App('type', (pos,)):
                return FConst(a.b in (Sym('tuple'),))
            if isinstance(a, AIsInst) and a.x == pos:
                return FConst(a.t in (Sym('tuple'),))
            if isinstance(a, ACmp) and a.base == App('len', (pos,)):
                from sa.terms import eval_formula
                return FConst(eval_formula(a, {a.base: Fraction(arity)}, {}))
            return None
        from sa.terms import subst_atoms
        c = subst_atoms(p.cond, fold)
        arms.append((depth, c, p, t == table))

    stale = [(d, p) for d, c, p, okk in arms if not okk]
    if stale:
        cx.violation('R-GUARD', lg.qualname, 'lookup-reads-the-current-table',
                     f"LookupGenerator.__call__ returns {stale[0][1].last.data.get('value')!r}: the entry is not read from self.table "
                     f"at call time (a converted or cached copy goes stale when the table is edited or replaced between components)",
                     where=cx.where(lg, stale[0][1].last.line))
        return
    reach = [(d, p) for d, c, p, ok in arms if c == FTrue]
    undecided = [(d, c) for d, c, p, ok in arms if not isinstance(c, FConst)]
    cx.floor('LookupGenerator dispatch arms', len(arms), 2)
    if undecided:
        from sa.terms import term_symbols as _ts

        def _reads_coordinates(c):
            for a in atoms_of(c):
                for attr in ('base', 'a', 'b', 'x', 't', 'container'):
                    tt = getattr(a, attr, None)
                    if tt is None:
                        continue
                    stack = [tt]
                    while stack:
                        u = stack.pop()
                        if isinstance(u, Sub) and strip_versions(u.base) == pos:
                            return True
                        for ch in ('base', 'index'):
                            if hasattr(u, ch) and isinstance(getattr(u, ch), Term):
                                stack.append(getattr(u, ch))
                        if isinstance(u, App):
                            stack.extend(u.args)
            return False
        valued = [(d, c) for d, c in undecided if _reads_coordinates(c)]
        if valued:
            cx.violation('R-AGREE', lg.qualname, 'dispatch-on-the-shape-of-the-position-only',
                         f"LookupGenerator.__call__ chooses how deep to index the table by the VALUE of a coordinate ([{valued[0][1]!r}]): "
                         f"cells of one table get entries from different nesting levels (a whole row for some cells, an element for "
                         f"others)", where=cx.where(lg))
            return
        cx.inconclusive('R-AGREE', 'LookupGenerator dispatch', f"arm conditions do not fold for a {arity}-tuple position: "
                        f"{[repr(c) for d, c in undecided]}", where=cx.where(lg), function=lg.qualname)
        return
    worlds = []
    for cq in (ENV + 'LineWorld', ENV + 'GridWorld'):
        ctor = cx.fn(cq + '.__init__')
        r = super_init_bindings(cx, ctor)
        if r is None:
            continue
        b = r[1]
        dim = sum(1 for ext in ('width', 'height', 'depth') if b.get(ext) != Num(Fraction(0)))
        worlds.append((cq.split('.')[-1], dim))
    worlds.append(('DiscreteWorld (3 populated axes)', 3))
    depths = sorted({d for d, p in reach})
    mism = [(w, dim) for w, dim in worlds if depths != [dim]]
    if len(reach) == 1 and not mism:
        cx.ok('R-AGREE', f"LookupGenerator: for the produced {arity}-tuples the reachable arm indexes the table {depths[0]} deep on every world",
              where=cx.where(lg), function=lg.qualname)
    else:
        d = depths[0] if depths else None
        cx.violation('R-AGREE', lg.qualname, 'dispatch-arity-agrees-with-the-position-producer',
                     f"DiscreteWorld.add_cell_component always supplies positions as {arity}-tuples, so of LookupGenerator's arms only the one "
                     f"indexing the table {d} deep is reachable through a world; the worlds {[w for w, dim in mism]} have dimensionality "
                     f"{[dim for w, dim in mism]}: a table of the world's own dimensionality cannot be used (TypeError / wrong entry)",
                     where=cx.where(lg, reach[0][1].last.line if reach else None), arity=arity, reachable_depths=depths, worlds=worlds)
    from .common import include_premises
    include_premises(cx, ['C09'], 'reading a cell component through get_cell uses the coordinate -> id mapping',
                     only=lambda o: o.rule in ('R-AGREE', 'R-FWD'))
    from .common import check_no_stateful_memo
    check_no_stateful_memo(cx)


def _arm(arms, pcond, v, p, pos, arity, table):
    from sa.terms import subst_atoms, eval_formula
    depth = 0
    t = v
    while isinstance(t, Sub):
        t = t.base
        depth += 1

    def fold(a):
        if isinstance(a, AEq) and a.a == App('type', (pos,)):
            return FConst(a.b in (Sym('tuple'),))
        if isinstance(a, AIsInst) and a.x == pos:
            return FConst(a.t in (Sym('tuple'),))
        if isinstance(a, ACmp) and a.base == App('len', (pos,)):
            return FConst(eval_formula(a, {a.base: Fraction(arity)}, {}))
        return None
    arms.append((depth, subst_atoms(pcond, fold), p, t == table))


def _exact_type_shortcut(cx: Cx, p, gen, elem, pos, cells) -> bool:
    """On a path that established `type(generator) is <bundled generator class>` (exactly that class, so no override is skipped),
    the stored element is what that class's __call__(generator, pos, cells) returns."""
    from sa.terms import atoms_of, AEq, subst_term
    from sa.walker import _Ctx, State
    for a in atoms_of(p.cond):
        if isinstance(a, AEq) and a.a == App('type', (gen,)) and isinstance(a.b, Sym) and implies(p.cond, a) is None:
            ci = cx.prog.classes.get(a.b.name)
            if ci is None or '__call__' not in ci.methods:
                continue
            call = ci.methods['__call__'][0]
            rows = []
            for q in cx.walker.paths(call, WalkOptions(unroll=1, callee_raises=False)):
                if q.end != 'return' or any(e.kind in ('store', 'call') for e in q.events):
                    return False
                rows.append((q.cond, q.last.data.get('value')))
            if len(rows) != 1:
                return False
            ps_ = call.params
            mapping = {Sym(ps_[0]): gen}
            if len(ps_) > 1:
                mapping[Sym(ps_[1])] = pos
            if len(ps_) > 2:
                mapping[Sym(ps_[2])] = cells
            try:
                return subst_term(rows[0][1], mapping) == elem
            except Exception:
                return False
    return False
