"""C16 - grid search scores every combination correctly and returns the true best."""
from __future__ import annotations

from fractions import Fraction

from sa.report import Cx
from sa.walker import WalkOptions, _Ctx, State
from sa.terms import (Sym, Attr, Sub, App, Num, Const, Fresh, TupleT, BoolT, IfT, ACmp, f_and, f_or, f_not, implies, compare, mk_cmp, neg,
                      atoms_of, subst_atoms, subst_formula, eval_formula, FTrue, FFalse, FConst)
from .common import CORE, BATCH, check_atomic, strip_versions
from .batchcommon import result_pipeline, built_list_ok, partial_binding, check_driver_loop, check_no_swallow, arms

PID = 'C16'
EXPLANATION = (
    "R-EXH on _score_model_for_search: the CFG path conditions, folded over ScoreMode's declared values, send every one of "
    "the members to exactly one returning path whose value is the tabled aggregate (MIN->min, MAX->max, *_MEAN->"
    "statistics.mean, *_SUM->sum (exact; fmean/fsum go through float), *_VARIANCE->statistics.variance, the sample variance), anything else raises "
    "ValueError. Direction flag: folded over the declared values it is true exactly for the members whose name starts "
    "with MIN. Selection loop (walked once per direction with the flag fixed): it visits every result in order; in each "
    "iteration the score is computed from that result's own records with the caller's mode and stored under 'score'; the "
    "update condition equals the STRICT comparison of that score with the running target (first optimum is kept); index "
    "and target are updated together; R-SENT: the running target starts at +inf / -inf (a finite sentinel loses to "
    "larger-magnitude scores); the function returns (results[index], results). R-SIB/R-FWD: serial and pool arms consume "
    "the built product list with the same partial, append every result once, and the pool arm is an ORDERED map; the "
    "partial binds model_cls, score_func, repetitions in the callee's parameter order. _run_model_for_search builds a "
    "fresh model per repetition, steps under the strict guard, appends one score_func(model) per repetition and adds "
    "only the 'records' key.")
EXPLANATION += (" Premise: C07's Model.__init__ seeding rules.")
ASSUMPTIONS = ["numerical results of min/max/sum/statistics are trusted", "Pool.imap / map preserve input order",
               "ties and NaN beyond strictness are not decided"]

GS = BATCH + 'grid_search'
RUN = BATCH + '_run_model_for_search'
SCORE = BATCH + '_score_model_for_search'
INF = [App('float', (Const('inf'),)), Sym('math.inf'), Sym('numpy.inf'), App('float', (Const('Infinity'),))]
NEG_INF = [App('float', (Const('-inf'),)), Sym('-math.inf')] + [neg(t) for t in INF]

# the work list is recognised as the call ParameterList.build(); its body is C14's subject
NOINL = frozenset({BATCH + 'ParameterList.build'})


def run(cx: Cx):
    ROLES.update({k: k for k in list(ROLES)})      # reset: one process may analyse several variants
    _score_table(cx)
    _selection(cx)
    _arms(cx)
    _worker(cx)
    check_no_swallow(cx, [GS, RUN, SCORE])
    # the grid is ParameterList.build(): independent dictionaries per combination (the workers write into them)
    from .c14 import check_build, check_declaration
    check_build(cx)
    check_declaration(cx)
    from .common import check_no_stateful_memo
    check_no_stateful_memo(cx)
    # a listed seed is the seed the model runs with: Model.__init__ seeds its generator from the argument as given (C07's rule) - a
    # constructor that replaces falsy seeds scores `seed=0` with a different, unlisted seed in every repetition
    from .common import include_premises
    include_premises(cx, ['C07'], 'the records of a parameter set are those of the listed parameters: a listed seed is used as given',
                     only=lambda o: (o.function or '').endswith('Model.__init__'))


# ------------------------------------------------------------------------------------------------ R-EXH
def _table(rec):
    return {
        'MIN': [App('min', (rec,))], 'MAX': [App('max', (rec,))],
        # exact aggregates only: fmean / fsum convert to float first and lose integer scores above 2**53
        'MEAN': [App('.mean', (Sym('statistics'), rec))],
        'SUM': [App('sum', (rec,))],
        'VARIANCE': [App('.variance', (Sym('statistics'), rec))],
    }


def _canon_call(v):
    """`from statistics import mean; mean(x)` is `statistics.mean(x)`"""
    if isinstance(v, App) and v.fn == 'call' and v.args and isinstance(v.args[0], Sym) and '.' in v.args[0].name and not v.kw:
        mod_, _, f_ = v.args[0].name.rpartition('.')
        return App('.' + f_, (Sym(mod_),) + tuple(v.args[1:]))
    return v


def _tabled_on_path(v, cond, members, rec, mode):
    """The aggregate was chosen earlier on this path (a function value resolved once per call): `v` is the prescribed aggregate of
    `rec` for every ScoreMode member the path condition admits, and the path admits no value outside ScoreMode.  None: the path
    admits no mode at all (the direction assumed for this pass contradicts the arm taken)."""
    table = _table(rec)
    v = _canon_call(v)
    admitted = 0
    for name, val in members.items():
        c = subst_formula(cond, {mode: Num(Fraction(val))})
        if c == FFalse:
            continue
        kind = name.split('_', 1)[1] if '_' in name else name
        if v not in table.get(kind, ()):
            return False
        admitted += 1
    vals = sorted(members.values())
    for out in (vals[0] - 1, vals[-1] + 1, vals[-1] + 2):
        if subst_formula(cond, {mode: Num(Fraction(out))}) != FFalse:
            return False
    return True if admitted else None


def _score_table(cx: Cx):
    fn = cx.fn(SCORE)
    sm = cx.prog.cls(BATCH + 'ScoreMode')
    members = {k: v for k, v in cx.prog.enum_members(sm).items() if isinstance(v, int)}
    cx.floor('ScoreMode members', len(members), 2)
    rec, mode = Sym(fn.params[0]), Sym(fn.params[1])
    table = _table(rec)
    paths = cx.walker.paths(fn, WalkOptions(unroll=0, callee_raises=False))
    for name, val in sorted(members.items(), key=lambda kv: kv[1]):
        hits = []
        for p in paths:
            c = subst_formula(p.cond, {mode: Num(Fraction(val))})
            if c == FTrue:
                hits.append(p)
            elif c != FFalse:
                cx.inconclusive('R-EXH', f"ScoreMode.{name}", f"path condition {p.cond!r} does not fold over the member's value",
                                where=cx.where(fn), function=fn.qualname)
        kind = name.split('_', 1)[1] if '_' in name else name
        want = table.get(kind)
        if want is None:
            cx.violation('R-EXH', fn.qualname, f"member-{name}-has-a-tabled-aggregate", f"ScoreMode.{name} has no aggregate prescribed by "
                         f"the property (min / max / mean / sum / sample variance)", where=sm.where)
            continue
        if len(hits) != 1:
            cx.violation('R-EXH', fn.qualname, f"member-{name}-handled-by-exactly-one-arm", f"ScoreMode.{name} ({val}) is handled by "
                         f"{len(hits)} arms of _score_model_for_search", where=cx.where(fn))
            continue
        p = hits[0]
        v = p.last.data.get('value') if p.end == 'return' else None
        v = _canon_call(v)
        if p.end == 'return' and v in want:
            cx.ok('R-EXH', f"ScoreMode.{name} -> {v!r}", where=cx.where(fn, p.last.line), function=fn.qualname)
        else:
            cx.violation('R-EXH', fn.qualname, f"member-{name}-aggregate",
                         f"ScoreMode.{name} is aggregated as {(repr(v) if v is not None else p.end)}; the prescribed aggregate is "
                         f"{want[0]!r}" + (' (the SAMPLE variance)' if kind == 'VARIANCE' else ''), where=cx.where(fn, p.last.line if p.last else None))
    # anything else raises ValueError
    other = [p for p in paths if all(subst_formula(p.cond, {mode: Num(Fraction(v))}) == FFalse for v in members.values())]
    if other and all(p.end == 'raise' and p.last.data.get('exc') == 'ValueError' for p in other):
        cx.ok('R-EXH', 'values outside ScoreMode raise ValueError', where=cx.where(fn), function=fn.qualname)
    else:
        cx.violation('R-EXH', fn.qualname, 'unknown-mode-raises-ValueError', "_score_model_for_search does not raise ValueError for a mode "
                     "outside ScoreMode", where=cx.where(fn))


# ------------------------------------------------------------------------------------------------ selection loop
def _flag(cx: Cx, fn):
    """The direction flag: the formula assigned to the variable that guards the '<' arm."""
    for p in cx.walker.paths(fn, WalkOptions(unroll=0, callee_raises=False)):
        if p.end == 'raise':
            continue
        for e in p.events:
            if e.kind == 'assign' and isinstance(e.data.get('value'), BoolT) and Sym('mode') in _syms(e.data['value']):
                return e.data['name'], e.data['value'].f, e
    return None, None, None


def _syms(t):
    from sa.terms import term_symbols
    return term_symbols(t)


def _selection(cx: Cx):
    fn = cx.fn(GS)
    sm = cx.prog.cls(BATCH + 'ScoreMode')
    members = {k: v for k, v in cx.prog.enum_members(sm).items() if isinstance(v, int)}
    name, FL, ev = _flag(cx, fn)
    mode = Sym('mode')
    if FL is None:
        cx.inconclusive('R-EXH', 'direction flag', 'no boolean flag computed from `mode` found in grid_search', where=cx.where(fn), function=fn.qualname)
        return
    bad = []
    for mname, val in members.items():
        c = subst_formula(FL, {mode: Num(Fraction(val))})
        if not isinstance(c, FConst):
            cx.inconclusive('R-EXH', 'direction flag', f"flag {FL!r} does not fold over ScoreMode.{mname}", where=cx.where(fn, ev.line), function=fn.qualname)
            return
        if c.v != mname.startswith('MIN'):
            bad.append(mname)
    if bad:
        cx.violation('R-EXH', fn.qualname, 'direction-flag-true-exactly-for-MIN-modes',
                     f"the minimise/maximise flag [{FL!r}] has the wrong value for {bad}: those modes are optimised in the wrong direction",
                     where=cx.where(fn, ev.line))
    else:
        cx.ok('R-EXH', f"direction flag [{FL!r}] is true exactly for the MIN* members", where=cx.where(fn, ev.line), function=fn.qualname)

    fatoms = atoms_of(FL)
    reported = set()

    def viol(rule, missing, msg, where, **kw):
        if missing not in reported:
            reported.add(missing)
            cx.violation(rule, fn.qualname, missing, msg, where=where, **kw)

    # every answer goes through the scoring and selection loop: a shortcut that returns run results directly (a one-combination
    # grid, ...) hands back results without their 'score' and skips the documented selection
    for p0 in cx.walker.paths(fn, WalkOptions(unroll=1, callee_raises=False, no_inline=NOINL)):
        if p0.end == 'return' and not any(e.kind == 'loop' for e in p0.events):
            viol('R-GUARD', 'every-answer-is-scored-and-selected',
                 f"grid_search returns on a path [{p0.cond!r}] that never ran the scoring / selection loop: the returned results carry no "
                 f"'score' and the best is not chosen by the documented rule", cx.where(fn, p0.last.line), path=p0.lines())
            break
    for minimise in (True, False):
        case = 'minimising' if minimise else 'maximising'

        def ax(known, atom, minimise=minimise):
            if atom == FL:
                return minimise
            if len(fatoms) == 1 and atom == fatoms[0]:
                # FL is this atom or its negation
                pos = implies(FL, atom) is None
                return minimise if pos else (not minimise)
            return None
        paths = [p for p in cx.walker.paths(fn, WalkOptions(unroll=2, callee_raises=False, no_inline=NOINL, axioms=ax, domain='real'))
                 if p.end == 'return' and implies(p.cond, mk_cmp(Sym('processes'), '==', Num(Fraction(1)))) is None]
        n_iter = 0
        for p in paths:
            evs = p.events
            # the selection loop = the last loop on the path
            loops = [e for e in evs if e.kind == 'loop']
            if not loops:
                continue
            sel = loops[-1]
            RES = p.last.data['value'].items[1] if isinstance(p.last.data.get('value'), TupleT) and len(p.last.data['value'].items) == 2 else None
            if not isinstance(RES, Fresh):
                viol('R-FRESH', 'returns-best-and-all-results', f"grid_search returns {p.last.data.get('value')!r}, not (best, results)", cx.where(fn, p.last.line))
                continue
            iters = [e for e in evs if e.kind == 'iter' and e.node is sel.node]
            ends = [e for e in evs if e.kind == 'endloop' and e.node is sel.node]
            if any(e.data.get('how') != 'exhausted' for e in ends):
                viol('R-ITER', 'selection-visits-every-result', "the selection loop is left early", cx.where(fn, sel.line))
                continue
            env = {}      # variable -> current term, from the assignments before/inside the loop
            pre = evs[:evs.index(sel)]
            for e in pre:
                if e.kind == 'assign':
                    env[e.data['name']] = e.data['value']
            bounds = [evs.index(e) for e in iters] + [evs.index(ends[-1])]
            # a hand-written position counter: 0 before the loop, incremented exactly once in every iteration
            counters = []
            for cname, cv in env.items():
                if cv == Num(Fraction(0)) and iters and all(
                        [e.data.get('value') for e in evs[bounds[k]:bounds[k + 1]] if e.kind == 'assign' and e.data.get('name') == cname]
                        == [Num(Fraction(k + 1))] for k in range(len(iters))):
                    counters.append(cname)
            holders = [nm for nm, vv in env.items() if vv == Const(None)]
            score_vals = {e.data.get('value') for e in evs if e.kind == 'store' and e.data.get('key') == Const('score')}
            for k, it_ev in enumerate(iters):
                info = it_ev.data['info']
                if info.get('kind') == 'iter' and info.get('var') is not None and strip_versions(sel.data.get('iter')) == RES and counters:
                    i_k, res_k = Num(Fraction(k)), info['var']
                elif info.get('kind') == 'iter' and info.get('var') is not None and strip_versions(sel.data.get('iter')) == RES and holders:
                    # the best RESULT is remembered instead of its position (None until one is found)
                    i_k, res_k = info['var'], info['var']
                elif info.get('kind') == 'enumerate' and strip_versions(info.get('seq')) == RES and info.get('start') == Num(Fraction(0)):
                    i_k, res_k = info['index'], Sub(RES, info['index'])
                elif info.get('kind') == 'range' and info.get('lo') == Num(Fraction(0)) and info.get('hi') == App('len', (RES,)):
                    i_k, res_k = info['index'], Sub(RES, info['index'])
                else:
                    viol('R-ITER', 'selection-visits-every-result', f"the selection loop iterates {sel.data.get('iter')!r}: not every result "
                         f"in order from index 0", cx.where(fn, sel.line))
                    break
                seg = evs[bounds[k]:bounds[k + 1]]
                n_iter += 1
                want_score = App('call:' + SCORE, (Sub(res_k, Const('records')), mode))
                st = [e for e in seg if e.kind == 'store' and e.data.get('store') == 'setitem' and e.data.get('key') == Const('score')]
                if len(st) == 1 and strip_versions(st[0].data.get('target')) == res_k and st[0].data.get('value') != want_score:
                    tb = _tabled_on_path(st[0].data.get('value'), p.cond, members, Sub(res_k, Const('records')), mode)
                    if tb is None:
                        n_iter -= 1
                        break           # no mode takes this path
                    if tb:
                        want_score = st[0].data['value']
                if not (len(st) == 1 and strip_versions(st[0].data.get('target')) == res_k and st[0].data.get('value') == want_score):
                    viol('R-GUARD', 'score-from-own-records-with-callers-mode',
                         f"grid_search must store result['score'] = _score_model_for_search(result['records'], mode) for every result; found "
                         f"{[(repr(e.data.get('target')), repr(e.data.get('value'))) for e in st]}", cx.where(fn, it_ev.line), path=p.lines())
                    break
                score_k = want_score
                conds = [e for e in seg if e.kind == 'cond']
                assigns = [e for e in seg if e.kind == 'assign' and e.data.get('name') in env or
                           (e.kind == 'assign' and e.data.get('value') in (i_k, score_k))]
                F = f_and(*[c.data['formula'] for c in conds])
                F = subst_atoms(F, lambda a: (FConst(ax({}, a)) if ax({}, a) is not None else None))
                # running variables exist before the loop; names first bound inside an iteration are temporaries
                upd_target = [e for e in assigns if e.data.get('value') == score_k and e.data.get('name') in env]
                upd_index = [e for e in assigns if e.data.get('value') == i_k and e.data.get('name') in env]
                # which variables play target / index
                tvars = {e.data['name'] for e in upd_target}
                if not hasattr(_selection, '_names'):
                    pass
                target_var = next(iter(tvars)) if tvars else getattr(p, '_tvar', None)
                # discover the target variable from any iteration on this path that updates
                if target_var is None:
                    for e in evs:
                        if e.kind == 'assign' and e.loops and e.loops[0] == sel.node.lineno and isinstance(e.data.get('value'), App) \
                                and (e.data['value'].fn == 'call:' + SCORE or e.data['value'] in score_vals) and e.data.get('name') in env:
                            target_var = e.data['name']
                if target_var is None:
                    # no iteration on this path updates: compare against every pre-loop candidate
                    cands = [n for n, v in env.items() if v in INF + NEG_INF or v == Sym('sys.maxsize') or v == neg(Sym('sys.maxsize'))]
                    target_var = cands[0] if cands else None
                if target_var is None or target_var not in env:
                    viol('R-GUARD', 'running-target-identified', "the selection loop has no recognisable running target variable", cx.where(fn, sel.line))
                    break
                T = env[target_var]
                if k == 0:
                    good_sent = T in (INF if minimise else NEG_INF)
                    if not good_sent:
                        viol('R-SENT', f"initial-target-is-{'plus' if minimise else 'minus'}-infinity",
                             f"when {case}, the running target starts at {T!r}; it must be {'+' if minimise else '-'}infinity (or the first "
                             f"score): a finite sentinel beats every score of larger magnitude, and then index stays -1 and the LAST "
                             f"combination is returned as best", cx.where(fn, sel.line), sentinel=repr(T))
                want = mk_cmp(score_k, '<' if minimise else '>', T)
                updated = bool(upd_target)
                exp = want if updated else f_not(want)
                cex = compare(F, exp, domain='real')
                if cex is not None:
                    viol('R-GUARD', f"strict-comparison-when-{case}",
                         f"when {case}, iteration {k + 1} {'updates' if updated else 'keeps'} the best under [{F!r}] but keeping the FIRST "
                         f"optimum requires [{exp!r}] (strict)", cx.where(fn, conds[0].line if conds else it_ev.line), found=repr(F),
                         expected=repr(exp), counterexample=cex, path=p.lines())
                    break
                if updated != bool(upd_index) or len(upd_target) > 1 or len(upd_index) > 1:
                    viol('R-PAIR', 'index-and-target-updated-together', f"when {case}: the best index and the running target are not "
                         f"updated together ({len(upd_index)} index / {len(upd_target)} target update(s))", cx.where(fn, it_ev.line), path=p.lines())
                    break
                if updated:
                    env[target_var] = score_k
                    env[upd_index[0].data['name']] = i_k
            else:
                # return value
                v = p.last.data.get('value')
                idx_vars = [n for n, t in env.items() if isinstance(v.items[0], Sub) and v.items[0].index == t and v.items[0].base == RES]
                # best remembered as an object: the remembered result, or the last entry when none was found
                best0 = strip_versions(v.items[0])
                last = Sub(strip_versions(RES), Num(Fraction(-1)))
                for nme, t in env.items():
                    if t == Const(None) and best0 == last:
                        idx_vars.append(nme)
                    elif isinstance(t, Sym) and (best0 == t or (isinstance(best0, IfT) and best0.a == t and strip_versions(best0.b) == last)):
                        idx_vars.append(nme)
                if not idx_vars:
                    viol('R-GUARD', 'returns-results-at-best-index', f"grid_search returns {v.items[0]!r} as best: not results[<best index>]",
                         cx.where(fn, p.last.line))
        if n_iter == 0:
            cx.inconclusive('R-GUARD', f"selection loop ({case})", 'no iteration of the selection loop could be examined', where=cx.where(fn), function=fn.qualname)
        elif not reported:
            cx.ok('R-GUARD', f"selection when {case}: strict comparison against the running target, index/target updated together, "
                  f"+/-infinity start", where=cx.where(fn), function=fn.qualname, iterations_examined=n_iter)


# ------------------------------------------------------------------------------------------------ arms
def _arms(cx: Cx):
    fn = cx.fn(GS)
    runf = cx.fn(RUN)
    params = Sym('parameters')
    paths = [p for p in cx.walker.paths(fn, WalkOptions(unroll=1, callee_raises=False, no_inline=NOINL)) if p.end == 'return']
    serial, pool = arms(cx, fn, paths)
    cx.floor('grid_search serial-arm paths', len(serial), 1)
    cx.floor('grid_search pool-arm paths', len(pool), 1)
    facts = {'serial': set(), 'pool': set()}
    reported = set()

    def viol(rule, missing, msg, where, **kw):
        if missing not in reported:
            reported.add(missing)
            cx.violation(rule, fn.qualname, missing, msg, where=where, **kw)
    from .common import _loop_stage_table
    table = _loop_stage_table(paths)
    for arm, plist in (('serial', serial), ('pool', pool)):
        for p in plist:
            RES = p.last.data['value'].items[1] if isinstance(p.last.data.get('value'), TupleT) and len(p.last.data['value'].items) == 2 else None
            if not isinstance(strip_versions(RES), Fresh):
                viol('R-FRESH', 'returns-best-and-all-results', f"grid_search returns {p.last.data.get('value')!r}, not (best, results)", cx.where(fn, p.last.line))
                continue
            r = result_pipeline(cx, fn, paths, p, RES, table)
            if isinstance(r, str):
                viol('R-SIB', f"{arm}-arm-appends-every-result-once", f"grid_search ({arm} arm): each combination's result must be kept "
                     f"exactly once, unconditionally, in order ({r})", cx.where(fn, p.last.line), path=p.lines())
                continue
            RM, W = r['F'], r['W']
            if r['keep'] != 'all':
                viol('R-SIB', f"{arm}-arm-appends-every-result-once", f"grid_search ({arm} arm): results are kept conditionally",
                     cx.where(fn, p.last.line), path=p.lines())
                continue
            if arm == 'pool' and r['via'] == 'serial':
                viol('R-SIB', 'pool-arm-maps-the-partial', f"grid_search (pool arm) does not map the partial through the pool", cx.where(fn, p.last.line))
                continue
            if r['via'] == '.imap_unordered':
                viol('R-SIB', 'pool-arm-is-an-ordered-map', "grid_search's pool arm uses imap_unordered: results (and therefore the "
                     "'first optimum' and the returned list) depend on worker scheduling; it must be an ordered map (imap / map)",
                     cx.where(fn, p.last.line))
                continue
            if not built_list_ok(W, params, p.cond):
                viol('R-GUARD', 'evaluates-the-built-product-list', f"grid_search ({arm} arm) consumes {W!r}, not the built product list",
                     cx.where(fn, p.last.line))
                continue
            facts[arm].add((repr(RM), repr(W)))
            pb = partial_binding(cx, fn, RM, Sym('<item>'))
            if pb is None or pb[0].qualname != runf.qualname:
                viol('R-FWD', 'partial-of-_run_model_for_search', f"the worker callable is {RM!r}", cx.where(fn))
            else:
                # the worker's parameters are identified by what the front-end binds to them, not by their names
                inv = {t: k for k, t in pb[1].items() if isinstance(t, Sym)}
                need = {'model_cls': Sym('model_cls'), 'score_func': Sym('score_func'), 'repetitions': Sym('repetitions'),
                        'parameters': Sym('<item>'), 'max_timesteps': Sym('max_timesteps')}
                missing = [r for r, t in need.items() if t not in inv]
                if missing or len({inv[t] for t in need.values()}) != 5:
                    viol('R-FWD', 'partial-binds-each-parameter', f"the search partial does not pass {missing or 'distinct parameters'} to the "
                         f"worker (binding: { {k: repr(v) for k, v in pb[1].items()} }); expected the caller's model_cls, score_func, "
                         f"repetitions, max_timesteps and the combination, each to its own parameter", cx.where(fn))
                else:
                    ROLES.update({r: inv[t] for r, t in need.items()})
    if not reported:
        if facts['serial'] and facts['serial'] == facts['pool']:
            cx.ok('R-SIB', 'serial and pool arms: same partial over the built product list, ordered, every result appended once',
                  where=cx.where(fn), function=fn.qualname)
        else:
            viol('R-SIB', 'arms-agree', f"serial and pool arms disagree: {facts}", cx.where(fn))


# ------------------------------------------------------------------------------------------------ worker
ROLES = {'model_cls': 'model_cls', 'score_func': 'score_func', 'repetitions': 'repetitions', 'parameters': 'parameters',
         'max_timesteps': 'max_timesteps'}


def _is_model_term(t, cls_s, kw_s) -> bool:
    t = strip_versions(t)
    return t in (App('call', (cls_s,), (('**', kw_s),)), App('new:' + CORE + 'Model', (), (('**', kw_s), ('<cls>', cls_s))))


def _one_scored_run(seg, result, cls_s, kw_s, score_s):
    """In the events of one repetition: exactly one model built as model_cls(**parameters), exactly one score_func(model)
    call on THAT model, and `result` is that call's value.  Returns an error string or None."""
    built = []
    for e in seg:
        if e.kind == 'call' and _is_model_term(e.data.get('result'), cls_s, kw_s) and strip_versions(e.data.get('result')) not in built:
            built.append(strip_versions(e.data.get('result')))
        if e.kind == 'assign' and _is_model_term(e.data.get('value'), cls_s, kw_s) and strip_versions(e.data.get('value')) not in built:
            built.append(strip_versions(e.data.get('value')))
    sc = [e for e in seg if e.kind == 'call' and e.data.get('target_kind') == 'unknown' and e.data.get('func_term') == score_s]
    if len(sc) != 1:
        return f"{len(sc)} score_func call(s) in one repetition"
    args = tuple(strip_versions(a) for a in sc[0].data.get('args', ()))
    if len(args) != 1 or sc[0].data.get('kw') or not _is_model_term(args[0], cls_s, kw_s):
        return f"score_func is called with {sc[0].data.get('args')!r}, not the model built from this combination in this repetition"
    if len(built) != 1 or args[0] != built[0]:
        return f"{len(built)} model(s) built in the repetition that calls score_func: every repetition needs its own fresh model"
    if strip_versions(result) != strip_versions(sc[0].data.get('result')):
        return f"the recorded value {result!r} is not score_func(model)"
    # the model is scored in the state its run left it in: between construction and scoring the worker only tests and steps it
    for e in seg[:seg.index(sc[0])]:
        if e.kind == 'call' and e.data.get('target_kind') == 'pkg' and strip_versions(e.data.get('recv')) == built[0]:
            nm = (e.data.get('callee_name') or '').rsplit('.', 1)[-1]
            if nm not in ('__init__', 'is_running', 'execute', '__bool__', '__getattr__', 'execute_systems'):
                return (f"the worker calls {nm}() on the model before scoring it: score_func no longer sees the model as its run left it "
                        f"(a run cut short by the step limit looks complete, ...)")
    return None


def _worker(cx: Cx):
    fn = cx.fn(RUN)
    check_driver_loop(cx, fn, [ROLES['model_cls'], ROLES['parameters']], limit=ROLES['max_timesteps'])
    reps = Sym(ROLES['repetitions'])
    par = Sym(ROLES['parameters'])
    cls_s, score_s = Sym(ROLES['model_cls']), Sym(ROLES['score_func'])
    okall = True
    n = 0
    from .common import list_facts, _loop_stage_table
    paths = [p for p in cx.walker.paths(fn, WalkOptions(unroll=2, callee_raises=False)) if p.end != 'raise']
    table = _loop_stage_table(paths)
    ranges = (App('range', (reps,)), App('range', (Num(Fraction(0)), reps)))
    where = cx.where(fn)
    for p in paths:
        n += 1
        evs = p.events
        stores = [e for e in evs if e.kind == 'store' and strip_versions(e.data.get('root')) == par]
        v = p.last.data.get('value') if p.end == 'return' else None
        if not (len(stores) == 1 and stores[0].data.get('store') == 'setitem' and stores[0].data.get('key') == Const('records') and v == par):
            cx.violation('R-GUARD', fn.qualname, 'adds-only-the-records-key',
                         f"_run_model_for_search must return the combination with only the key 'records' added (stores: "
                         f"{[(e.data.get('store'), repr(e.data.get('key'))) for e in stores]}, returns {v!r})", where=where, path=p.lines())
            okall = False
            break
        recs = strip_versions(stores[0].data.get('value'))
        lf = list_facts(paths, p, recs, lambda s: strip_versions(s) in ranges, table) if isinstance(recs, Fresh) else None
        if lf is None or not lf.ok or lf.key is not None:
            cx.violation('R-ITER', fn.qualname, 'one-run-per-repetition', f"_run_model_for_search must record one score per "
                         f"repetition of range(repetitions) ({lf.err if lf is not None else repr(recs)})", where=where)
            okall = False
            break
        if lf.base_src is None:
            # the repetition loop is not entered on this path: nothing recorded
            if any(e.kind == 'loop' and strip_versions(e.data.get('iter')) in ranges for e in evs):
                continue
            cx.violation('R-ITER', fn.qualname, 'one-run-per-repetition', "_run_model_for_search must loop range(repetitions)", where=where)
            okall = False
            break
        if lf.cond != FTrue or lf.stages != 1:
            cx.violation('R-ITER', fn.qualname, 'one-run-per-repetition', f"a repetition's score is recorded only under [{lf.cond!r}]",
                         where=where)
            okall = False
            break
        elem = lf.elem
        helper = cx.prog.functions.get(elem.fn[5:]) if isinstance(elem, App) and elem.fn.startswith('call:') else None
        err = None
        if helper is not None:
            # one repetition was factored out into a helper: its returning paths are the repetition
            b = _Ctx(cx.walker, fn, WalkOptions()).bind_args(helper, None, list(elem.args), dict(elem.kw), State(), False)
            inv = {}
            for k, t in (b or {}).items():
                if isinstance(t, Sym) and t.name in (ROLES['model_cls'], ROLES['parameters'], ROLES['score_func']):
                    inv[t.name] = Sym(k)
            if b is None or len(inv) != 3:
                err = f"the per-repetition helper {helper.name} does not receive model_cls, parameters and score_func unchanged"
            else:
                hps = [q for q in cx.walker.paths(helper, WalkOptions(unroll=2, callee_raises=False)) if q.end != 'raise']
                if not hps:
                    err = f"{helper.name} has no returning path"
                for q in hps:
                    rv = q.last.data.get('value') if q.end == 'return' else Const(None)
                    err = err or _one_scored_run(q.events, rv, inv[ROLES['model_cls']], inv[ROLES['parameters']], inv[ROLES['score_func']])
        else:
            # the repetition is the iteration of the filling loop / comprehension on this path
            lps = [e for e in evs if e.kind == 'loop' and strip_versions(e.data.get('iter')) in ranges]
            segs = []
            if len(lps) == 1:
                lp = lps[0]
                iters = [e for e in evs if e.kind == 'iter' and e.node is lp.node]
                ends = [e for e in evs if e.kind == 'endloop' and e.node is lp.node]
                bounds = [evs.index(e) for e in iters] + [evs.index(ends[-1]) if ends else len(evs)]
                for k in range(len(iters)):
                    seg = evs[bounds[k]:bounds[k + 1]]
                    apps = [e for e in seg if e.kind == 'store' and e.data.get('store') == 'append' and strip_versions(e.data.get('target')) == recs]
                    if len(apps) != 1:
                        err = err or f"{len(apps)} scores recorded in one repetition"
                    else:
                        err = err or _one_scored_run(seg, apps[0].data.get('args', (None,))[0], cls_s, par, score_s)
            elif isinstance(recs, Fresh) and recs.kind == 'listcomp':
                seg = [e for e in evs if e.loops and e.loops[-1] == recs.site or (e.loops and recs.site in e.loops)]
                err = _one_scored_run(seg, elem, cls_s, par, score_s)
            else:
                err = f"{len(lps)} loops over range(repetitions)"
        if err:
            cx.violation('R-GUARD', fn.qualname, 'one-score-of-own-model-per-repetition',
                         f"each repetition must build one model and record exactly one score_func(model) of THAT model ({err})",
                         where=where, path=p.lines())
            okall = False
            break
    cx.floor('_run_model_for_search paths', n, 1)
    if okall and n:
        cx.ok('R-GUARD', '_run_model_for_search: range(repetitions), fresh model and one score per repetition, only `records` added',
              where=cx.where(fn), function=fn.qualname)
