"""C18 - decoding follows the documented lifecycle and builds exactly what is listed."""
from __future__ import annotations

import ast

from fractions import Fraction

from sa.report import Cx
from sa.walker import WalkOptions
from sa.terms import (Sym, Attr, Sub, App, Num, Const, AIn, ATruthy, f_not, implies)
from .common import DEC, CORE, strip_versions

PID = 'C18'
EXPLANATION = (
    "Decoder.decode is one function; its CFG is the lifecycle. Events are classified by data flow, not by position: a call "
    "is hook:K when its callee value is getattr(sys.modules[..], D[K]['func'], ..) (through str_to_func) and its argument "
    "is D[K]['params']; create:model/system/agent are the .decode(X['params']) calls on the class obtained from X['name'] "
    "(through str_to_class); register:system / register:agent are the add_system / add_agent calls on the decoded model's "
    "scheduler / environment whose argument is the created object. R-ORDER on every CFG path (each loop taken 0..1 "
    "times): pre-model hook < create:model < systems loop {pre hook < create -> register < post hook} < agents loop "
    "{pre hook < range(0, number) loop {agent_index := i < create -> register} < post hook} < post-model hook < return of "
    "the created model; every optional hook is guarded by the membership test of its own key; for the six system/agent "
    "level roles a store ['params']['model'] = <created model> precedes the consuming call; agent_index is the loop "
    "variable of a range starting at 0 bounded by the group's `number`.")
EXPLANATION += (" Hook functions and classes are resolved in the module named by their own entry; the scheduler / environment a decoded object is registered with is read after the hooks that may replace it. Premises: C01 (declared scheduling), C04's Environment.add_agent rules.")
EXPLANATION += (" decode() stores only 'model' / 'agent_index' into a listed 'params' dictionary, and its only direct raise is the one for a description that could not be opened.")
EXPLANATION += (" get_module_name returns the entry's 'module' verbatim (the default only when the entry has none); no function of the decoder reads the process environment.")
EXPLANATION += (' The description file is opened as UTF-8 (no other explicit encoding).')
ASSUMPTIONS = ["what user decode() static methods and hooks do is outside the package", "sys.modules name resolution at run time"]

HOOKS = {'pre_model_decode': 'data', 'post_model_decode': 'data', 'pre_system_init': 'system', 'post_system_init': 'system',
         'pre_agent_init': 'agent', 'post_agent_init': 'agent'}


def _getattr_name(t):
    """For getattr(sys.modules[...], X, ...) return X."""
    if isinstance(t, App) and t.fn == 'getattr' and len(t.args) >= 2:
        return t.args[1]
    return None


def _resolved_elsewhere(t):
    """For getattr(<module object>, X, ...): a description of <module object> when it is not sys.modules[...] /
    importlib.import_module(...)."""
    if not (isinstance(t, App) and t.fn == 'getattr' and t.args):
        return None
    m = strip_versions(t.args[0])
    if isinstance(m, Sub) and strip_versions(m.base) in (Sym('sys.modules'), Attr(Sym('sys'), 'modules')):
        return None
    if isinstance(m, App) and ('import_module' in m.fn or any('import_module' in repr(a) for a in m.args[:1])):
        return None
    if isinstance(m, App) and ('__import__' in m.fn or any(repr(a).endswith('__import__') for a in m.args[:1])):
        return '__import__(...)'
    return None


def _module_entries(t):
    """For getattr(sys.modules[M], X, ...): the description entries E whose 'module' key M is read from."""
    if not (isinstance(t, App) and t.fn == 'getattr' and t.args):
        return None
    m = t.args[0]
    out = set()
    stack = [m]
    from sa.terms import IfT, Formula
    while stack:
        u = stack.pop()
        if isinstance(u, Sub):
            if u.index == Const('module'):
                out.add(strip_versions(u.base))
            stack += [u.base, u.index]
        elif isinstance(u, App):
            if u.fn == '.get' and len(u.args) >= 2 and u.args[1] == Const('module'):
                out.add(strip_versions(u.args[0]))
            stack += list(u.args)
        elif isinstance(u, IfT):
            stack += [u.a, u.b]
        elif isinstance(u, Attr):
            stack.append(u.base)
    return out


def run(cx: Cx):
    fn = cx.fn(DEC + 'Decoder.decode')
    paths = [p for p in cx.walker.paths(fn, WalkOptions(unroll=1, callee_raises=False, max_paths=60000,
                                                        inline_full=frozenset({'<private>'}))) if p.end == 'return']
    cx.floor('decode() returning paths', len(paths), 64)
    reported = set()

    def viol(rule, missing, msg, line=None, **kw):
        if missing not in reported:
            reported.add(missing)
            cx.violation(rule, fn.qualname, missing, msg, where=cx.where(fn, line), **kw)

    roles_seen = set()
    inj_seen = set()
    for p in paths:
        evs = p.events
        opens = [e for e in evs if e.kind == 'assign' and isinstance(e.data.get('value'), App) and e.data['value'].fn.endswith('open_file')]
        if not opens:
            viol('R-ORDER', 'description-from-open_file', "decode() does not read its description through open_file()")
            continue
        D = opens[0].data['value']
        roots = {'data': D}
        # loop variables
        sys_loop = [e for e in evs if e.kind == 'loop' and strip_versions(e.data.get('iter')) == Sub(D, Const('systems'))]
        ag_loop = [e for e in evs if e.kind == 'loop' and strip_versions(e.data.get('iter')) == Sub(D, Const('agents'))]
        if len(sys_loop) != 1 or len(ag_loop) != 1:
            viol('R-ORDER', 'loops-over-listed-systems-and-agent-groups', f"decode() must loop once over data['systems'] and once over "
                 f"data['agents'] (found {len(sys_loop)}/{len(ag_loop)})")
            continue
        for lp, nm in ((sys_loop[0], 'system'), (ag_loop[0], 'agent')):
            its = [e for e in evs if e.kind == 'iter' and e.node is lp.node]
            if its:
                roots[nm] = its[0].data['info'].get('var')
        # classify
        seq = []
        model = None
        created = {}
        for i, e in enumerate(evs):
            if e.kind != 'call':
                continue
            d = e.data
            if d.get('target_kind') == 'unknown' and d.get('func_term') is not None:
                x = _getattr_name(d['func_term'])
                if isinstance(x, Sub) and x.index == Const('func') and isinstance(x.base, Sub) and isinstance(x.base.index, Const):
                    K = x.base.index.value
                    R = x.base.base
                    arg = d.get('args', (None,))[0] if d.get('args') else None
                    if K in HOOKS:
                        bad_res = _resolved_elsewhere(d['func_term'])
                        if bad_res:
                            viol('R-FWD', 'names-resolved-in-sys-modules', f"the {K} hook is resolved through {bad_res}: for a dotted module "
                                 f"name that is the top-level package, not the module that defines the function", e.line)
                        if R != roots.get(HOOKS[K]):
                            viol('R-ORDER', f"hook-{K}-read-from-its-own-entry", f"the {K} hook is looked up in {R!r}", e.line)
                        me = _module_entries(d['func_term'])
                        if me and me != {Sub(R, Const(K))}:
                            viol('R-ORDER', f"hook-{K}-resolved-in-its-own-module", f"the {K} hook function is looked up in the module named by "
                                 f"{sorted(repr(x) for x in me)}, not by the hook's own entry {Sub(R, Const(K))!r}: with the hook in another "
                                 f"module than its system/agent class the wrong function (or None) is called", e.line)
                        if arg != Sub(Sub(R, Const(K)), Const('params')):
                            viol('R-FWD', f"hook-{K}-receives-its-own-params", f"the {K} hook is called with {arg!r}, not its own 'params'", e.line)
                        seq.append(('hook:' + K, i, e))
                        roles_seen.add('hook:' + K)
            if d.get('target_kind') == 'unknown' and d.get('callee_name') == '.decode':
                x = _getattr_name(d.get('recv'))
                arg = d.get('args', (None,))[0] if d.get('args') else None
                if isinstance(x, Sub) and x.index == Const('name'):
                    R = x.base
                    kind = 'model' if R == Sub(D, Const('model')) else ('system' if R == roots.get('system') else ('agent' if R == roots.get('agent') else None))
                    if kind is None:
                        continue
                    bad_res = _resolved_elsewhere(d.get('recv'))
                    if bad_res:
                        viol('R-FWD', 'names-resolved-in-sys-modules', f"the {kind} class is resolved through {bad_res}: for a dotted module "
                             f"name that is the top-level package, not the module that defines the class", e.line)
                    if kind == 'model':
                        # the lookup of the model class itself belongs to the model step: a hook that runs before the model may
                        # import or rebind what the name resolves to
                        look = [k for k, x in enumerate(evs[:i]) if x.kind == 'call' and x.data.get('callee_name') == 'builtins.getattr'
                                and x.data.get('args') and len(x.data['args']) >= 2 and strip_versions(x.data['args'][1]) == Sub(R, Const('name'))]
                        hooks_before = [k for r_, k, _ in seq if r_ == 'hook:pre_model_decode']
                        if look and hooks_before and look[0] < hooks_before[0]:
                            viol('R-ORDER', 'model-class-resolved-after-the-pre-model-hook', "the model class is looked up before the "
                                 "pre_model_decode hook runs: the hook can no longer provide (import, select) the class that is decoded", evs[look[0]].line)
                    me = _module_entries(d.get('recv'))
                    if me and me != {R}:
                        viol('R-ORDER', f"class-of-{kind}-resolved-in-its-own-module", f"the {kind} class is looked up in the module named by "
                             f"{sorted(repr(x) for x in me)}, not by its own entry {R!r}", e.line)
                    if arg != Sub(R, Const('params')):
                        viol('R-FWD', f"create-{kind}-from-its-own-params", f"the {kind} is decoded from {arg!r}, not its own 'params'", e.line)
                    seq.append(('create:' + kind, i, e))
                    roles_seen.add('create:' + kind)
                    created[i] = d.get('result')
                    if kind == 'model':
                        model = d.get('result')
            for t in d.get('targets', []):
                if t.qualname == CORE + 'SystemManager.add_system':
                    seq.append(('register:system', i, e))
                if t.name == 'add_agent' and t.cls is not None and t.cls.qualname == CORE + 'Environment':
                    seq.append(('register:agent', i, e))
        if model is None:
            viol('R-ORDER', 'model-created', "decode() does not create the model from data['model']")
            continue

        def pos(role):
            return [i for r, i, e in seq if r == role]

        def first(role):
            x = pos(role)
            return x[0] if x else None
        cm = first('create:model')
        # --- membership guards
        for K, where in HOOKS.items():
            R = roots.get(where)
            if R is None:
                continue
            present = bool(pos('hook:' + K))
            atom = AIn(Const(K), R)
            if present and implies(p.cond, atom) is not None:
                viol('R-GUARD', f"hook-{K}-guarded-by-its-own-key", f"the {K} hook runs on a path that did not test `'{K}' in <its entry>`")
            if not present and implies(p.cond, f_not(atom)) is not None:
                # not present although the key may be there (only meaningful when the enclosing iteration exists)
                viol('R-GUARD', f"hook-{K}-runs-when-present", f"a path skips the {K} hook without having established that its key is absent")
        # --- order
        i_sys, i_ag = evs.index(sys_loop[0]), evs.index(ag_loop[0])
        end_sys = max([evs.index(e) for e in evs if e.kind == 'endloop' and e.node is sys_loop[0].node])
        end_ag = max([evs.index(e) for e in evs if e.kind == 'endloop' and e.node is ag_loop[0].node])
        pm = first('hook:pre_model_decode')
        if pm is not None and pm > cm:
            viol('R-ORDER', 'pre-model-hook-before-the-model', "the pre_model_decode hook runs after the model was created", evs[pm].line)
        if not (cm < i_sys < end_sys < i_ag < end_ag):
            viol('R-ORDER', 'model-then-systems-then-agents', "decode() must create the model, then decode all systems, then all agent "
                 "groups", evs[i_sys].line)
            continue
        pmd = first('hook:post_model_decode')
        if pmd is not None and pmd < end_ag:
            viol('R-ORDER', 'post-model-hook-last', "the post_model_decode hook runs before all agents were decoded", evs[pmd].line)
        # systems iteration
        sys_it = [evs.index(e) for e in evs if e.kind == 'iter' and e.node is sys_loop[0].node]
        for s0 in sys_it:
            inside = lambda i: s0 < i < end_sys
            cs = [i for i in pos('create:system') if inside(i)]
            rs = [i for i in pos('register:system') if inside(i)]
            pre = [i for i in pos('hook:pre_system_init') if inside(i)]
            post = [i for i in pos('hook:post_system_init') if inside(i)]
            if len(cs) != 1 or len(rs) != 1:
                viol('R-ORDER', 'each-system-created-and-registered-once', f"a listed system is created {len(cs)} / registered {len(rs)} time(s)", evs[s0].line)
                continue
            reg = evs[rs[0]]
            if not (cs[0] < rs[0] and reg.data.get('args') == (created[cs[0]],) and reg.data.get('recv') == Attr(model, 'systems')):
                viol('R-FWD', 'created-system-is-registered-with-the-decoded-model', "the created system is not the object registered with "
                     "the decoded model's scheduler", reg.line)
            if pre and pre[0] > cs[0]:
                viol('R-ORDER', 'pre-system-hook-before-creation', "the pre_system_init hook runs after the system was created", evs[pre[0]].line)
            if post and post[0] < rs[0]:
                viol('R-ORDER', 'post-system-hook-after-registration', "the post_system_init hook runs before the system is registered", evs[post[0]].line)
            _inject(cx, viol, evs, s0, cs[0], Sub(roots['system'], Const('params')), model, 'create:system', inj_seen)
            for h, K in ((pre, 'pre_system_init'), (post, 'post_system_init')):
                if h:
                    _inject(cx, viol, evs, s0, h[0], Sub(Sub(roots['system'], Const(K)), Const('params')), model, 'hook:' + K, inj_seen)
        # agents iteration
        ag_it = [evs.index(e) for e in evs if e.kind == 'iter' and e.node is ag_loop[0].node]
        for a0 in ag_it:
            inside = lambda i: a0 < i < end_ag
            R = roots['agent']
            pre = [i for i in pos('hook:pre_agent_init') if inside(i)]
            post = [i for i in pos('hook:post_agent_init') if inside(i)]
            inner = [e for e in evs[a0:end_ag] if e.kind == 'loop' and len(e.loops) == 1]
            want_iter = [App('range', (Num(Fraction(0)), Sub(R, Const('number')))), App('range', (Sub(R, Const('number')),))]
            if len(inner) != 1 or inner[0].data.get('iter') not in want_iter:
                viol('R-ITER', 'agents-indexed-0-to-number-minus-1', f"the agents of a group must be created in a loop over "
                     f"range(0, group['number']) (found {[repr(e.data.get('iter')) for e in inner]}): indices must be 0..n-1", evs[a0].line)
                continue
            il = inner[0]
            i_il = evs.index(il)
            e_il = max([evs.index(e) for e in evs if e.kind == 'endloop' and e.node is il.node])
            if pre and pre[0] > i_il:
                viol('R-ORDER', 'pre-agent-hook-before-the-agents', "the pre_agent_init hook runs after agents of its group were created", evs[pre[0]].line)
            if post and post[0] < e_il:
                viol('R-ORDER', 'post-agent-hook-after-the-agents', "the post_agent_init hook runs before all agents of its group were added", evs[post[0]].line)
            for h, K in ((pre, 'pre_agent_init'), (post, 'post_agent_init')):
                if h:
                    _inject(cx, viol, evs, a0, h[0], Sub(Sub(R, Const(K)), Const('params')), model, 'hook:' + K, inj_seen)
            for it_ev in [e for e in evs if e.kind == 'iter' and e.node is il.node]:
                j0 = evs.index(it_ev)
                idx = it_ev.data['info'].get('index')
                ca = [i for i in pos('create:agent') if j0 < i < e_il]
                ra = [i for i in pos('register:agent') if j0 < i < e_il]
                if len(ca) != 1 or len(ra) != 1:
                    viol('R-ORDER', 'each-agent-created-and-added-once', f"an agent is created {len(ca)} / added {len(ra)} time(s) per index", it_ev.line)
                    continue
                reg = evs[ra[0]]
                if not (ca[0] < ra[0] and reg.data.get('args') == (created[ca[0]],) and reg.data.get('recv') == Attr(model, 'environment')):
                    viol('R-FWD', 'created-agent-is-added-to-the-decoded-models-environment', "the created agent is not the object added to the "
                         "decoded model's environment", reg.line)
                st = [evs.index(e) for e in evs[j0:ca[0]] if e.kind == 'store' and e.data.get('store') == 'setitem' and
                      e.data.get('key') == Const('agent_index') and strip_versions(e.data.get('target')) == Sub(R, Const('params'))]
                if not st or evs[st[-1]].data.get('value') != idx:
                    got = evs[st[-1]].data.get('value') if st else None
                    viol('R-ORDER', 'agent_index-set-to-the-loop-index-before-creation',
                         f"each agent must be created after params['agent_index'] was set to its index {idx!r} (found {got!r})", it_ev.line)
                _inject(cx, viol, evs, a0, ca[0], Sub(R, Const('params')), model, 'create:agent', inj_seen)
        # --- the scheduler / environment a registration goes to is the model's current one: a reference taken before a
        # hook ran is stale when the hook installs a new environment (hooks receive the model for exactly such set-up)
        for role, i, e in seq:
            if not role.startswith('register:'):
                continue
            j = _receiver_read_at(evs, i, e)
            if j is None:
                continue
            crossed = [r for r, k, _ in seq if j < k < i and r.startswith('hook:')]
            if crossed:
                viol('R-ORDER', f"{role.replace(':', '-')}-receiver-read-after-the-hooks",
                     f"{role}: the receiver of the registering call was read from the model at line {evs[j].line}, before the "
                     f"{crossed[0][5:]} hook ran; a hook that installs a new environment/scheduler leaves the remaining entries in the "
                     f"discarded one", e.line)
        # return
        if p.last.data.get('value') != model:
            viol('R-ORDER', 'returns-the-decoded-model', f"decode() returns {p.last.data.get('value')!r}, not the model it created", p.last.line)
    need = {'create:model', 'create:system', 'create:agent'} | {'hook:' + k for k in HOOKS}
    cx.floor('lifecycle roles found', len(roles_seen & need), 9)
    cx.floor('model injections verified', len(inj_seen), 6)
    if not reported:
        for r in sorted(roles_seen):
            cx.ok('R-ORDER', f"{r}: classified by data flow and correctly ordered on every path it occurs on", where=cx.where(fn), function=fn.qualname)
        for r in sorted(inj_seen):
            cx.ok('R-FWD', f"{r}: receives the decoded model through its params", where=cx.where(fn), function=fn.qualname)
        cx.ok('R-ORDER', 'decode(): documented lifecycle order on every CFG path, hooks guarded by their own keys, model injected into the '
              'six system/agent-level roles, agent_index = 0..n-1', where=cx.where(fn), function=fn.qualname, paths=len(paths),
              roles=sorted(roles_seen), injections=sorted(inj_seen))
    # the description a decode works on is its own: decode() writes into it (model, agent_index) and user decode() methods may
    # consume entries, so a description object that is kept and handed out again makes a second decode see the first one's edits
    import ast as _ast
    dec = cx.prog.cls(DEC + 'Decoder')
    # a decode keeps what it is building in locals: state parked on the decoder object (self.model = ...) is shared by every decode
    # that the same decoder runs meanwhile - a hook that loads a sub-model through it hands the rest of this decode the other model
    dec_classes = {c.qualname for c in [dec] + list(cx.prog.subclasses(dec, strict=True))}
    parked = [(w, ch) for w, ch in cx.effects.trans_writes(fn) if w.loc and w.loc[0] in dec_classes]
    if parked:
        w, ch = parked[0]
        cx.violation('R-SHARED', fn.qualname, 'decode-keeps-its-state-in-locals',
                     f"decode() stores to the decoder object ({w.describe()}): a decode started through the same decoder while this one is "
                     f"in progress (from a hook, or another thread) overwrites it, and the rest of this decode uses the other decode's value",
                     where=w.where)
    else:
        cx.ok('R-SHARED', 'decode() keeps no state on the decoder object', where=cx.where(fn), function=fn.qualname)
    for ci in [dec] + list(cx.prog.subclasses(dec, strict=True)):
        muts = [k for k, v in ci.class_assigns.items() if k != '__slots__' and isinstance(v, (_ast.List, _ast.Dict, _ast.Set, _ast.ListComp,
                                                                                            _ast.DictComp, _ast.Call))]
        if muts:
            cx.violation('R-SHARED', ci.qualname, 'no-class-level-decoder-state', f"{ci.qualname} keeps class-level mutable state {muts}: "
                         f"descriptions or results of one decode are visible to the next", where=ci.where)
        of = ci.methods.get('open_file')
        if of and ci is not dec:
            ofn = of[0]
            stale = None
            for p_ in cx.walker.paths(ofn, WalkOptions(unroll=1, callee_raises=False)):
                if p_.end != 'return':
                    continue
                v_ = strip_versions(p_.last.data.get('value'))
                root = v_
                while isinstance(root, (Attr, Sub)):
                    root = strip_versions(root.base)
                kept = [e for e in p_.events if e.kind == 'store' and e.data.get('shared') and strip_versions(e.data.get('value')) == v_]
                if isinstance(v_, (Attr, Sub)) and isinstance(root, Sym) or kept:
                    stale = (p_, v_)
            if stale is not None:
                cx.violation('R-FRESH', ofn.qualname, 'description-is-parsed-for-this-decode',
                             f"{ofn.qualname} returns {stale[1]!r}, an object that is kept between calls: the entries one decode writes or "
                             f"consumes (model, agent_index, whatever user decode() methods pop) are what the next decode of that file sees",
                             where=cx.where(ofn, stale[0].last.line))
            else:
                cx.ok('R-FRESH', f"{ci.name}.open_file hands out a description parsed in the call", where=cx.where(ofn), function=ofn.qualname)
    # what a class's decode() receives is the listed 'params' plus the decoded model (and the agent's index): a default written into
    # them ("priority may also be given at entry level") replaces the default of the system's own class - a collector listed without
    # a priority runs before the systems it observes
    dfn = cx.fn(DEC + 'Decoder.decode')
    n_ps = 0
    extra = None
    for p_ in cx.walker.paths(dfn, WalkOptions(unroll=1, callee_raises=False)):
        for e in p_.events:
            if e.kind != 'store':
                continue
            tg = strip_versions(e.data.get('target'))
            if not (isinstance(tg, Sub) and tg.index == Const('params')):
                continue
            n_ps += 1
            if e.data.get('store') == 'setitem' and e.data.get('key') in (Const('model'), Const('agent_index')):
                continue
            extra = extra or e
    if extra is not None:
        cx.violation('R-FWD', dfn.qualname, 'listed-params-passed-as-listed',
                     f"decode() performs {extra.data.get('store')} (key {extra.data.get('key')!r}) on {extra.data.get('target')!r}: the "
                     f"parameters a listed class is created from are those of the description, with only the decoded model (and the "
                     f"agent index) added - the declared scheduling, and the class's own defaults for what is not declared, are changed",
                     where=cx.where(dfn, extra.line))
    else:
        cx.ok('R-FWD', f"decode() adds only 'model' / 'agent_index' to the listed params ({n_ps} store(s) examined)", where=cx.where(dfn),
              function=dfn.qualname)
    # the description that is decoded is what the file says: nothing of the process environment is substituted into it
    # (expandvars over the text rewrites every id, prefix and hook parameter that contains a `$NAME`)
    import ast as _ast1
    n_env = 0
    env_hit = None
    for q_, f_ in sorted(cx.prog.functions.items()):
        if not q_.startswith(DEC) or '#' in q_:
            continue
        n_env += 1
        for n_ in _ast1.walk(f_.node):
            txt = None
            if isinstance(n_, _ast1.Attribute) and n_.attr in ('expandvars', 'environ', 'getenv', 'environb'):
                txt = _ast1.unparse(n_)
            elif isinstance(n_, _ast1.Name) and n_.id in ('expandvars', 'getenv', 'environ') and isinstance(n_.ctx, _ast1.Load):
                txt = n_.id
            if txt and env_hit is None:
                env_hit = (f_, n_, txt)
    enc_hit = None
    for q_, f_ in sorted(cx.prog.functions.items()):
        if not q_.startswith(DEC) or '#' in q_:
            continue
        for n_ in _ast1.walk(f_.node):
            if isinstance(n_, _ast1.Call) and isinstance(n_.func, _ast1.Name) and n_.func.id == 'open':
                for k_ in n_.keywords:
                    if k_.arg == 'encoding' and not (isinstance(k_.value, _ast1.Constant) and
                                                     str(k_.value.value).lower().replace('_', '-') in ('utf-8', 'utf8', 'utf-8-sig', 'none')) \
                            and not isinstance(k_.value, _ast1.Name):
                        enc_hit = enc_hit or (f_, n_, _ast1.unparse(k_.value))
    if enc_hit:
        f_, n_, txt = enc_hit
        cx.violation('R-FWD', f_.qualname, 'description-decoded-as-written',
                     f"{f_.qualname} opens the description with encoding={txt}: JSON text is UTF-8, and any id, prefix or parameter with "
                     f"a non-ASCII character is decoded into other characters - the model holds systems and agents under ids the file does "
                     f"not list", where=cx.where(f_, n_.lineno))
    if env_hit:
        f_, n_, txt = env_hit
        cx.violation('R-FWD', f_.qualname, 'description-decoded-as-written',
                     f"{f_.qualname} reads the process environment ({txt}): the model that is decoded no longer contains exactly the listed "
                     f"systems and agents - ids, prefixes and parameters containing `$NAME` depend on the environment variables of the "
                     f"process", where=cx.where(f_, n_.lineno))
    else:
        cx.ok('R-FWD', f"the decoder reads nothing of the process environment ({n_env} functions examined)", where=cx.where(dfn), function=dfn.qualname)
    # the module a name is resolved in is the one the entry names, verbatim (a "file name" convenience such as
    # .rstrip('.py') strips CHARACTERS: 'colony' becomes 'colon'), and '__main__' only when the entry names none
    gm = cx.prog.functions.get(DEC + 'Decoder.get_module_name')
    if gm is not None and len(gm.params) >= 1:
        dsym = Sym(gm.params[0])
        dflt = Sym(gm.params[1]) if len(gm.params) > 1 else None
        has = AIn(Const('module'), dsym)
        okm, nm = True, 0
        for p_ in cx.walker.paths(gm, WalkOptions(unroll=1, callee_raises=False)):
            if p_.end != 'return':
                continue
            nm += 1
            v_ = strip_versions(p_.last.data.get('value'))
            if implies(p_.cond, has) is None:
                good = v_ == Sub(dsym, Const('module'))
            elif implies(p_.cond, f_not(has)) is None:
                good = v_ == dflt
            else:
                from sa.terms import IfT as _IfT
                good = isinstance(v_, _IfT) and v_.cond == has and strip_versions(v_.a) == Sub(dsym, Const('module')) and v_.b == dflt
                good = good or (isinstance(v_, App) and v_.fn == '.get' and tuple(v_.args) == (dsym, Const('module'), dflt))
            if not good:
                okm = False
                cx.violation('R-FWD', gm.qualname, 'module-name-taken-verbatim',
                             f"get_module_name returns {v_!r} under [{p_.cond!r}]: the module of an entry is d['module'] as written (and the "
                             f"default only when the entry has none) - anything else resolves classes and hooks in another module",
                             where=cx.where(gm, p_.last.line))
                break
        if okm and nm:
            cx.ok('R-FWD', "get_module_name returns the entry's 'module' verbatim, the default otherwise", where=cx.where(gm), function=gm.qualname)
    # every description that could be opened is decoded: the only refusal decode() makes itself is "the file did not open" - a
    # validation of its own (duplicate ids, ...) refuses legal descriptions (two systems that leave `id` to their class defaults)
    n_rz = 0
    refused = None
    from sa.terms import AIs as _AIs
    for p_ in cx.walker.paths(dfn, WalkOptions(unroll=1, callee_raises=False)):
        if p_.end != 'raise' or not p_.last.data.get('direct'):
            continue
        n_rz += 1
        opened = [e for e in p_.events if e.kind == 'assign' and isinstance(e.data.get('value'), App) and
                  e.data['value'].fn.endswith('.open_file')]
        dterm = opened[0].data['value'] if opened else None
        nodata = dterm is not None and (implies(p_.cond, _AIs(dterm, Const(None))) is None or implies(p_.cond, f_not(ATruthy(dterm))) is None)
        if not nodata:
            refused = refused or p_
    if refused is not None:
        cx.violation('R-GUARD', dfn.qualname, 'every-opened-description-is-decoded',
                     f"decode() raises {refused.last.data.get('exc')} under [{refused.cond!r}], which is not \"the file could not be "
                     f"opened\": a description the documented lifecycle can process is refused", where=cx.where(dfn, refused.last.line),
                     path=refused.lines())
    else:
        cx.ok('R-GUARD', f"decode() refuses a description only when it could not be opened ({n_rz} raise path(s))", where=cx.where(dfn),
              function=dfn.qualname)
    from .common import check_no_stateful_memo
    check_no_stateful_memo(cx)
    # the lifecycle is verified on Decoder.decode: the bundled decoders specialise open_file only (an override of decode that changes
    # process-wide state around the call - the working directory, ... - leaves it changed when decoding fails)
    from .common import check_overrides_forward
    check_overrides_forward(cx, DEC + 'Decoder', ['decode'])
    from .common import include_premises
    include_premises(cx, ['C01'], 'listed systems are registered with their declared scheduling by add_system')
    include_premises(cx, ['C02'], 'the declared start / end / frequency are the window the scheduler uses')
    include_premises(cx, ['C04'], 'listed agents are added by Environment.add_agent under the identifier their decode() gave them',
                     only=lambda o: (o.function or '').endswith(('Environment.add_agent', 'Agent.__init__')))


def _receiver_read_at(evs, i, e):
    """Index of the assignment event at which the receiver of the call event evs[i] was read from the model, when the call
    goes through a local alias (`env = model.environment; ...; env.add_agent(x)`); None when it is read at the call."""
    f = getattr(e.node, 'func', None)
    recv = f.value if isinstance(f, ast.Attribute) else (f if isinstance(f, ast.Name) else None)
    hi = i
    found = None
    while isinstance(recv, ast.Name):
        asg = [k for k in range(hi) if evs[k].kind == 'assign' and evs[k].data.get('name') == recv.id]
        if not asg:
            break
        found = hi = asg[-1]
        recv = getattr(evs[hi].node, 'value', None)
        if not isinstance(evs[hi].node, ast.Assign) or len(evs[hi].node.targets) != 1:
            break
    return found


def _inject(cx, viol, evs, lo, hi, target, model, role, seen):
    st = [e for e in evs[lo:hi] if e.kind == 'store' and e.data.get('store') == 'setitem' and e.data.get('key') == Const('model')
          and strip_versions(e.data.get('target')) == target]
    if st and st[-1].data.get('value') == model:
        seen.add(role)
    else:
        viol('R-FWD', f"model-injected-into-{role.replace(':', '-')}", f"{role} does not receive the decoded model: no "
             f"`{target!r}['model'] = <decoded model>` precedes the call", evs[hi].line)
