"""C01 - systems run in descending priority, registration order among equals; rejected operations change nothing."""
from __future__ import annotations

import ast
from fractions import Fraction

from sa.report import Cx
from sa.walker import WalkOptions
from sa.terms import (Sym, Attr, Sub, App, Num, Fresh, ACmp, AIn, FNot, f_and, f_not, compare, mk_cmp, FTrue, neg, implies)
from .common import (CORE, COLL, check_atomic, check_forwarding_chain, const_default, strip_versions,
                     scheduler_paths, exec_sites, classify_iterable, queue_term, check_keyed_insert, check_presence_not_truthiness)

PID = 'C01'
EXPLANATION = (
    "Induction over registration histories, decided on the CFG of the scheduler: (1) R-DISC - every package write "
    "site of SystemManager.execution_queue is the empty initialiser, an element removal, or an insertion verified by "
    "(2); (2) first-strictly-lower insertion in add_system: ascending scan from index 0, match test equivalent to "
    "new.priority > queue[i].priority (strict; compared as normalised predicates over order regions), insert at "
    "exactly the scan index and leave the scan, append iff nothing was inserted, exactly one insertion on every "
    "non-raising CFG path (loops unrolled 0..2); (3) R-ITER - the loop that calls System.execute walks the queue (or "
    "a same-order copy) front to back; (4) R-ATOMIC - duplicate add / unknown remove raise before any write; "
    "(5) R-PAIR - registry store/delete paired with exactly one queue insertion/removal; (6) R-FWD - collector "
    "constructors forward priority/frequency/start/end and default to a priority below System's. Decides the queue "
    "discipline for all histories; does not decide what user code does to fields directly.")
EXPLANATION += (' Registry guard: the store systems[s.id] = s is dominated by `s.id not in systems`; presence of a system is never decided by the truth value of the system object (R-NONE); iterating the registry instead of the queue is a violation; a search helper that returns the first hit followed by insert at that index is the scan idiom.')
EXPLANATION += (' System.__init__ stores `id` verbatim and reaches no write of the registry or queue; addSystem / removeSystem forward every argument to one method of the receiver.')
EXPLANATION += (' add_system / remove_system raise their documented error only on a path that established `id in systems` / `id not in systems`.')
ASSUMPTIONS = [
    "G6: user code reaches framework state only through public methods; priorities are not changed after registration",
    "list.insert/append/remove semantics and list iteration order (language facts)",
    "invariant used for path feasibility: a system is in the queue iff its id is in the registry (re-established by "
    "clause 5 on every writer)",
]

QLOC = (CORE + 'SystemManager', 'execution_queue')
RLOC = (CORE + 'SystemManager', 'systems')
REMOVALS = {'remove', 'pop', 'delitem'}
BAD = {'reverse', 'setitem', 'setslice', 'extend', 'augitem', 'aug', 'shuffle'}


def _sort_key_ok(ev) -> bool:
    """q.sort(key=lambda x: -x.priority) or q.sort(key=lambda x: x.priority, reverse=True) - list.sort is stable."""
    call = ev.data.get('target_expr')
    node = ev.node
    if not isinstance(node, ast.Call):
        return False
    key = rev = None
    for k in node.keywords:
        if k.arg == 'key':
            key = k.value
        if k.arg == 'reverse':
            rev = k.value
    if not isinstance(key, ast.Lambda) or len(key.args.args) != 1:
        return False
    v = key.args.args[0].arg
    body = key.body
    negated = False
    if isinstance(body, ast.UnaryOp) and isinstance(body.op, ast.USub):
        negated = True
        body = body.operand
    if not (isinstance(body, ast.Attribute) and body.attr == 'priority' and isinstance(body.value, ast.Name)
            and body.value.id == v):
        return False
    reverse = isinstance(rev, ast.Constant) and rev.value is True
    return negated != reverse


def _axioms(self_name, s_name):
    q = queue_term(self_name)
    reg = Attr(Sym(self_name), 'systems')

    def ax(known, atom):
        # pairing invariant at entry (container versions 0): id not registered => system not queued
        if isinstance(atom, AIn) and atom.container == q and atom.x == Sym(s_name):
            k = AIn(Attr(Sym(s_name), 'id'), reg)
            if known.get(k) is False:
                return False
        return None
    return ax


def run(cx: Cx):
    prog = cx.prog
    sm = prog.cls(CORE + 'SystemManager')
    add = cx.fn(CORE + 'SystemManager.add_system')
    rem = cx.fn(CORE + 'SystemManager.remove_system')

    # ------------------------------------------------------------ clause 1: R-DISC on the queue
    sites = cx.effects.sites_of(QLOC)
    n_ok = 0
    for s in sites:
        k = s.kind
        desc = s.describe()
        if k == 'rebind':
            v = s.ev.data.get('value')
            if s.owner_q == sm.qualname + '.__init__' and isinstance(v, Fresh) and v.kind == 'list' and not v.items:
                cx.ok('R-DISC', 'queue initialised empty', where=s.where, function=s.fn.qualname)
                n_ok += 1
            else:
                cx.violation('R-DISC', s.fn.qualname, 'execution_queue-rebound',
                             f"{desc}: the execution queue is replaced outside the empty initialiser; order and "
                             f"pairing with the registry are no longer established by add_system", where=s.where)
        elif k in REMOVALS:
            cx.ok('R-DISC', f"queue element removal ({k}) preserves order", where=s.where, function=s.fn.qualname)
            n_ok += 1
        elif k in ('insert', 'append'):
            if s.owner_q == add.qualname:
                n_ok += 1      # verified by clause 2
            else:
                cx.violation('R-DISC', s.fn.qualname, f"execution_queue-{k}-outside-add_system",
                             f"{desc}: a queue insertion outside the verified insertion of add_system",
                             where=s.where)
        elif k == 'sort':
            if s.owner_q == add.qualname and _sort_key_ok(s.ev):
                cx.ok('R-DISC', 'stable sort by descending priority', where=s.where, function=s.fn.qualname)
                n_ok += 1
            else:
                cx.violation('R-DISC', s.fn.qualname, 'execution_queue-sort',
                             f"{desc}: sorting the queue with a key other than descending priority (or outside "
                             f"add_system) breaks priority order / registration order among equals", where=s.where)
        elif k in BAD:
            cx.violation('R-DISC', s.fn.qualname, f"execution_queue-{k}",
                         f"{desc}: '{k}' on the execution queue does not preserve descending priority with FIFO ties",
                         where=s.where)
        else:
            cx.inconclusive('R-DISC', f"queue write kind {k}", f"{desc}: write kind not covered by the discipline table",
                            where=s.where, function=s.fn.qualname)
    cx.floor('execution_queue write sites', len(sites), 3)

    # no package code rewrites a priority after construction
    for s in cx.effects.sites_of((CORE + 'System', 'priority')):
        if s.owner_name != '__init__':
            cx.violation('R-DISC', s.fn.qualname, 'priority-rewritten',
                         f"{s.describe()}: System.priority is written outside a constructor", where=s.where)
        else:
            cx.ok('R-DISC', 'priority written only at construction', where=s.where, function=s.fn.qualname)

    # queue operations (remove / in / index) compare with ==: the scheduler's objects must keep identity equality
    sysc = prog.cls(CORE + 'System')
    for ci in prog.subclasses(sysc):
        bad = [m for m in ('__eq__', '__hash__', '__ne__') if m in ci.methods]
        if bad:
            cx.violation('R-DISC', ci.qualname, 'systems-compare-by-identity',
                         f"{ci.qualname} defines {bad}: execution_queue.remove(<system>) / `<system> in execution_queue` then act on the "
                         f"first EQUAL system instead of the requested object - removing one of several equal-priority systems removes "
                         f"the wrong one and the queue and the registry diverge", where=ci.where)
    cx.ok('R-DISC', 'System and its package subclasses keep identity equality', where=sysc.where, function=sysc.qualname)

    # ------------------------------------------------------------ clause 2 + 5a: add_system
    self_n, s_n = add.params[0], add.params[1]
    Q = queue_term(self_n)
    REG = Attr(Sym(self_n), 'systems')
    s_sym = Sym(s_n)
    ps = cx.walker.paths(add, WalkOptions(unroll=2, axioms=_axioms(self_n, s_n)))
    shape, why = _insertion_shape(cx, add, ps)
    if shape == 'unknown':
        cx.inconclusive('R-GUARD', 'add_system insertion algorithm',
                        f"add_system places the new system with an algorithm outside the verified idioms (ascending scan with insert at "
                        f"the first strictly lower entry / append + stable descending sort / bisect.insort_right with key=-priority): "
                        f"{why}; first-strictly-lower placement can neither be proved nor refuted by the path rules", where=cx.where(add),
                        function=add.qualname)
    elif shape == 'other-attribute':
        cx.violation('R-GUARD', add.qualname, 'placement-reads-the-priority-attribute',
                     f"add_system places the new system with {why}, not by its `priority` as it is when the system is registered: a copy "
                     f"of the priority kept elsewhere is stale for a system whose priority was assigned after construction, which is then "
                     f"queued out of priority order", where=cx.where(add))
    elif shape == 'bisect-left':
        cx.violation('R-GUARD', add.qualname, 'equal-priorities-keep-registration-order',
                     f"add_system uses {why}: a new system is placed BEFORE the systems of equal priority registered earlier (ties become "
                     f"last-in-first-out)", where=cx.where(add))
    elif shape == 'bisect':
        cx.ok('R-GUARD', 'bisect.insort_right keyed by descending priority', where=cx.where(add), function=add.qualname)
    elif shape == 'next':
        _check_next_idiom(cx, add, ps, Q, s_sym)
    n_success = 0
    for p in ps:
        if p.end == 'raise':
            continue
        n_success += 1
        ins = [e for e in p.events if e.kind == 'store' and e.data.get('loc') == QLOC
               and e.data.get('store') in ('insert', 'append', 'insort', 'insort_right', 'insort_left')]
        sorts = [e for e in p.events if e.kind == 'store' and e.data.get('loc') == QLOC and e.data.get('store') == 'sort']
        regs = [e for e in p.events if e.kind == 'store' and e.data.get('loc') == RLOC]
        pl = p.lines()
        # V5 exactly one insertion
        if len(ins) != 1:
            cx.violation('R-PAIR', add.qualname, 'exactly-one-queue-insertion',
                         f"add_system: a non-raising CFG path performs {len(ins)} queue insertions (expected exactly "
                         f"one); path condition: {p.cond!r}", where=cx.where(add, pl[-1] if pl else None), path=pl,
                         insertions=len(ins))
            continue
        # 5a registry store paired
        good_reg = [e for e in regs if e.data.get('store') == 'setitem' and e.data.get('key') == Attr(s_sym, 'id')
                    and e.data.get('value') == s_sym]
        if len(regs) != 1 or len(good_reg) != 1:
            cx.violation('R-PAIR', add.qualname, 'registry-store-paired',
                         f"add_system: on a success path the registry must be written exactly once as "
                         f"systems[{s_n}.id] = {s_n}; found {[(e.data.get('store'), repr(e.data.get('key'))) for e in regs]}",
                         where=cx.where(add, pl[-1] if pl else None), path=pl)
            continue
        e = ins[0]
        if shape != 'scan':
            continue        # placement decided (or declared undecidable) above; pairing and atomicity still apply
        iters = [x for x in p.events if x.kind == 'iter']
        if e.data.get('value') != s_sym and e.data.get('store') == 'insert' or \
                (e.data.get('store') == 'append' and e.data.get('key') != s_sym):
            cx.violation('R-GUARD', add.qualname, 'inserted-object-is-the-new-system',
                         f"add_system inserts {e.data.get('value')!r}, not its argument", where=cx.where(add, e.line), path=pl)
            continue
        if sorts:
            # append + stable sort idiom
            if e.data.get('store') == 'append' and all(_sort_key_ok(x) for x in sorts) and \
                    p.events.index(sorts[0]) > p.events.index(e):
                cx.ok('R-GUARD', 'append + stable descending sort', where=cx.where(add, e.line), function=add.qualname)
            else:
                cx.violation('R-GUARD', add.qualname, 'sort-idiom',
                             "add_system sorts the queue but not as append-then-stable-descending-sort",
                             where=cx.where(add, e.line), path=pl)
            continue
        # the scan loop: iterations on this path, each with its own conditions
        scan = _scan_iterations(p)
        bad = False
        for k, (it_ev, conds, idx_events) in enumerate(scan):
            info = it_ev.data['info']
            v1 = _scan_shape_ok(info, Q)
            if v1 is not True:
                cx.violation('R-ITER', add.qualname, 'scan-from-head-ascending',
                             f"add_system: the insertion scan is not an ascending scan of the whole queue from index 0 "
                             f"({v1})", where=cx.where(add, it_ev.line), path=pl, loop=repr(info.get('iter')))
                bad = True
                break
            idx = info['index']
            M = mk_cmp(Attr(s_sym, 'priority'), '>', Attr(Sub(Q, idx), 'priority'))
            F = f_and(*[c.data['formula'] for c in conds])
            inserted_here = e in idx_events or (k == len(scan) - 1 and not e.loops and e.data.get('store') == 'insert' and _after_scan_hit(p, e))
            want = M if inserted_here else f_not(M)
            F0 = _strip(F)
            cex = compare(F0, want, domain='int')
            if cex is not None:
                what = 'match-test-strictly-greater-priority'
                cx.violation('R-GUARD', add.qualname, what,
                             f"add_system: in scan iteration {k + 1} the code {'inserts' if inserted_here else 'moves on'} "
                             f"under [{F0!r}] but first-strictly-lower insertion requires [{want!r}]; they differ when "
                             f"{ {a: b for a, b in cex.items() if not a.startswith('_')} } (ties must stay first-come "
                             f"first-served)", where=cx.where(add, conds[0].line if conds else it_ev.line), path=pl,
                             found=repr(F0), expected=repr(want), counterexample=cex)
                bad = True
                break
            if inserted_here:
                if e.data.get('store') != 'insert' or e.data.get('key') != idx:
                    cx.violation('R-GUARD', add.qualname, 'insert-at-scan-index',
                                 f"add_system: on a match the new system must be inserted at the scan index {idx!r}; "
                                 f"found {e.data.get('store')}({e.data.get('key')!r}, ...)", where=cx.where(add, e.line),
                                 path=pl)
                    bad = True
                    break
                if k != len(scan) - 1:
                    cx.violation('R-GUARD', add.qualname, 'scan-left-after-insert',
                                 "add_system: the scan continues after the insertion", where=cx.where(add, e.line), path=pl)
                    bad = True
                    break
        if bad:
            continue
        if not any(e in idx_events for _, _, idx_events in scan) and not (e.data.get('store') == 'insert' and _after_scan_hit(p, e)):
            # insertion outside the scan: must be a tail append after an exhausted scan
            if e.data.get('store') != 'append':
                cx.violation('R-GUARD', add.qualname, 'tail-append-when-no-match',
                             f"add_system: with no lower-priority entry the system must be appended at the tail; found "
                             f"{e.data.get('store')}({e.data.get('key')!r})", where=cx.where(add, e.line), path=pl)
                continue
            ends = [x for x in p.events if x.kind == 'endloop']
            if any(x.data.get('how') == 'break' for x in ends):
                cx.violation('R-GUARD', add.qualname, 'scan-exhausted-before-append',
                             "add_system: the scan is left early without inserting and the system is appended",
                             where=cx.where(add, e.line), path=pl)
                continue
            # the tail append is the answer of a scan that found nothing: the scan loop itself must lie on the path
            # (a scan that is skipped for some priorities - `if s.priority > 0:` - appends without having looked)
            scans = [x for x in p.events[:p.events.index(e)] if x.kind == 'loop' and
                     (_loop_scans_queue(x, Q))]
            from .common import known_empty_on
            if not scans and known_empty_on(p.cond, Q):
                scans = [None]      # an empty queue has no entry to outrank: the first system is simply appended
            if not scans:
                cx.violation('R-GUARD', add.qualname, 'scan-runs-before-tail-append',
                             f"add_system appends at the tail on a path [{p.cond!r}] that never scanned the queue for a strictly lower "
                             f"priority: a system that outranks queued systems is placed behind them", where=cx.where(add, e.line), path=pl)
                continue
        cx.ok('R-GUARD', f"first-strictly-lower insertion on path with {len(scan)} scan iteration(s)",
              where=cx.where(add, e.line), function=add.qualname, path=pl, kind=e.data.get('store'))
    cx.floor('add_system success paths', n_success, 1)
    # a registration is accepted only for a free id: the registry store is dominated by `s.id not in systems` (a guard on the
    # object or on the queue lets a second system take over a registered id)
    check_keyed_insert(cx, add.qualname, RLOC, REG, Attr(s_sym, 'id'), s_sym, unroll=2)

    check_remove_pairing(cx)
    # bookkeeping kept next to the queue (a parallel list of priorities, an index, ...) must follow removals as well as
    # registrations, otherwise it is out of step with the queue after the first removal
    core_fields = {'systems', 'execution_queue', 'component_pools', 'timestep', 'model'}
    def _written(fn_):
        out = set()
        for w, ch in cx.effects.trans_writes(fn_):
            if w.loc and w.loc[0] == sm.qualname and w.loc[1] not in core_fields:
                out.add(w.loc[1])
        return out
    aux_add, aux_rem = _written(add), _written(rem)
    if aux_add - aux_rem:
        cx.violation('R-PAIR', add.qualname, 'auxiliary-scheduler-state-follows-removals',
                     f"add_system maintains {sorted(aux_add - aux_rem)} next to the queue but remove_system never updates it: after a "
                     f"removal the two are out of step and later registrations are placed by stale data", where=cx.where(add))
    else:
        cx.ok('R-PAIR', 'no auxiliary scheduler state is kept by add_system alone', where=cx.where(add), function=add.qualname,
              auxiliary=sorted(aux_add))
    # presence of a system is decided by its id, never by the truth value of the system object
    check_presence_not_truthiness(cx, [add.qualname, rem.qualname, CORE + 'SystemManager.execute_systems'])

    # registry discipline package-wide
    rsites = cx.effects.sites_of(RLOC)
    for s in rsites:
        if s.owned_within((add.qualname, rem.qualname)):
            continue
        v = s.ev.data.get('value')
        if s.kind == 'rebind' and s.owner_q == sm.qualname + '.__init__' and isinstance(v, Fresh) and v.kind == 'dict' \
                and not v.items:
            cx.ok('R-DISC', 'registry initialised empty', where=s.where, function=s.fn.qualname)
        else:
            cx.violation('R-DISC', s.fn.qualname, f"systems-registry-{s.kind}",
                         f"{s.describe()}: the registry is written outside add_system/remove_system, so it can disagree "
                         f"with the queue", where=s.where)
    cx.floor('registry write sites', len(rsites), 3)

    # ------------------------------------------------------------ clause 3: scheduler walks the queue front to back
    fn, sps = scheduler_paths(cx, unroll=1)
    SQ = queue_term(fn.params[0])
    seen_loops = {}
    for p in sps:
        for site in exec_sites(cx, p):
            if site.loop_ev is None:
                cx.violation('R-ITER', fn.qualname, 'execute-inside-queue-loop',
                             "execute_systems calls System.execute outside a loop over the queue", where=cx.where(fn, site.ev.line))
                continue
            it = site.loop_ev.data.get('iter')
            sig = (site.loop_id, repr(strip_versions(it)))
            if sig in seen_loops:
                continue
            info = site.iter_ev.data['info']
            kind = classify_iterable(it, SQ) if info.get('kind') == 'iter' else None
            recv_ok = info.get('kind') == 'iter' and site.recv == info.get('var')
            if info.get('kind') in ('range', 'enumerate'):
                shp = _scan_shape_ok(info, SQ)
                recv_ok = shp is True and strip_versions(site.recv) == Sub(SQ, info['index'])
                kind = 'live' if recv_ok else 'other'
            seen_loops[sig] = kind
            if kind in ('live', 'copy') and recv_ok:
                cx.ok('R-ITER', f"scheduler walks the queue front to back ({kind})", where=cx.where(fn, site.loop_ev.line),
                      function=fn.qualname, iterable=repr(it))
            elif kind == 'stored':
                cx.violation('R-ITER', fn.qualname, 'scheduler-iterates-a-stored-snapshot',
                             f"execute_systems iterates {it!r}, a snapshot kept in a field across calls, on a path that does not "
                             f"rebuild it from the queue: registrations and removals made since it was taken are not honoured (a "
                             f"re-registered system keeps its old place, a replacement never runs)", where=cx.where(fn, site.loop_ev.line))
            elif kind == 'registry':
                cx.violation('R-ITER', fn.qualname, 'scheduler-iterates-the-registry',
                             f"execute_systems iterates {it!r}: the registry is in registration order, not in priority order",
                             where=cx.where(fn, site.loop_ev.line))
            elif kind in ('reversed', 'sorted', 'set'):
                cx.violation('R-ITER', fn.qualname, f"scheduler-iterates-{kind}",
                             f"execute_systems iterates {it!r}: systems no longer run in queue order", where=cx.where(fn, site.loop_ev.line))
            else:
                cx.inconclusive('R-ITER', 'scheduler loop iterable', f"execute_systems iterates {it!r}, which is not "
                                f"recognisably the queue or a same-order copy of it", where=cx.where(fn, site.loop_ev.line),
                                function=fn.qualname)
    cx.floor('scheduler loops calling System.execute', len(seen_loops), 1)
    check_scheduler_keeps_system_set(cx)

    # ------------------------------------------------------------ clause 4: R-ATOMIC
    check_atomic(cx, add.qualname, ['KeyError'])
    check_atomic(cx, rem.qualname, ['SystemNotFoundError'])
    # the documented refusals are refusals of THAT case only: "not registered" is `s_id not in systems`, not a falsy id (a system
    # numbered 0 is registered like any other), and "already registered" is `s.id in systems`
    from .common import _rejects_only
    from sa.terms import AIn as _AIn0
    r_self, r_id = Sym(rem.params[0]), Sym(rem.params[1])
    a_self, a_s = Sym(add.params[0]), Sym(add.params[1])
    for p_ in cx.walker.paths(rem, WalkOptions(unroll=1)):
        if p_.end == 'raise':
            _rejects_only(cx, rem, p_, 'SystemNotFoundError', f_not(_AIn0(r_id, Attr(r_self, 'systems'))), 'the id is not registered', 'R-DISC')
    for p_ in cx.walker.paths(add, WalkOptions(unroll=1)):
        if p_.end == 'raise':
            _rejects_only(cx, add, p_, 'KeyError', _AIn0(Attr(a_s, 'id'), Attr(a_self, 'systems')), 'the id is taken', 'R-DISC')

    # ------------------------------------------------------------ clause 6: collectors forward their schedule
    sysinit = CORE + 'System.__init__'
    # the priority a system is registered with is the value it was declared with (not truncated, clamped or converted: 1.5 lies
    # strictly between 1 and 2)
    si = cx.fn(sysinit)
    for p in cx.walker.paths(si, WalkOptions(unroll=1)):
        st_ = [e for e in p.events if e.kind == 'store' and e.data.get('attr') == 'priority']
        if len(st_) == 1 and st_[0].data.get('value') == Sym('priority'):
            cx.ok('R-FWD', 'System.priority := parameter priority', where=cx.where(si, st_[0].line), function=si.qualname)
        else:
            cx.violation('R-FWD', si.qualname, 'priority-field-from-parameter',
                         f"System.__init__ does not store its 'priority' parameter unchanged in the field 'priority' (found "
                         f"{[repr(e.data.get('value')) for e in st_]}): systems declared with distinct priorities can end up level, and "
                         f"equal-priority systems run in registration order instead", where=cx.where(si))
    # ... under the identifier it was given, as given: the registry is keyed by `s.id` and remove_system by the caller's key - an id
    # normalised on the way in (str(id)) is registered under a key the caller does not hold (a `(str, Enum)` member)
    for p in cx.walker.paths(si, WalkOptions(unroll=1)):
        st_ = [e for e in p.events if e.kind == 'store' and e.data.get('attr') == 'id']
        if len(st_) == 1 and st_[0].data.get('value') == Sym('id'):
            cx.ok('R-FWD', 'System.id := parameter id', where=cx.where(si, st_[0].line), function=si.qualname)
        else:
            cx.violation('R-FWD', si.qualname, 'id-field-from-parameter',
                         f"System.__init__ does not store its 'id' parameter unchanged in the field 'id' (found "
                         f"{[repr(e.data.get('value')) for e in st_]}): the system is registered under another key than the one its "
                         f"owner uses to remove it", where=cx.where(si))
    # ... and building a system object registers and removes nothing: the constructor (and the property setters it goes through)
    # writes the new object only - a registered system with the same id is not evicted by an object that was merely constructed
    regw = [(w, ch) for w, ch in cx.effects.trans_writes(si) if w.loc in ((sm.qualname, 'systems'), (sm.qualname, 'execution_queue'))]
    if regw:
        w, ch = regw[0]
        cx.violation('R-DISC', si.qualname, 'constructing-a-system-registers-nothing',
                     f"System.__init__ reaches a write of {w.loc[1]} ({w.describe()} via {' -> '.join(ch)}): constructing a second object "
                     f"with a registered id changes the registry and the queue although the registration that follows is rejected",
                     where=w.where)
    else:
        cx.ok('R-DISC', 'System.__init__ writes neither the registry nor the queue', where=cx.where(si), function=si.qualname)
    # the deprecated spellings are the documented operations (addSystem must reject what add_system rejects)
    from .common import check_deprecated_aliases_forward
    check_deprecated_aliases_forward(cx, sm.qualname, only=('addSystem', 'removeSystem'))
    sys_default = const_default(cx, cx.fn(sysinit), 'priority')
    for c in ('Collector', 'AgentCollector', 'FileCollector'):
        check_forwarding_chain(cx, COLL + c, ['priority', 'frequency', 'start', 'end'], sysinit)
        ctor = cx.prog.lookup_method(cx.prog.cls(COLL + c), '__init__')[0]
        d = const_default(cx, ctor, 'priority')
        if isinstance(d, Num) and isinstance(sys_default, Num):
            if d.value < sys_default.value:
                cx.ok('R-FWD', f"{c} default priority {d!r} < System default {sys_default!r}", where=cx.where(ctor),
                      function=ctor.qualname)
            else:
                cx.violation('R-FWD', ctor.qualname, 'collector-default-priority-below-system-default',
                             f"{ctor.qualname}: default priority {d!r} is not below System's default {sys_default!r}, so a "
                             f"default collector no longer runs after default systems", where=cx.where(ctor))
        else:
            cx.inconclusive('R-FWD', f"{c} default priority", "default priority is not a constant", where=cx.where(ctor))
    from .common import include_premises
    include_premises(cx, ['C05'], 'the systems that run are the registered ones, in queue order, only if the scheduler walks an unmodified '
                     'same-order snapshot of the queue and skips entries that are no longer the registered object',
                     only=lambda o: (o.rule == 'R-ITER' and 'snapshot' in o.key) or 'still-registered-test' in o.key or 'clean_up' in o.key)


def check_scheduler_keeps_system_set(cx: Cx):
    """The system set changes only through registrations and removals somebody asked for: the scheduler itself (execute_systems
    and the helpers it is split into) never registers, removes or retires a system - only the systems it runs may do that, from
    inside the open-world hook System.execute."""
    from .common import is_system_execute_call
    fn, sps = scheduler_paths(cx, unroll=1)
    bad = {}
    n = 0
    for p in sps:
        for e in p.events:
            if e.kind != 'call' or is_system_execute_call(cx, e) or e.data.get('full_inline'):
                continue
            for t in e.data.get('targets', []) or []:
                n += 1
                for w, chain in cx.effects.trans_writes(t):
                    if w.loc in (RLOC, QLOC):
                        bad.setdefault((e.line, t.qualname), (w, chain))
        for e in p.events:
            if e.kind == 'store' and e.data.get('loc') in (RLOC, QLOC) and e.data.get('shared'):
                bad.setdefault((e.line, fn.qualname), (None, ()))
    if bad:
        (line, q), (w, chain) = sorted(bad.items())[0]
        cx.violation('R-DISC', fn.qualname, 'scheduler-never-changes-the-system-set',
                     f"execute_systems itself changes the system set at line {line} (through {q}" +
                     (f": {w.describe()}" if w is not None else '') + "): a system disappears from (or enters) the registry and the queue "
                     "without any registration or removal in the history, so a later registration under its id is accepted and a later "
                     "removal is rejected", where=cx.where(fn, line))
    else:
        cx.ok('R-DISC', f"the scheduler never registers, removes or retires a system itself ({n} callee(s) examined)", where=cx.where(fn),
              function=fn.qualname)


def check_remove_pairing(cx: Cx):
    """remove_system: every success path removes the registered object from the queue and deletes its registry entry, each
    exactly once (so the queue never holds an unregistered system or a second entry of a re-registered one)."""
    rem = cx.fn(CORE + 'SystemManager.remove_system')
    sid = Sym(rem.params[1]) if len(rem.params) > 1 else None
    rself = rem.params[0]
    RQ, RREG = queue_term(rself), Attr(Sym(rself), 'systems')
    n_rs = 0
    for p in cx.walker.paths(rem, WalkOptions(unroll=1)):
        if p.end == 'raise':
            continue
        n_rs += 1
        qs = [e for e in p.events if e.kind == 'store' and e.data.get('loc') == QLOC]
        rs = [e for e in p.events if e.kind == 'store' and e.data.get('loc') == RLOC]
        okq = len(qs) == 1 and qs[0].data.get('store') in REMOVALS and \
            _denotes_registered(qs[0].data.get('key'), RREG, sid, p)
        okr = len(rs) == 1 and rs[0].data.get('store') in ('delitem', 'pop') and rs[0].data.get('key') == sid
        if okq and okr:
            cx.ok('R-PAIR', 'remove_system: queue removal paired with registry delete', where=cx.where(rem, qs[0].line),
                  function=rem.qualname, path=p.lines())
        else:
            cx.violation('R-PAIR', rem.qualname, 'queue-removal-paired-with-registry-delete',
                         f"remove_system: a success path must remove the registered system from the queue and delete its "
                         f"registry entry, each exactly once; queue writes={[(e.data.get('store'), repr(e.data.get('key'))) for e in qs]}"
                         f" registry writes={[(e.data.get('store'), repr(e.data.get('key'))) for e in rs]}",
                         where=cx.where(rem), path=p.lines())
    cx.floor('remove_system success paths', n_rs, 1)



def _check_next_idiom(cx, add, ps, Q, s_sym):
    """position = next((i for i in range(len(q)) if new.priority > q[i].priority), None); insert(position) if found, else
    append: the generator yields scan indices in ascending order, so `next` is the first strictly lower entry."""
    from sa.terms import AIs, Const, CompInfo
    okk = True
    for p in ps:
        if p.end == 'raise':
            continue
        ins = [e for e in p.events if e.kind == 'store' and e.data.get('loc') == QLOC and e.data.get('store') in ('insert', 'append')]
        if len(ins) != 1:
            continue        # reported by the exactly-one-insertion rule
        e = ins[0]
        keys = {repr(x.data.get('key')): x.data.get('key') for x in p.events if x.kind == 'store' and x.data.get('store') == 'insert'}
        nexts = [ev.data.get('result') for ev in p.events if ev.kind == 'call' and ev.data.get('callee_name') == 'builtins.next']
        K = e.data.get('key') if e.data.get('store') == 'insert' else (nexts[0] if nexts else None)
        if K is None or not (isinstance(K, App) and K.fn == 'next' and len(K.args) == 2 and K.args[1] == Const(None)
                             and isinstance(K.args[0], Fresh) and isinstance(K.args[0].detail, CompInfo)):
            cx.inconclusive('R-GUARD', 'add_system first-match idiom', f"the insertion position {K!r} is not next(<generator>, None)",
                            where=cx.where(add, e.line), function=add.qualname)
            return
        d = K.args[0].detail
        tgt, src, conds = d.gens[0] if len(d.gens) == 1 else (None, None, None)
        shape_ok = isinstance(src, App) and src.fn == 'range' and (
            src.args == (App('len', (Q,)),) or src.args == (Num(Fraction(0)), App('len', (Q,))))
        M = mk_cmp(Attr(s_sym, 'priority'), '>', Attr(Sub(Q, tgt), 'priority')) if tgt is not None else None
        if not (shape_ok and d.elt == tgt and compare(f_and(*conds), M, domain='int') is None):
            cx.violation('R-GUARD', add.qualname, 'match-test-strictly-greater-priority',
                         f"add_system: the first-match generator yields {d.elt!r} for {tgt!r} in {src!r} if {[repr(c) for c in (conds or ())]}; "
                         f"first-strictly-lower insertion needs the scan index i over range(len(queue)) under "
                         f"new.priority > queue[i].priority", where=cx.where(add, e.line), path=p.lines())
            okk = False
            break
        found = f_not(AIs(K, Const(None)))
        if e.data.get('store') == 'insert':
            good = implies(p.cond, found) is None and e.data.get('value') == s_sym
        else:
            good = implies(p.cond, f_not(found)) is None and e.data.get('key') == s_sym
        if not good:
            cx.violation('R-GUARD', add.qualname, 'insert-at-first-match-else-append',
                         f"add_system: {e.data.get('store')} happens under [{p.cond!r}]; the system must be inserted at the first match "
                         f"when there is one and appended at the tail otherwise", where=cx.where(add, e.line), path=p.lines())
            okk = False
            break
    if okk:
        cx.ok('R-GUARD', 'first-match idiom: next(<ascending scan indices with strictly greater priority>, None), insert there else append',
              where=cx.where(add), function=add.qualname)


def _insertion_shape(cx, add, ps):
    """Which verified insertion idiom add_system uses: 'scan' | 'bisect' | 'bisect-left' | 'unknown'."""
    has_while = any(isinstance(n, ast.While) for n in ast.walk(add.node))
    kinds = set()
    for p in ps:
        for e in p.events:
            if e.kind == 'store' and e.data.get('loc') == QLOC:
                k = e.data.get('store')
                if k in ('insort', 'insort_right', 'insort_left'):
                    node = e.node
                    key = next((kw.value for kw in node.keywords if kw.arg == 'key'), None) if isinstance(node, ast.Call) else None
                    okkey = False
                    if isinstance(key, ast.Lambda) and len(key.args.args) == 1:
                        b = key.body
                        v = key.args.args[0].arg
                        okkey = isinstance(b, ast.UnaryOp) and isinstance(b.op, ast.USub) and isinstance(b.operand, ast.Attribute) \
                            and b.operand.attr == 'priority' and isinstance(b.operand.value, ast.Name) and b.operand.value.id == v
                    other = None
                    if isinstance(key, ast.Name):
                        # key=_sort_key with _sort_key = attrgetter('...') bound at module level
                        mv = add.module.assigns.get(key.id)
                        if isinstance(mv, (ast.Call, ast.Lambda)):
                            key = mv
                    if isinstance(key, ast.Call) and key.args and isinstance(key.args[0], ast.Constant) and isinstance(key.args[0].value, str) and \
                            (key.func.attr if isinstance(key.func, ast.Attribute) else getattr(key.func, 'id', '')) == 'attrgetter':
                        other = key.args[0].value
                    elif isinstance(key, ast.Lambda) and len(key.args.args) == 1:
                        b2 = key.body.operand if isinstance(key.body, ast.UnaryOp) else key.body
                        if isinstance(b2, ast.Attribute) and isinstance(b2.value, ast.Name) and b2.value.id == key.args.args[0].arg:
                            other = b2.attr
                    if not okkey and other is not None and other != 'priority':
                        return 'other-attribute', (f"bisect.{k} keyed by the attribute '{other}'" )
                    if not okkey:
                        return 'unknown', f"bisect.{k} without key=lambda x: -x.priority (placement depends on how System objects compare)"
                    kinds.add('bisect-left' if k == 'insort_left' else 'bisect')
                elif k == 'insert':
                    if not e.loops and _after_scan_hit(p, e):
                        kinds.add('scan')       # search (a scan left at the first hit) and insertion at the found position
                        continue
                    if not e.loops:
                        key = e.data.get('key')
                        if isinstance(key, App) and key.fn == 'next' and len(key.args) == 2 and isinstance(key.args[0], Fresh) \
                                and key.args[0].kind == 'gen':
                            kinds.add('next')
                            continue
                        return 'unknown', f"queue.insert at line {e.line} is not inside a scan loop over the queue"
                    kinds.add('scan')
                elif k in ('append', 'sort'):
                    kinds.add('scan')
    if 'next' in kinds:
        return 'next', 'first match of a generator over the scan'
    if 'bisect-left' in kinds:
        return 'bisect-left', 'bisect.insort_left'
    if 'bisect' in kinds:
        return 'bisect', 'bisect.insort_right'
    if has_while:
        return 'unknown', 'the position is searched with a while loop'
    return 'scan', ''


def _loop_scans_queue(lp, Q) -> bool:
    it = strip_versions(lp.data.get('iter'))
    if it == Q:
        return True
    if isinstance(it, App) and it.fn in ('enumerate', 'reversed') and it.args and strip_versions(it.args[0]) == Q:
        return True
    if isinstance(it, App) and it.fn == 'range':
        return any(strip_versions_in_len(a) == App('len', (Q,)) for a in it.args)
    return False


def _after_scan_hit(p, e) -> bool:
    """The insertion e follows a scan loop that was left in the iteration whose position is e's insertion index (the search
    and the insertion written as two steps: `i = find(...); queue.insert(i, s)`), with no queue write in between."""
    evs = p.events
    k = evs.index(e)
    its = [x for x in evs[:k] if x.kind == 'iter' and len(x.loops) == 1]
    if not its:
        return False
    last = its[-1]
    idx = last.data['info'].get('index')
    if idx is None or e.data.get('key') != idx:
        return False
    j = evs.index(last)
    # the loop was left from that iteration (no later iteration, no exhaustion) and nothing wrote the queue since
    for x in evs[j + 1:k]:
        if x.kind == 'endloop' and x.node is last.node and x.data.get('how') == 'exhausted':
            return False
        if x.kind == 'store' and x.data.get('loc') == QLOC:
            return False
    return True


def _strip(f):
    from sa.terms import subst_atoms, AIn as _AIn
    def m(a):
        if isinstance(a, _AIn):
            return _AIn(a.x, strip_versions(a.container))
        return None
    return subst_atoms(f, m)


def _scan_iterations(p):
    """[(iter event, cond events in that iteration, all events in that iteration)] for the outermost loop on path p."""
    out = []
    cur = None
    for e in p.events:
        if e.kind == 'iter' and len(e.loops) == 1:
            cur = (e, [], [])
            out.append(cur)
        elif e.kind == 'endloop' and len(e.loops) == 0:
            cur = None
        elif cur is not None and e.loops and e.loops[0] == cur[0].node.lineno:
            if e.kind == 'cond':
                cur[1].append(e)
            cur[2].append(e)
    return out


def _scan_shape_ok(info, Q):
    k = info.get('kind')
    zero, one = Num(Fraction(0)), Num(Fraction(1))
    if k == 'range':
        if info.get('lo') != zero:
            return f"range starts at {info.get('lo')!r}"
        if strip_versions_in_len(info.get('hi')) != App('len', (Q,)):
            return f"range ends at {info.get('hi')!r}, not len(queue)"
        if info.get('step') != one:
            return f"step {info.get('step')!r}"
        return True
    if k == 'enumerate':
        if strip_versions(info.get('seq')) != Q:
            return f"enumerates {info.get('seq')!r}"
        if info.get('start') != zero:
            return f"enumerate start {info.get('start')!r}"
        return True
    return f"loop over {info.get('iter')!r} has no index"


def strip_versions_in_len(t):
    if isinstance(t, App) and t.fn == 'len' and len(t.args) == 1:
        return App('len', (strip_versions(t.args[0]),))
    return t


def _denotes_registered(t, REG, sid, p) -> bool:
    """The removed queue element is the registry's value for the id (systems[s_id], or the popped value)."""
    if t is None:
        return False
    t = strip_versions(t)
    if t == Sub(REG, sid):
        return True
    if isinstance(t, App) and t.fn in ('.pop', '.get') and strip_versions(t.args[0]) == REG and t.args[1] == sid:
        return True
    if isinstance(t, Sub) and strip_versions(t.base) == REG and t.index == sid:
        return True
    return False
