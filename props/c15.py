"""C15 - a batch runs every combination x repetition once; no result lost or mixed."""
from __future__ import annotations

from fractions import Fraction

from sa.report import Cx
from sa.walker import WalkOptions
from sa.terms import (Sym, Attr, Sub, App, Num, Const, Fresh, TupleT, CompInfo, AIs, FTrue, f_and, f_not, implies, mul, term_symbols)
from .common import CORE, BATCH, check_atomic, strip_versions
from .batchcommon import built_list_ok, partial_binding, check_driver_loop, check_no_swallow, arms, result_pipeline

PID = 'C15'
EXPLANATION = (
    "Work list: the iterable both dispatch arms consume is the built product list times `repetitions`, built once before "
    "dispatch. R-SIB: the serial arm (processes == 1) and the pool arm agree on (callable, iterable, result handling): the "
    "same functools.partial object, the same list, consumed to exhaustion (no break), every non-None result appended "
    "exactly once to the same fresh list that is returned; the serial arm appends in list order; the pool arm may be "
    "imap_unordered / imap / map (the property asks for the multiset). R-FWD on the partial: model_cls positional, "
    "collectors / max_timesteps by keyword, the per-item argument lands in `kwargs`. _run_model_for_batch builds "
    "model_cls(**kwargs) on every call, reads no module-level state, steps exactly under `running and timestep < "
    "max_timesteps` (strict, one step per test) and returns records read from that local model (one collector: its "
    "list; several: a dict keyed by collector id). Error discipline: no handler on the run path swallows an exception. "
    "Argument validation raises before any work. Not decided: OS scheduling and Pool delivery (trusted library).")
EXPLANATION += (" Collector.__init__ allocates the records list unconditionally on every path; Pool() receives the caller's `processes` unchanged.")
EXPLANATION += (" The pool is a pool of processes (not multiprocessing.dummy / ThreadPool). Premise: C05's clean_up rules.")
ASSUMPTIONS = ["multiprocessing.Pool.imap* deliver every result once and re-raise worker exceptions in the parent",
               "C14 (the product list) and C02 (one step per Model.execute())"]

BR = BATCH + 'batch_run'
RUN = BATCH + '_run_model_for_batch'


def _append_discipline(cx, fn, p, lp, item_of, res_list):
    """Every iteration of loop lp appends its (non-None) result exactly once to res_list; nothing else; no early exit."""
    ends = [e for e in p.events if e.kind == 'endloop' and e.node is lp.node]
    if any(e.data.get('how') != 'exhausted' for e in ends):
        return 'the loop over the work list is left early'
    iters = [e for e in p.events if e.kind == 'iter' and e.node is lp.node]
    idx = [p.events.index(e) for e in iters] + [p.events.index(ends[-1]) if ends else len(p.events)]
    for k, it_ev in enumerate(iters):
        seg = p.events[idx[k]:idx[k + 1]]
        res = item_of(it_ev, seg)
        if res is None:
            return 'the result of a run is not identifiable in an iteration'
        apps = [e for e in seg if e.kind == 'store' and strip_versions(e.data.get('target')) == res_list]
        cond = f_and(*[e.data['formula'] for e in seg if e.kind == 'cond'])
        isnone = AIs(res, Const(None))
        if implies(cond, f_not(isnone)) is None:
            if not (len(apps) == 1 and apps[0].data.get('store') == 'append' and apps[0].data.get('args') == (res,)):
                return f"a non-None result is stored {len(apps)} time(s) ({[e.data.get('store') for e in apps]}) instead of appended once"
        elif implies(cond, isnone) is None:
            if apps:
                return 'a None result is appended'
        else:
            if not (len(apps) == 1 and apps[0].data.get('args') == (res,)):
                return (f"whether a result is kept does not depend on `is not None` alone (condition {cond!r}): falsy but valid "
                        f"results (empty record lists) would be dropped")
    return None

# the work list is recognised as the call ParameterList.build(); its body is C14's subject
NOINL = frozenset({BATCH + 'ParameterList.build'})


def run(cx: Cx):
    fn = cx.fn(BR)
    runf = cx.fn(RUN)
    params = Sym('parameters')
    paths = [p for p in cx.walker.paths(fn, WalkOptions(unroll=2, callee_raises=False, no_inline=NOINL)) if p.end != 'raise']
    serial, pool = arms(cx, fn, paths)
    cx.floor('batch_run serial-arm paths', len(serial), 1)
    cx.floor('batch_run pool-arm paths', len(pool), 1)
    reported = set()

    def viol(rule, missing, msg, where, **kw):
        if missing not in reported:
            reported.add(missing)
            cx.violation(rule, fn.qualname, missing, msg, where=where, **kw)

    roles = {'model_cls': 'model_cls', 'item': 'kwargs', 'collectors': 'collectors', 'limit': 'max_timesteps'}
    facts = {'serial': set(), 'pool': set()}
    from .common import _loop_stage_table
    table = _loop_stage_table(paths)
    for arm, plist in (('serial', serial), ('pool', pool)):
        for p in plist:
            ret = p.last.data.get('value') if p.end == 'return' else None
            if not isinstance(strip_versions(ret), Fresh):
                viol('R-FRESH', 'returns-the-fresh-results-list', f"batch_run returns {ret!r}, not the result list allocated in this call",
                     cx.where(fn, p.last.line if p.last else None))
                continue
            r = result_pipeline(cx, fn, paths, p, ret, table)
            if isinstance(r, str):
                viol('R-SIB', f"{arm}-arm-keeps-every-result-once", f"batch_run ({arm} arm): {r}", cx.where(fn, p.last.line), path=p.lines())
                continue
            RM, W = r['F'], r['W']
            if arm == 'pool' and r['via'] == 'serial':
                viol('R-SIB', 'pool-arm-maps-the-partial-over-the-work-list', f"batch_run (pool arm) does not run the work list through "
                     f"pool.imap_unordered/imap/map(run_model, work_list)", cx.where(fn, p.last.line))
                continue
            if r['keep'] != 'not-none':
                viol('R-SIB', f"{arm}-arm-keeps-every-result-once", f"batch_run ({arm} arm): a None result is appended", cx.where(fn, p.last.line),
                     path=p.lines())
                continue
            # work list
            rep = Sym('repetitions')
            okW = False
            from sa.terms import to_mons
            mons = to_mons(W)
            if len(mons) == 1:
                (mon, c), = mons.items()
                if c == 1 and len(mon) == 2 and rep in mon:
                    sk = [m for m in mon if m != rep]
                    okW = bool(sk) and built_list_ok(sk[0], params, p.cond)
            if not okW:
                viol('R-GUARD', f"work-list-is-product-times-repetitions",
                     f"batch_run ({arm} arm) consumes {W!r}; the work list must be the built product list repeated `repetitions` times",
                     cx.where(fn, p.last.line))
                continue
            facts[arm].add((repr(RM), repr(W)))
            # partial binding
            pb = partial_binding(cx, fn, RM, Sym('<item>'))
            if pb is None or pb[0].qualname != runf.qualname:
                viol('R-FWD', 'partial-of-_run_model_for_batch', f"the worker callable is {RM!r}, not a partial of _run_model_for_batch",
                     cx.where(fn))
                continue
            b = pb[1]
            # the worker's parameters are identified by what the front-end binds to them, not by their names
            inv = {t: k for k, t in b.items() if isinstance(t, Sym)}
            want = {inv.get(Sym('model_cls'), 'model_cls'): Sym('model_cls'), inv.get(Sym('<item>'), 'kwargs'): Sym('<item>'),
                    inv.get(Sym('collectors'), 'collectors'): Sym('collectors'), inv.get(Sym('max_timesteps'), 'max_timesteps'): Sym('max_timesteps')}
            if len(want) == 4 and all(x in inv for x in (Sym('model_cls'), Sym('<item>'), Sym('collectors'), Sym('max_timesteps'))):
                roles.update(model_cls=inv[Sym('model_cls')], item=inv[Sym('<item>')], collectors=inv[Sym('collectors')],
                             limit=inv[Sym('max_timesteps')])
            bad = {k: repr(b.get(k)) for k, v in want.items() if b.get(k) != v}
            if bad:
                viol('R-FWD', 'partial-binds-each-parameter', f"the worker partial binds {bad}; expected model_cls positional, collectors "
                     f"and max_timesteps by name, and the work item as `kwargs`", cx.where(fn))
    if not reported:
        if facts['serial'] and facts['serial'] == facts['pool']:
            cx.ok('R-SIB', 'serial and pool arms: same partial, same work list (product x repetitions), every non-None result appended '
                  'once to the returned fresh list', where=cx.where(fn), function=fn.qualname, arms=sorted(facts['serial']))
            cx.ok('R-FWD', 'partial(_run_model_for_batch, model_cls, collectors=, max_timesteps=)(item) binds item -> kwargs', where=cx.where(fn),
                  function=fn.qualname)
        else:
            viol('R-SIB', 'arms-agree', f"the serial and pool arms disagree on (callable, work list, result list): {facts}", cx.where(fn))

    # ------------------------------------------------------------ the per-run worker
    check_driver_loop(cx, runf, [roles['model_cls'], roles['item']], limit=roles['limit'])
    coll = Sym(roles['collectors'])
    kws, clss = Sym(roles['item']), Sym(roles['model_cls'])
    built = (App('call', (clss,), (('**', kws),)), App('new:' + CORE + 'Model', (), (('**', kws), ('<cls>', clss))))
    seen = set()
    wpaths = cx.walker.paths(runf, WalkOptions(unroll=1, callee_raises=False))
    for p in wpaths:
        if p.end == 'raise':
            continue
        v = strip_versions(p.last.data.get('value')) if p.end == 'return' else Const(None)
        # the model of this call: the one built from the caller's class and combination that occurs on the path
        on_path = [m for m in built if any(strip_versions(e.data.get('result')) == m for e in p.events if e.kind == 'call')]
        model = on_path[0] if on_path else built[0]
        systems = Attr(model, 'systems')
        where = cx.where(runf, p.last.line if p.last else None)
        if implies(p.cond, AIs(coll, Const(None))) is None:
            seen.add('none')
            if v != Const(None):
                cx.violation('R-GUARD', runf.qualname, 'no-collector-returns-None', f"without collectors the run returns {v!r}", where=where)
        elif any(implies(p.cond, a) is None for a in _is_str(coll)):
            seen.add('one')
            if v != Attr(Sub(systems, coll), 'records'):
                cx.violation('R-GUARD', runf.qualname, 'returns-own-collector-records',
                             f"with one collector the run returns {v!r}; it must be the records of that collector of the model built "
                             f"in this call", where=where)
        else:
            seen.add('many')
            good = False
            from .common import list_facts
            lf = list_facts(wpaths, p, v, lambda s: strip_versions(s) == coll) if isinstance(v, Fresh) else None
            if lf is not None and lf.ok and lf.key is not None and lf.base_var is not None and lf.cond == FTrue:
                tgt = lf.base_var
                if strip_versions(lf.key) in (Attr(Sub(systems, tgt), 'id'), tgt) and strip_versions(lf.elem) == Attr(Sub(systems, tgt), 'records'):
                    good = True
            if not good:
                cx.violation('R-GUARD', runf.qualname, 'returns-own-records-per-collector',
                             f"with several collectors the run returns {v!r}; it must map each requested collector's id to that "
                             f"collector's records of the model built in this call", where=where)
    if seen >= {'none', 'one', 'many'} and not any(o.verdict == 'violation' and o.function == runf.qualname for o in cx.obs):
        cx.ok('R-GUARD', "_run_model_for_batch returns None / the collector's records / {id: records} of its own model", where=cx.where(runf),
              function=runf.qualname)
    elif not seen >= {'none', 'one', 'many'}:
        cx.inconclusive('R-GUARD', '_run_model_for_batch returns', f"branches found: {sorted(seen)}", where=cx.where(runf), function=runf.qualname)

    check_no_swallow(cx, [BR, RUN, BATCH + '_build_model_from_kwargs'])
    # a healthy execution is not failed by the package's own systems: a collector retired with clean_up() really leaves the registry
    # (one that only leaves the queue makes the re-registration of its id raise in every run that swaps collectors)
    from .common import include_premises
    include_premises(cx, ['C05'], 'collectors are removed from a model the way every system is', only=lambda o: 'clean_up' in o.key)
    # the records a run hands back are its own: every collector object starts with a list allocated for it alone (a list found
    # on the object - hasattr also finds one declared in a subclass body - is shared by all collectors of that class in the process)
    from .common import COLL
    cinit = cx.fn(COLL + 'Collector.__init__')
    RLOC = (COLL + 'Collector', 'records')
    n_ci = 0
    for p in cx.walker.paths(cinit, WalkOptions(unroll=1, callee_raises=False)):
        if p.end == 'raise':
            continue
        n_ci += 1
        st = [e for e in p.events if e.kind == 'store' and e.data.get('loc') == RLOC]
        v = st[-1].data.get('value') if st else None
        if not (st and st[-1].data.get('store') == 'rebind' and isinstance(v, Fresh) and v.kind in ('list', 'call:list') and not v.items):
            cx.violation('R-SHARED', cinit.qualname, 'fresh-records-per-collector',
                         f"Collector.__init__ does not give the new collector a list of its own on a path [{p.cond!r}] (found {v!r}): "
                         f"collectors that share a list hand every run the records of the other runs as well",
                         where=cx.where(cinit, st[-1].line if st else None), path=p.lines())
            break
    else:
        cx.ok('R-SHARED', f"every collector starts with its own empty records list ({n_ci} constructor path(s))", where=cx.where(cinit),
              function=cinit.qualname)
    # the work list is ParameterList.build(): every combination once, as independent dictionaries (C14's build rules)
    from .c14 import check_build, check_declaration
    check_build(cx)
    check_declaration(cx)
    check_atomic(cx, BR, ['AttributeError'], must_have=True)
    # the collectors argument is validated before any work
    from sa.terms import AIs as _AIs, AIsInst, f_or, compare
    c = Sym('collectors')
    valid = f_or(_AIs(c, Const(None)), *_is_str(c)[:1], AIsInst(c, Sym('typing.Iterable')))
    valid2 = f_or(_AIs(c, Const(None)), _is_str(c)[1], AIsInst(c, Sym('typing.Iterable')))
    found = False
    for p in cx.walker.paths(fn, WalkOptions(unroll=0, callee_raises=False)):
        if p.end == 'raise' and p.last.data.get('direct') and p.last.data.get('exc') == 'AttributeError':
            if compare(p.cond, f_not(valid)) is None or compare(p.cond, f_not(valid2)) is None:
                if not [e for e in p.events if e.kind == 'call' and e.data.get('target_kind') in ('pkg', 'unknown') and not e.data.get('full_inline')
                        and not (e.data.get('targets') and all(cx.walker.is_new_function(t) for t in e.data['targets']))]:
                    found = True
    if found:
        cx.ok('R-GUARD', 'collectors must be None / str / Iterable, rejected before any work', where=cx.where(fn), function=fn.qualname)
    else:
        cx.violation('R-GUARD', fn.qualname, 'collectors-validated-before-any-work',
                     "batch_run does not reject an invalid `collectors` argument (not None / str / Iterable) with AttributeError "
                     "before building the parameter list or running anything", where=cx.where(fn))
    from .common import check_no_stateful_memo, check_presence_not_truthiness
    check_no_stateful_memo(cx)
    # a requested collector is found by its id: the truth value of the collector object says nothing about presence (a collector
    # class may define __len__ - one without records would be "missing")
    check_presence_not_truthiness(cx, [BATCH + '_run_model_for_batch', BATCH + 'batch_run'])


def _is_str(t):
    from sa.terms import AEq, AIsInst
    return [AEq(App('type', (t,)), Sym('str')), AIsInst(t, Sym('str'))]
