"""C14 - a parameter list builds the exact Cartesian product, once each."""
from __future__ import annotations

import ast

from sa.report import Cx
from sa.walker import WalkOptions
from sa.terms import (Sym, Attr, Sub, App, Fresh, TupleT, Const, CompInfo, FTrue, AEq, AIsInst, ATruthy, f_not, implies, mk_cmp, atoms_of,
                      term_symbols)
from .common import BATCH, list_facts, _loop_stage_table, check_atomic, check_keyed_insert, check_keyed_delete, check_pure, order_class, strip_versions

PID = 'C14'
EXPLANATION = (
    "build(): the returned value is a list comprehension of dict(t) - a dictionary allocated per tuple - over "
    "itertools.product(*L) (callee identity after alias resolution); L is a list allocated in the activation that "
    "receives exactly one entry per item of _parameters, appended at the tail in the dict's iteration order "
    "(declaration order), each entry a list of (key, value) pairs with the item's own key: [(key, value)] on the branch "
    "where the value is a str (the test dominates any iteration of the value), [(key, v) for v in value] otherwise, and "
    "[(key, value)] in the TypeError handler that guards only that iteration. R-PURE/R-FRESH: build writes no field. "
    "R-ATOMIC + keyed discipline: add_parameter / remove_parameter reject before writing and store/delete exactly one "
    "entry. 'First declared varies slowest' is then itertools.product's documented order (trusted).")
EXPLANATION += (" The constructor walks its dictionary in the dictionary's own order (not sorted / reversed / a set).")
EXPLANATION += (' The TypeError handler of build() contains no raise.')
EXPLANATION += (' A constructor path that declares nothing has established `parameters is None`.')
ASSUMPTIONS = ["itertools.product semantics", "dict preserves insertion order", "values are re-iterable (quantifier)"]

PL = BATCH + 'ParameterList'
LOC = (PL, '_parameters')


def run(cx: Cx):
    check_build(cx)
    check_declaration(cx)


def check_build(cx: Cx):
    build = cx.fn(PL + '.build')
    self_s = Sym(build.params[0])
    params = Attr(self_s, '_parameters')
    paths = cx.walker.paths(build, WalkOptions(unroll=1, inline_full=frozenset({'<private>'})))      # helpers that expand one value fork the path
    rets = [p for p in paths if p.end == 'return']
    cx.floor('build() returning paths', len(rets), 1)
    kinds = set()
    reported = set()

    def viol(rule, missing, msg, where, **kw):
        if missing not in reported:
            reported.add(missing)
            cx.violation(rule, build.qualname, missing, msg, where=where, **kw)

    table = _loop_stage_table(paths)
    for p in rets:
        v = p.last.data.get('value')
        where = cx.where(build, p.last.line)
        # ---- the product call
        prods = [e for e in p.events if e.kind == 'call' and e.data.get('callee_name') == 'itertools.product']
        from .common import known_empty_on
        if not prods and known_empty_on(p.cond, params) and isinstance(v, Fresh) and v.kind == 'list' and len(v.items) == 1 and \
                isinstance(v.items[0], Fresh) and v.items[0].kind in ('dict', 'call:dict') and not v.items[0].items:
            continue        # nothing declared: the product of zero lists is the one empty combination, [{}]
        if len(prods) != 1:
            others = [e.data.get('callee_name') for e in p.events if e.kind == 'call' and e.loops and e.data.get('via') != 'mutator']
            viol('R-GUARD', 'product-of-the-parameter-lists', f"build() must combine the per-parameter lists with itertools.product "
                 f"(found {len(prods)} such call(s))", where)
            continue
        pe = prods[0]
        args = pe.data.get('args', ())
        if not (len(args) == 1 and isinstance(args[0], App) and args[0].fn == '*' and isinstance(args[0].args[0], Fresh)
                and args[0].args[0].kind in ('list', 'call:list', 'listcomp')):
            viol('R-GUARD', 'product-over-star-of-fresh-list', f"itertools.product is called with {args!r}, not *<list built in this call>",
                 cx.where(build, pe.line))
            continue
        L = args[0].args[0]
        # ---- result = [dict(t) for t in product(*L)], written as a comprehension or as a loop with appends
        good = False
        lf = list_facts(paths, p, v, lambda s: strip_versions(s) == strip_versions(pe.data.get('result')), table) if isinstance(v, Fresh) else None
        NAMES = None        # the parallel-lists form: dict(zip(names, combination)) over product(*value_axes)
        if lf is not None and lf.ok and lf.key is None and lf.base_var is not None and lf.cond == FTrue and lf.stages == 1:
            elt = lf.elem
            if isinstance(elt, Fresh) and elt.kind == 'call:dict' and elt.items == (lf.base_var,):
                good = True
            elif isinstance(elt, Fresh) and elt.kind == 'call:dict' and len(elt.items) == 1:
                z = strip_versions(elt.items[0])
                zargs = z.args[1:] if isinstance(z, App) and z.fn == 'call' and z.args[:1] == (Sym('builtins.zip'),) else \
                    (z.args if isinstance(z, App) and z.fn == 'zip' else ())
                if len(zargs) == 2 and strip_versions(zargs[1]) == lf.base_var and isinstance(strip_versions(zargs[0]), Fresh) and \
                        strip_versions(zargs[0]).kind in ('list', 'call:list') and not getattr(z, 'kw', ()):
                    NAMES = strip_versions(zargs[0])
                    good = True
        if not good:
            viol('R-FRESH', 'one-fresh-dict-per-combination', f"build() returns {v!r}; it must be [dict(t) for t in product(*lists)] - "
                 f"one independent dictionary per combination, every combination once", where)
            continue
        # ---- L gets one entry per declared parameter, in declaration order
        # cases: (key, value, entry, condition, handler type or None, paths/path for list facts, where)
        cases = []
        if L.kind == 'listcomp':
            d = L.detail
            if not (isinstance(d, CompInfo) and len(d.gens) == 1 and not d.gens[0][2] and order_class(d.gens[0][1], params) == 'inorder'):
                viol('R-ITER', 'one-pass-over-the-declaration', f"build() must make one unfiltered pass over _parameters in declaration "
                     f"order (found {L!r})", where)
                continue
            if NAMES is not None:
                viol('R-ITER', 'names-and-axes-stay-aligned', "build() zips a list of names with each combination of a comprehension-built "
                     "list of axes: alignment of the two is not established", where)
                continue
            tgt, src, _ = d.gens[0]
            if isinstance(tgt, TupleT) and len(tgt.items) == 2:
                key, value = tgt.items
            else:
                key, value = tgt, Sub(params, tgt)
            cases.append((key, value, d.elt, p, cx.where(build, L.site)))
        else:
            loops = [e for e in p.events if e.kind == 'loop']
            ploops = [lp for lp in loops if order_class(lp.data.get('iter'), params) != 'unrelated']
            if len(ploops) != 1:
                viol('R-ITER', 'one-pass-over-the-declaration', f"build() must make one pass over _parameters (found {len(ploops)} loops)", where)
                continue
            lp = ploops[0]
            if order_class(lp.data.get('iter'), params) != 'inorder':
                viol('R-ITER', 'declaration-order', f"build() iterates {lp.data.get('iter')!r}: not the declaration order of the parameters",
                     cx.where(build, lp.line))
                continue
            ends = [e for e in p.events if e.kind == 'endloop' and e.node is lp.node]
            if any(e.data.get('how') != 'exhausted' for e in ends):
                viol('R-ITER', 'every-parameter-visited', "build() leaves the loop over the parameters early", cx.where(build, lp.line))
                continue
            iters = [e for e in p.events if e.kind == 'iter' and e.node is lp.node]
            if NAMES is not None:
                # names and value axes are appended in the same iteration, the name being that iteration's key: the two lists stay aligned
                napps = [e for e in p.events if e.kind == 'store' and strip_versions(e.data.get('target')) == NAMES]
                keys_ = [it_.data['info'].get('index') if it_.data['info'].get('kind') == 'items' else it_.data['info'].get('var') for it_ in iters]
                aligned = len(napps) == len(iters) and all(e.data.get('store') == 'append' and e.loops and e.loops[0] == lp.node.lineno
                                                             for e in napps) and [e.data.get('args', (None,))[0] for e in napps] == keys_
                if not aligned:
                    viol('R-ITER', 'names-and-axes-stay-aligned', f"build() zips a list of names with each combination, but the names are not "
                         f"appended once per parameter, in the same iteration as that parameter's values "
                         f"({[(e.data.get('store'), repr(e.data.get('args'))) for e in napps]})", cx.where(build, lp.line))
                    continue
            apps = [e for e in p.events if e.kind == 'store' and strip_versions(e.data.get('target')) == L]
            if any(e.data.get('store') != 'append' for e in apps) or len(apps) != len(iters):
                viol('R-ITER', 'one-tail-append-per-parameter', f"build(): {len(apps)} writes to the list of lists in {len(iters)} iteration(s) "
                     f"({[e.data.get('store') for e in apps]}); each parameter must be appended exactly once at the tail", cx.where(build, lp.line))
                continue
            for it_ev, ap in zip(iters, apps):
                info = it_ev.data['info']
                if info.get('kind') == 'items':
                    key, value = info['index'], Sub(info['seq'], info['index'])
                else:
                    key = info.get('var')
                    value = Sub(params, key)
                cases.append((key, value, ap.data.get('args', (None,))[0], p, cx.where(build, ap.line)))
        for key, value, entry, q, awhere in cases:
            helper = cx.prog.functions.get(entry.fn[5:]) if isinstance(entry, App) and entry.fn.startswith('call:') else None
            if helper is not None:
                # the expansion of one parameter was factored out: its return paths are the cases
                hp_all = cx.walker.paths(helper, WalkOptions(unroll=1))
                hparams = helper.params if (helper.is_static or helper.cls is None) else helper.params[1:]
                hargs = entry.args[-len(hparams):] if hparams else ()
                by_name = len(hparams) == 1 and tuple(hargs) == (key,) and not entry.kw and helper.cls is not None and not helper.is_static \
                    and value == Sub(params, key)
                if not by_name and (len(hparams) != 2 or tuple(hargs) != (key, value) or entry.kw):
                    viol('R-GUARD', 'entry-shape', f"build() appends {entry!r}: the helper does not receive exactly (key, value)", awhere)
                    continue
                if by_name:
                    # a method that is given the name only and reads the value from the declaration itself: `self._parameters[name]`
                    hk, hv = Sym(hparams[0]), Sub(Attr(Sym(helper.params[0]), '_parameters'), Sym(hparams[0]))
                else:
                    hk, hv = Sym(hparams[0]), Sym(hparams[1])
                htable = _loop_stage_table(hp_all)
                for hq in hp_all:
                    if hq.end != 'return':
                        continue
                    _check_entry(cx, viol, kinds, hk, hv, hq.last.data.get('value'), hq, hp_all, htable, None, cx.where(helper, hq.last.line))
                for n in ast.walk(helper.node):
                    if isinstance(n, ast.Try) and not _try_only_iterates(n):
                        viol('R-GUARD', 'try-guards-only-the-value-iteration',
                             f"the try block in {helper.name}() contains more than the iteration of the value: an unrelated TypeError "
                             f"would silently turn a collection into a single value", cx.where(helper, n.lineno))
            else:
                _check_entry(cx, viol, kinds, key, value, entry, q, paths, table, lp.node.lineno if L.kind != 'listcomp' else None, awhere,
                             pairs=NAMES is None)
    if not reported:
        if kinds >= {'str', 'collection', 'scalar'}:
            cx.ok('R-GUARD', 'build(): product(*one list of (key, value) pairs per parameter, declaration order), dict per tuple; '
                  'str / collection / non-iterable branches', where=cx.where(build), function=build.qualname, branches=sorted(kinds))
        else:
            cx.inconclusive('R-GUARD', 'build() branches', f"only the branches {sorted(kinds)} were found (expected str, collection, "
                            f"non-iterable fallback)", where=cx.where(build), function=build.qualname)
    # the TypeError handler guards only the iteration of the value
    for n in ast.walk(build.node):
        if isinstance(n, ast.Try):
            # every TypeError of the iteration means "a single value": a handler that looks at the message and re-raises the others
            # refuses the scalars whose TypeError is worded differently (a 0-d numpy array: "iteration over a 0-d array")
            if any(isinstance(y, ast.Raise) for h in n.handlers for y in ast.walk(h)):
                cx.violation('R-GUARD', build.qualname, 'fallback-for-every-TypeError-of-the-iteration',
                             "the TypeError handler of build() re-raises some of the errors it catches: a value that cannot be iterated is "
                             "a single value whatever the wording of its TypeError", where=cx.where(build, n.lineno))
            if not _try_only_iterates(n):
                cx.violation('R-GUARD', build.qualname, 'try-guards-only-the-value-iteration',
                             "the try block in build() contains more than the iteration of the value: an unrelated TypeError "
                             "would silently turn a collection into a single value", where=cx.where(build, n.lineno))
    check_pure(cx, build.qualname)
    from .common import check_result_fresh
    check_result_fresh(cx, build.qualname)



def _check_entry(cx, viol, kinds, key, value, entry, p, paths, table, loop_line, awhere, pairs=True):
    """One parameter's entry in the list of lists, on path p: [(key, value)] when the value is a str or not iterable (the
    TypeError fallback), [(key, v) for v in value] otherwise."""
    is_str_atoms = [AEq(App('type', (value,)), Sym('str')), AIsInst(value, Sym('str'))]
    str_branch = any(implies(p.cond, a) is None for a in is_str_atoms)
    not_str = any(implies(p.cond, f_not(a)) is None for a in is_str_atoms)
    def mk(k_, v_):
        return TupleT((k_, v_)) if pairs else v_       # parallel-lists form: the axis holds the bare values
    single = (mk(key, value),)
    handler = [e for e in p.events if e.kind == 'except' and (loop_line is None or (e.loops and e.loops[0] == loop_line))]
    if isinstance(entry, Fresh) and entry.kind == 'list' and entry.items:
        if entry.items != single:
            viol('R-GUARD', 'single-value-entry-is-key-value', f"a single-valued parameter is wrapped as {entry!r}, not [(key, value)]", awhere)
            return
        if str_branch:
            kinds.add('str')
        elif _exactly_a_scalar_type(p.cond, value, cx, is_str_atoms):
            kinds.add('str')                # a str, or exactly an int / float / bool / complex / None (whose iteration would raise TypeError)
        elif handler and not_str:
            if handler[-1].data.get('type') not in ('TypeError',):
                viol('R-GUARD', 'fallback-only-for-TypeError', f"the single-value fallback catches {handler[-1].data.get('type')}, "
                     f"not only the TypeError of iterating a non-iterable", awhere)
                return
            kinds.add('scalar')
        else:
            viol('R-GUARD', 'single-wrap-only-for-str-or-non-iterable',
                 f"build() wraps the value as a single combination on a path that neither established 'is a str' nor came "
                 f"from the TypeError fallback ({p.cond!r})", awhere)
    elif isinstance(entry, Fresh) and entry.kind in ('listcomp', 'list', 'call:list'):
        ef = list_facts(paths, p, entry, lambda s: strip_versions(s) == value, table)
        if not (ef.ok and ef.key is None and ef.base_var is not None and ef.cond == FTrue and ef.stages >= 1 and
                ef.elem == mk(key, ef.base_var)):
            viol('R-GUARD', 'collection-entry-is-key-v-for-v-in-value',
                 f"a collection-valued parameter is expanded as {entry!r} ({ef.err or ef.elem!r}); expected (key, v) for "
                 f"v in the parameter's own value, unfiltered", awhere)
            return
        if not not_str:
            viol('R-GUARD', 'str-test-dominates-iteration', "build() iterates a value without first establishing that it is "
                 "not a str: strings would be split into characters", awhere)
            return
        kinds.add('collection')
    else:
        viol('R-GUARD', 'entry-shape', f"build() appends {entry!r}: not a list of (key, value) pairs", awhere)


def _try_only_iterates(n: ast.Try) -> bool:
    """The guarded block does nothing but expand a value into a list: a comprehension, or a list allocated in the block
    that a `for` loop fills by append; no other call (whose TypeError would be misread as 'not iterable')."""
    local_lists = set()
    for s in n.body:
        if isinstance(s, (ast.Assign, ast.AnnAssign)):
            tgts = s.targets if isinstance(s, ast.Assign) else [s.target]
            val = s.value
            if val is None or not all(isinstance(t, ast.Name) for t in tgts):
                return False
            def total(c):
                # calls that fail with TypeError exactly when the value is not iterable (and never otherwise)
                if isinstance(c.func, ast.Name) and c.func.id in ('list', 'tuple', 'zip', 'iter', 'enumerate') and not c.keywords:
                    return True
                return isinstance(c.func, (ast.Attribute, ast.Name)) and (c.func.attr if isinstance(c.func, ast.Attribute) else c.func.id) == 'repeat' \
                    and len(c.args) == 1 and not c.keywords
            if any(isinstance(c, ast.Call) and not total(c) for c in ast.walk(val)):
                return False
            if isinstance(val, ast.List) and not val.elts:
                local_lists |= {t.id for t in tgts}
        elif isinstance(s, ast.Return):
            if s.value is not None and any(isinstance(c, ast.Call) for c in ast.walk(s.value)):
                return False
        elif isinstance(s, ast.For):
            if s.orelse or any(isinstance(c, ast.Call) for c in ast.walk(s.iter)):
                return False
            for b in s.body:
                ok = isinstance(b, ast.Expr) and isinstance(b.value, ast.Call) and isinstance(b.value.func, ast.Attribute) and \
                    b.value.func.attr == 'append' and isinstance(b.value.func.value, ast.Name) and b.value.func.value.id in local_lists \
                    and not any(isinstance(c, ast.Call) for a in b.value.args for c in ast.walk(a))
                if not ok:
                    return False
        else:
            return False
    return True


def check_declaration(cx: Cx):
    # ------------------------------------------------------------ declaration API
    addp = cx.fn(PL + '.add_parameter')
    remp = cx.fn(PL + '.remove_parameter')
    check_atomic(cx, addp.qualname, ['AttributeError', 'KeyError'])
    check_atomic(cx, remp.qualname, ['KeyError'])
    a_self, name, values = (Sym(x) for x in addp.params[:3])
    check_keyed_insert(cx, addp.qualname, LOC, Attr(a_self, '_parameters'), name, values)
    check_keyed_delete(cx, remp.qualname, LOC, Attr(Sym(remp.params[0]), '_parameters'), Sym(remp.params[1]))
    # non-string names rejected
    for p in cx.walker.paths(addp, WalkOptions(unroll=1)):
        if p.end != 'raise':
            is_str = [AEq(App('type', (name,)), Sym('str')), AIsInst(name, Sym('str'))]
            if not any(implies(p.cond, a) is None for a in is_str):
                cx.violation('R-GUARD', addp.qualname, 'non-string-name-rejected', "add_parameter accepts a name without establishing "
                             "that it is a str", where=cx.where(addp))
                break
    else:
        cx.ok('R-GUARD', 'add_parameter accepts only str names', where=cx.where(addp), function=addp.qualname)
    is_str2 = [AEq(App('type', (name,)), Sym('str')), AIsInst(name, Sym('str'))]
    for p in cx.walker.paths(addp, WalkOptions(unroll=1)):
        if p.end == 'raise' and p.last.data.get('direct') and p.last.data.get('exc') == 'AttributeError':
            if not any(implies(p.cond, f_not(a)) is None for a in is_str2):
                cx.violation('R-GUARD', addp.qualname, 'only-non-string-names-rejected',
                             f"add_parameter rejects a name under [{p.cond!r}], which does not establish that the name is not a str: legal "
                             f"string names are refused here although the constructor accepts them", where=cx.where(addp, p.last.line))
                break
    else:
        cx.ok('R-GUARD', 'add_parameter refuses a name (AttributeError) only when it is not a str', where=cx.where(addp), function=addp.qualname)
    pinit = cx.fn(PL + '.__init__')
    okc = True
    ni = 0
    for p in cx.walker.paths(pinit, WalkOptions(unroll=1, callee_raises=False)):
        if p.end == 'raise':
            continue
        for it_ev in [e for e in p.events if e.kind == 'iter']:
            ni += 1
            info = it_ev.data['info']
            lps = [e for e in p.events if e.kind == 'loop' and e.node is it_ev.node]
            src0 = Sym(pinit.params[1]) if len(pinit.params) > 1 else None
            if lps and src0 is not None and order_class(lps[0].data.get('iter'), src0) == 'reordered':
                okc = False
                cx.violation('R-ITER', pinit.qualname, 'constructor-declares-in-dictionary-order',
                             f"ParameterList.__init__ walks the constructor dictionary as {lps[0].data.get('iter')!r}: the parameters are "
                             f"declared in another order than the dictionary lists them, so the first-listed parameter no longer varies "
                             f"slowest in the product", where=cx.where(pinit, it_ev.line), path=p.lines())
                break
            key = info.get('index') if info.get('kind') == 'items' else info.get('var')
            st = [e for e in p.events if e.kind == 'store' and e.data.get('loc') == LOC and e.data.get('store') == 'setitem'
                  and e.data.get('key') == key and p.events.index(e) > p.events.index(it_ev)]
            src = Sym(pinit.params[1]) if len(pinit.params) > 1 else None
            vals = [Sub(src, key)] + ([Sub(info['seq'], info['index'])] if info.get('kind') == 'items' else [])
            if not (len(st) == 1 and st[0].data.get('value') in vals):
                okc = False
                cx.violation('R-GUARD', pinit.qualname, 'constructor-declares-every-entry',
                             f"ParameterList.__init__: an entry of the constructor dictionary is not declared as given on a path "
                             f"[{p.cond!r}] (stores: {[(repr(e.data.get('key')), repr(e.data.get('value'))) for e in st]}): a legal "
                             f"scalar value such as None would be dropped from every combination", where=cx.where(pinit, it_ev.line),
                             path=p.lines())
                break
        if not okc:
            break
    # a constructor that copies the dictionary in one go (update / dict(parameters)) must have established that EVERY key is a
    # str: `all(type(k) == str for k in parameters)` - a search for "the first offending key" that uses None as its not-found
    # answer accepts a dictionary whose first offending key is None
    src_p = Sym(pinit.params[1]) if len(pinit.params) > 1 else None
    for p in cx.walker.paths(pinit, WalkOptions(unroll=1, callee_raises=False)):
        if p.end == 'raise' or not okc:
            continue
        bulk = [e for e in p.events if e.kind == 'store' and e.data.get('loc') == LOC and e.data.get('store') in ('update', 'rebind')
                and src_p is not None and any(y == src_p for y in __import__('sa.terms', fromlist=['subterms_of']).subterms_of(
                    e.data.get('value') if e.data.get('store') == 'rebind' else (e.data.get('args') or (e.data.get('value'),))))]
        if not bulk:
            continue
        ni += 1
        good = False
        for a in atoms_of(p.cond):
            t_ = getattr(a, 't', None)
            if isinstance(a, ATruthy) and isinstance(t_, App) and t_.fn == 'any' and t_.args and implies(p.cond, f_not(a)) is None:
                # not any(type(k) != str for k in parameters)
                d_ = getattr(t_.args[0], 'detail', None)
                if d_ is not None and len(d_.gens) == 1 and strip_versions(d_.gens[0][1]) in (src_p, App('.keys', (src_p,))) and not d_.gens[0][2]:
                    v_ = d_.gens[0][0]
                    from sa.terms import BoolT as _B
                    if isinstance(d_.elt, _B) and d_.elt.f in (f_not(AEq(App('type', (v_,)), Sym('str'))), f_not(AIsInst(v_, Sym('str')))):
                        good = True
            if isinstance(a, ATruthy) and isinstance(t_, App) and t_.fn == 'all' and t_.args and implies(p.cond, a) is None:
                d_ = getattr(t_.args[0], 'detail', None)
                if d_ is not None and len(d_.gens) == 1 and strip_versions(d_.gens[0][1]) in (src_p, App('.keys', (src_p,))) and not d_.gens[0][2]:
                    v_ = d_.gens[0][0]
                    from sa.terms import BoolT as _B
                    if isinstance(d_.elt, _B) and d_.elt.f in (AEq(App('type', (v_,)), Sym('str')), AIsInst(v_, Sym('str'))):
                        good = True
        if not good:
            okc = False
            cx.violation('R-GUARD', pinit.qualname, 'constructor-rejects-non-string-names',
                         f"ParameterList.__init__ copies the dictionary in one step on a path [{p.cond!r}] that has not established that every "
                         f"key is a str (all(type(k) == str for k in parameters)): a dictionary with a non-string name is accepted",
                         where=cx.where(pinit, bulk[0].line), path=p.lines())
    # ... whenever a dictionary was given at all: the only input without a declaration is None (a `type(p) == dict` / isinstance
    # test drops the declaration of an OrderedDict, a defaultdict, a ChainMap - build() then answers [{}])
    if okc:
        from sa.terms import AIs as _AIs1
        for p in cx.walker.paths(pinit, WalkOptions(unroll=1, callee_raises=False)):
            if p.end == 'raise' or src_p is None:
                continue
            wrote = any(e.kind == 'store' and e.data.get('loc') == LOC and e.data.get('store') in ('setitem', 'update') for e in p.events) or \
                any(e.kind == 'store' and e.data.get('loc') == LOC and e.data.get('store') == 'rebind' and src_p in term_symbols(e.data.get('value'))
                    for e in p.events)
            looped = any(e.kind == 'loop' for e in p.events)
            if not wrote and not looped and implies(p.cond, _AIs1(src_p, Const(None))) is not None:
                okc = False
                cx.violation('R-GUARD', pinit.qualname, 'constructor-declares-every-entry',
                             f"ParameterList.__init__ declares nothing on a path [{p.cond!r}] that has not established `parameters is None`: "
                             f"a mapping that fails the test (a dict subclass, a ChainMap) is silently ignored and build() returns [{{}}]",
                             where=cx.where(pinit))
                break
    if okc and ni:
        cx.ok('R-GUARD', 'constructor declares every (string-keyed) entry exactly as given', where=cx.where(pinit), function=pinit.qualname)
    elif okc:
        cx.inconclusive('R-GUARD', 'ParameterList.__init__', 'no per-entry store and no bulk copy of the constructor dictionary was recognised',
                        where=cx.where(pinit), function=pinit.qualname)
    sites = cx.effects.sites_of(LOC)
    allowed = {PL + '.__init__', addp.qualname, remp.qualname}
    for s in sites:
        if not s.owned_within(allowed):
            cx.violation('R-DISC', s.fn.qualname, f"_parameters-{s.kind}", f"{s.describe()}: the declaration is written outside the "
                         f"constructor / add_parameter / remove_parameter (building must never change it)", where=s.where)
    cx.floor('_parameters write sites', len(sites), 4)


_SCALARS = {'int', 'float', 'bool', 'complex', 'builtins.int', 'builtins.float', 'builtins.bool', 'builtins.complex', 'NoneType', 'types.NoneType'}


def _exactly_a_scalar_type(cond, value, cx=None, str_atoms=()) -> bool:
    """The path established `type(value) in (<non-iterable builtin types>)` or `type(value) == <one of them>`: the single-value
    branch is taken for a value whose iteration would raise TypeError anyway."""
    from sa.terms import AIn, Num
    tv = App('type', (value,))

    def scalar(t):
        t = strip_versions(t)
        if isinstance(t, Sym) and t.name in _SCALARS:
            return True
        return isinstance(t, App) and t.fn == 'type' and t.args == (Const(None),)
    import ast as _ast
    from sa.terms import f_or

    def const_tuple_of_scalars(sym):
        if cx is None or not isinstance(sym, Sym) or '.' not in sym.name:
            return False
        mod_, _, nm = sym.name.rpartition('.')
        mi = cx.prog.modules.get(mod_)
        v = mi.assigns.get(nm) if mi is not None else None
        if not isinstance(v, (_ast.Tuple, _ast.List)) or not v.elts:
            return False
        for x in v.elts:
            okx = (isinstance(x, _ast.Name) and x.id in ('int', 'float', 'bool', 'complex')) or \
                (isinstance(x, _ast.Call) and isinstance(x.func, _ast.Name) and x.func.id == 'type' and len(x.args) == 1 and
                 isinstance(x.args[0], _ast.Constant) and x.args[0].value is None)
            if not okx:
                return False
        return True
    cands = list(str_atoms)
    for a in atoms_of(cond):
        if isinstance(a, AIn) and strip_versions(a.x) == tv:
            c_ = strip_versions(a.container)
            if (isinstance(c_, TupleT) and all(scalar(x) for x in c_.items)) or const_tuple_of_scalars(c_):
                cands.append(a)
        if isinstance(a, AEq) and a.a == tv and scalar(a.b):
            cands.append(a)
    if len(cands) == len(list(str_atoms)):
        return False
    try:
        return implies(cond, f_or(*cands)) is None
    except Exception:
        return False
