"""C06 - completion is immediate and final."""
from __future__ import annotations

from fractions import Fraction

from sa.report import Cx
from sa.walker import WalkOptions
from sa.terms import Sym, Attr, App, Num, ATruthy, FNot, f_and, f_not, implies, atoms_of, compare
from .common import (CORE, BATCH, scheduler_paths, exec_sites, status_atom_kind, is_system_execute_call,
                     shared_writes_before)

PID = 'C06'
EXPLANATION = (
    "R-DISC on Model._status as a monotone typestate: every store outside Model.__init__ constant-folds to "
    "ModelStatus.COMPLETE; is_running is a function of _status alone that, folded over the enum's declared members, "
    "is true exactly for RUNNING; __bool__ returns it. R-GUARD/R-ORDER in execute_systems over CFG paths (loop unrolled "
    "0..2): the not-running branch at entry performs no write and leaves by return, or by ModelCompleteError exactly "
    "when throw_error; every path from function entry or from one System.execute event to the next System.execute event "
    "crosses the running edge of a test of the model status. Both batch drivers step the model only under a running "
    "test. Decides the structure that makes completion final for every schedule; does not decide user code writing "
    "_status directly.")
EXPLANATION += (" The status that is tested is the scheduler's own model - a status read through the scheduled system (sys.model) does not count. Drivers are discovered: every package function outside the scheduler that calls Model.execute or execute_systems.")
EXPLANATION += (" Model.complete() stores COMPLETE on every path (a path without the store must have read the status field as complete; a test through an overridable method of the model does not count). A bound method kept in a field is called on the receiver it was bound to, which is not the scheduler's own model. Empty public methods called from Model.execute are extension points and come after the running test. The silent not-running exit issues no warning.")
EXPLANATION += (' ModelCompleteError is an ordinary Exception subclass; every method of the scheduled system that the scheduler calls counts like execute for the running-test discipline.')
EXPLANATION += (' Model defines no __setattr__ / __delattr__ / __getattribute__.')
ASSUMPTIONS = ["G6: user code completes a model only through Model.complete()", "IntEnum members compare as their declared values"]

SLOC = (CORE + 'Model', '_status')


def _status_owner(a):
    """The object whose _status the atom reads."""
    from sa.terms import ACmp, FNot, Attr as _A, App as _App
    while isinstance(a, FNot):
        a = a.f
    b = a.base if isinstance(a, ACmp) else None
    if isinstance(b, _App) and b.fn == '@t':
        b = b.args[0]
    return b.base if isinstance(b, _A) else None


def _own_model(a) -> bool:
    """The status that is tested is the scheduler's / driver's own model: not a model reached through the system that is
    being scheduled (`sys.model` may be another, still running model)."""
    from sa.terms import term_symbols
    o = _status_owner(a)
    if o is None:
        return True
    for x in term_symbols(o):
        if isinstance(x, Sym) and x.name.rstrip("'") in _LOOP_VARS:
            return False
    from sa.terms import subterms_of
    for x in subterms_of(o):
        # the receiver a bound method was given when it was stored away (`self._poll = model.is_running`): the model of that
        # moment, not the model the scheduler belongs to now (`manager.model` is a documented, assignable attribute)
        if isinstance(x, Attr) and x.name == '__self__':
            return False
    return True


_LOOP_VARS = set()


def _running_edges(cx, events):
    """cond events among `events` that establish 'model running' on this path."""
    out = []
    for e in events:
        if e.kind != 'cond':
            continue
        f = e.data['formula']
        for a in atoms_of(f):
            k = status_atom_kind(cx, a) if _own_model(a) else None
            if k in ('running', 'not-running'):
                want = a if k == 'running' else f_not(a)
                if implies(f, want) is None:
                    out.append(e)
                    break
    return out


def _not_running_established(cx, p):
    for e in p.events:
        if e.kind != 'cond':
            continue
        f = e.data['formula']
        for a in atoms_of(f):
            k = status_atom_kind(cx, a)
            if k in ('running', 'not-running'):
                want = f_not(a) if k == 'running' else a
                if implies(f, want) is None:
                    return e
    return None


def _runs_system_code(cx, e) -> bool:
    """System.execute, or any other method of the scheduled system object (clean_up, ...): user code that runs on the scheduler's
    initiative and must not run once the model is complete."""
    if is_system_execute_call(cx, e):
        return True
    if e.kind != 'call':
        return False
    sysc = cx.prog.cls(CORE + 'System')
    from sa.terms import term_symbols
    recv = e.data.get('recv')
    if recv is None or not any(isinstance(x, Sym) and x.name.rstrip("'") in _LOOP_VARS for x in term_symbols(recv)):
        return False
    return any(t.cls is not None and cx.prog.is_subclass(t.cls, sysc) and not t.is_property and t.name != '__init__'
               for t in e.data.get('targets', []))


def _is_hook(t) -> bool:
    """A public method with an empty body (docstring / pass / bare return): it exists to be overridden."""
    import ast
    if t.cls is None or t.name.startswith('_') or t.is_property:
        return False
    body = [b for b in t.node.body if not (isinstance(b, ast.Expr) and isinstance(b.value, ast.Constant))]
    return all(isinstance(b, ast.Pass) or (isinstance(b, ast.Return) and (b.value is None or (isinstance(b.value, ast.Constant) and b.value.value is None)))
               for b in body)


def _documented_callers(cx: Cx, k0: str):
    """`k0` itself when the pinned API has it; for a function new to the API, the documented functions that (transitively) call it."""
    out, seen, stack = set(), set(), [k0]
    while stack:
        k = stack.pop()
        if k in seen:
            continue
        seen.add(k)
        f = cx.prog.functions.get(k)
        if f is None or not cx.walker.is_new_function(f):
            out.add(k)
            continue
        stack.extend(c for c, cs in cx.effects.callees.items() if k in cs and c != k)
    return out


def run(cx: Cx):
    prog = cx.prog
    ms = prog.cls(CORE + 'ModelStatus')
    mem = prog.enum_members(ms)
    RUN, COMP = Num(Fraction(mem['RUNNING'])), Num(Fraction(mem['COMPLETE']))

    # ------------------------------------------------------------ clause 1: monotone status
    sites = cx.effects.sites_of(SLOC)
    for s in sites:
        v = s.ev.data.get('value')
        if s.owner_q == CORE + 'Model.__init__':
            if s.kind == 'rebind' and v == RUN:
                cx.ok('R-DISC', 'model starts RUNNING', where=s.where, function=s.fn.qualname)
            else:
                cx.violation('R-DISC', s.fn.qualname, 'status-initialised-running',
                             f"{s.describe()}: a model must start as RUNNING", where=s.where)
        elif s.kind == 'rebind' and v == COMP:
            cx.ok('R-DISC', 'status store folds to COMPLETE', where=s.where, function=s.fn.qualname)
        else:
            cx.violation('R-DISC', s.fn.qualname, 'status-only-moves-to-complete',
                         f"{s.describe()}: outside the constructor the status may only be set to ModelStatus.COMPLETE "
                         f"(found {v!r}); completion would not be final", where=s.where)
    cx.floor('status write sites', len(sites), 2)
    comp = cx.fn(CORE + 'Model.complete')
    if not any(s.owner_q == comp.qualname for s in sites):
        cx.violation('R-DISC', comp.qualname, 'complete-stores-complete', "Model.complete() does not store COMPLETE",
                     where=comp.where)

    # ... on every path: a completion request is never dropped.  A path without the store is accepted only when the status FIELD was
    # read and found complete already; a question put to an overridable method of the model (`if self.is_running():`) is answered
    # by the subclass, which may say "not running" for reasons of its own (a pause, a budget) while the status is still RUNNING
    import ast as _ast0
    n_cp = 0
    for p in cx.walker.paths(comp, WalkOptions(unroll=1)):
        if p.end == 'raise':
            continue
        n_cp += 1
        if any(e.kind == 'store' and e.data.get('loc') == SLOC for e in p.events):
            continue
        selfn = comp.params[0] if comp.params else 'self'
        virt = None
        for e in p.events:
            raw = e.data.get('raw') if e.kind == 'cond' else None
            for n in (_ast0.walk(raw) if raw is not None else ()):
                if isinstance(n, _ast0.Call) and isinstance(n.func, _ast0.Attribute) and isinstance(n.func.value, _ast0.Name) \
                        and n.func.value.id == selfn and not n.func.attr.startswith('_') and comp.cls is not None \
                        and prog.lookup_method(comp.cls, n.func.attr):
                    virt = virt or (e, n.func.attr)
        known_done = any(status_atom_kind(cx, a) == 'not-running' and implies(p.cond, a) is None and _status_owner(a) == Sym(selfn)
                         for a in atoms_of(p.cond))
        if virt is not None:
            cx.violation('R-DISC', comp.qualname, 'completion-request-never-dropped',
                         f"Model.complete() skips the status store when self.{virt[1]}() says so: the method is part of the documented, "
                         f"overridable API, and a subclass that narrows it (a pause flag, a budget) makes complete() a silent no-op while "
                         f"the status is still RUNNING - the model later reports itself as running again", where=cx.where(comp, virt[0].line),
                         path=p.lines())
            break
        if not known_done:
            cx.violation('R-DISC', comp.qualname, 'completion-request-never-dropped',
                         f"a path of Model.complete() [{p.cond!r}] returns without storing COMPLETE and without having found the status "
                         f"complete already", where=cx.where(comp, p.last.line if p.last else None), path=p.lines())
            break
    else:
        if n_cp:
            cx.ok('R-DISC', f"every path of Model.complete() stores COMPLETE ({n_cp} path(s))", where=cx.where(comp), function=comp.qualname)

    from .common import check_error_is_plain_exception
    check_error_is_plain_exception(cx, CORE + 'ModelCompleteError')
    # assigning an attribute of a model is plain assignment: a __setattr__ that re-points the back-reference of whatever is attached
    # (`value.model = self`) makes a scheduler shared by, or handed over between, two models poll the wrong model for completion
    hooks_ = [n_ for c_ in prog.mro(prog.cls(CORE + 'Model')) for n_ in ('__setattr__', '__delattr__', '__getattribute__') if n_ in c_.methods]
    if hooks_:
        hf = prog.cls(CORE + 'Model').methods.get(hooks_[0], [None])[0]
        cx.violation('R-DISC', CORE + 'Model.' + hooks_[0], 'model-attributes-are-plain',
                     f"Model defines {hooks_[0]}: attaching a scheduler or environment to a model now has side effects on the attached "
                     f"object (its `model` back-reference), so the scheduler of a completed model can end up polling another model",
                     where=cx.where(hf) if hf else prog.cls(CORE + 'Model').where)
    else:
        cx.ok('R-DISC', 'Model has no attribute-assignment hooks', where=prog.cls(CORE + 'Model').where, function=CORE + 'Model')

    isr = cx.fn(CORE + 'Model.is_running')
    # completion is a fact about the model: the status lives in the model object itself, not in an object the model merely refers to
    # (model.systems, model.environment are public attributes and can be replaced - completion would be replaced with them)
    own = True
    for p in cx.walker.paths(isr, WalkOptions(unroll=1)):
        fs = [e.data['formula'] for e in p.events if e.kind == 'cond']
        v0 = p.last.data.get('value') if p.end == 'return' else None
        from sa.terms import BoolT as _BT
        if isinstance(v0, _BT):
            fs.append(v0.f)
        for f0 in fs:
            for a in atoms_of(f0):
                if status_atom_kind(cx, a) in ('running', 'not-running'):
                    o = _status_owner(a)
                    import ast as _ast
                    props_ = [m for m in prog.lookup_method(prog.cls(CORE + 'Model'), '_status') if m.is_property and not m.is_setter]
                    props_ = [m for m in props_ if not (len(m.body) == 1 and isinstance(m.body[0], _ast.Return) and
                                                        isinstance(m.body[0].value, _ast.Attribute) and isinstance(m.body[0].value.value, _ast.Name)
                                                        and m.params and m.body[0].value.value.id == m.params[0])]
                    if props_:
                        o = o if o != Sym(isr.params[0]) else Attr(o, '<property _status>')
                    if o is not None and o != Sym(isr.params[0]):
                        own = False
                        cx.violation('R-DISC', isr.qualname, 'status-kept-in-the-model-itself',
                                     f"is_running() reads the status from {o!r}, not from the model object itself: whoever replaces that "
                                     f"object (a public attribute) replaces the completion with it, so a completed model can run again",
                                     where=cx.where(isr, p.last.line if p.last else None))
                        break
            if not own:
                break
        if not own:
            break
    if own:
        cx.ok('R-DISC', 'the status is a field of the model object itself', where=cx.where(isr), function=isr.qualname)
    for p in cx.walker.paths(isr, WalkOptions(unroll=1)):
        v = p.last.data.get('value') if p.end == 'return' else None
        from sa.walker import _Ctx, State
        f = _Ctx(cx.walker, isr, WalkOptions()).formula(v, State()) if v is not None else None
        f = f_and(p.cond, f) if f is not None else None
        kinds = {status_atom_kind(cx, a) for a in atoms_of(f)} if f is not None else set()
        if f is not None and kinds == {'running'} and len(atoms_of(f)) == 1 and implies(f, atoms_of(f)[0]) is None \
                and implies(atoms_of(f)[0], f) is None:
            cx.ok('R-GUARD', 'is_running() is true exactly for RUNNING', where=cx.where(isr, p.last.line), function=isr.qualname,
                  test=repr(f))
        else:
            cx.violation('R-GUARD', isr.qualname, 'true-exactly-for-RUNNING',
                         f"is_running() returns [{f!r}], which is not 'status is RUNNING' over the declared members "
                         f"{mem}", where=cx.where(isr))
    mb = cx.fn(CORE + 'Model.__bool__')
    for p in cx.walker.paths(mb, WalkOptions(unroll=1)):
        v = p.last.data.get('value') if p.end == 'return' else None
        from sa.terms import BoolT
        ok = isinstance(v, BoolT) and len(atoms_of(v.f)) == 1 and status_atom_kind(cx, atoms_of(v.f)[0]) == 'running' \
            and implies(v.f, atoms_of(v.f)[0]) is None and implies(atoms_of(v.f)[0], v.f) is None
        if ok:
            cx.ok('R-FWD', 'bool(model) == is_running()', where=cx.where(mb), function=mb.qualname)
        else:
            cx.violation('R-FWD', mb.qualname, 'bool-is-running', f"Model.__bool__ returns {v!r}, not is_running()",
                         where=cx.where(mb))

    # ------------------------------------------------------------ clause 2: scheduler
    fn, ps = scheduler_paths(cx, unroll=2)
    _LOOP_VARS.clear()
    for p in ps:
        for e in p.events:
            if e.kind == 'iter' and isinstance(e.data['info'].get('var'), Sym):
                _LOOP_VARS.add(e.data['info']['var'].name.rstrip("'"))
    throw = Sym('throw_error') if 'throw_error' in fn.params else None
    n_nr = n_pairs = 0
    for p in ps:
        nre = _not_running_established(cx, p)
        execs = [e for e in p.events if _runs_system_code(cx, e)]
        first_effect = None
        for e in p.events:
            if (e.kind == 'store' and e.data.get('shared')) or e in execs or e.kind == 'loop':
                first_effect = e
                break
        entry_tests = _running_edges(cx, p.events[:p.events.index(first_effect)] if first_effect else p.events)
        if nre is not None and not nre.loops and (first_effect is None or p.events.index(nre) < p.events.index(first_effect)):
            # the not-running exit
            n_nr += 1
            writes = shared_writes_before(cx, p, None)
            if writes or execs:
                cx.violation('R-GUARD', fn.qualname, 'not-running-exit-has-no-effect',
                             f"execute_systems on a completed model still performs: {(writes or ['System.execute'])[0]}",
                             where=cx.where(fn, nre.line), path=p.lines())
                continue
            warns = [e for e in p.events if e.kind == 'call' and str(e.data.get('callee_name', '')).startswith('warnings.warn')]
            if warns and p.end != 'raise':
                cx.violation('R-GUARD', fn.qualname, 'silent-request-stays-silent',
                             "on a completed model a request that did not ask for the error issues a warning: under -W error / "
                             "simplefilter('error') the warning is raised as an exception - an error nobody asked for, and not "
                             "ModelCompleteError", where=cx.where(fn, warns[0].line), path=p.lines())
                continue
            if throw is not None:
                t = ATruthy(throw)
                if p.end == 'raise':
                    good = p.last.data.get('exc') == 'ModelCompleteError' and implies(p.cond, t) is None
                else:
                    good = implies(p.cond, f_not(t)) is None
                if not good:
                    cx.violation('R-GUARD', fn.qualname, 'complete-error-exactly-when-asked',
                                 f"on a completed model execute_systems must raise ModelCompleteError exactly when "
                                 f"throw_error; this path ends in {p.end} under [{p.cond!r}]", where=cx.where(fn, p.last.line if p.last else None),
                                 path=p.lines())
                    continue
            cx.ok('R-GUARD', f"not-running exit: no effect, ends in {p.end}", where=cx.where(fn, nre.line), function=fn.qualname,
                  path=p.lines())
            continue
        if not entry_tests:
            cx.violation('R-GUARD', fn.qualname, 'running-test-dominates-every-effect',
                         "a path of execute_systems reaches its first effect without testing that the model is running",
                         where=cx.where(fn, first_effect.line if first_effect else None), path=p.lines())
            continue
        # running test between consecutive execute events
        prev_i = -1
        bad = False
        for e in execs:
            i = p.events.index(e)
            between = p.events[prev_i + 1:i]
            if not _running_edges(cx, between):
                cx.violation('R-ORDER', fn.qualname, 'running-test-before-each-execute',
                             "there is a CFG path from one System.execute (or the entry test... ) to the next System.execute "
                             "that does not re-test that the model is still running: systems keep running after a system "
                             "called complete() mid-timestep", where=cx.where(fn, e.line), path=p.lines())
                bad = True
                break
            n_pairs += 1
            prev_i = i
        if bad:
            break
    cx.floor('not-running exits', n_nr, 1)
    cx.floor('execute-to-execute segments examined', n_pairs, 2)
    if n_pairs:
        cx.ok('R-ORDER', f"running test on every entry->execute / execute->execute segment ({n_pairs} segments)",
              where=cx.where(fn), function=fn.qualname)

    # ------------------------------------------------------------ clause 2b: multi-step requests (Model.execute with the scheduler inlined)
    mfn, mps = scheduler_paths(cx, unroll=2, root=CORE + 'Model.execute')
    TLOC = (CORE + 'SystemManager', 'timestep')
    n_seg = 0
    bad = None
    for p in mps:
        evs = p.events
        marks = [(i, 'execute') for i, e in enumerate(evs) if _runs_system_code(cx, e)]
        clocks = [i for i, e in enumerate(evs) if e.kind == 'store' and e.data.get('loc') == TLOC]
        # (a) running edge between consecutive executes, and before the first effect of the request
        seq = sorted(marks + [(i, 'clock') for i in clocks])
        prev = -1
        last_exec = -1
        for i, kind in seq:
            if kind == 'execute':
                lo = last_exec + 1
                if not _running_edges(cx, evs[lo:i]):
                    bad = ('running-test-before-each-execute', i, p,
                           "Model.execute(n): there is a CFG path from the start of the request or from one System.execute to the next "
                           "System.execute - possibly in a later step of the same request - that does not cross the running edge of a "
                           "model-status test: systems run after completion")
                    break
                last_exec = i
                n_seg += 1
        if bad:
            break
        # (b) between the clock writes of consecutive steps the model must have been found running again
        for a, b in zip(clocks, clocks[1:]):
            n_seg += 1
            if not _running_edges(cx, evs[a + 1:b]):
                bad = ('clock-untouched-after-completion', b, p,
                       "Model.execute(n): a later step of the same request advances the clock on a path that has not found the model "
                       "running since the previous step: after completion mid-request the timestep keeps increasing")
                break
        if bad:
            break
        if clocks and not _running_edges(cx, evs[:clocks[0]]):
            bad = ('running-test-dominates-every-effect', clocks[0], p,
                   "Model.execute advances the clock on a path that never tested that the model is running")
            break
    if not bad:
        # an empty method called on the way is an extension point: what a subclass puts there (weather, bookkeeping, ...) is model
        # state changing, so it too runs only after the model was found running
        for p in mps:
            evs = p.events
            for i, e in enumerate(evs):
                hooks = [t for t in (e.data.get('targets') or []) if e.kind == 'call' and _is_hook(t)]
                if hooks and not _running_edges(cx, evs[:i]):
                    bad = ('running-test-dominates-every-effect', i, p,
                           f"Model.execute calls the empty, overridable {hooks[0].qualname}() on a path that has not found the model "
                           f"running: whatever a subclass does there still happens on every request after completion")
                    break
            if bad:
                break
    if not bad:
        # every other change of shared state a request makes (sorting the queue "to honour edited priorities", counters, ...) also
        # comes after the model was found running: a request on a completed model leaves all model state untouched
        for p in mps:
            evs = p.events
            for i, e in enumerate(evs):
                if e.kind == 'store' and e.data.get('shared') and e.data.get('root_kind') != 'fresh' and not _running_edges(cx, evs[:i]):
                    bad = ('running-test-dominates-every-effect', i, p,
                           f"Model.execute changes shared state ({e.data.get('store')} on {e.data.get('loc')}) on a path that has not "
                           f"found the model running: a request on a completed model no longer leaves the model untouched")
                    break
            if bad:
                break
    if bad:
        key, i, p, msg = bad
        cx.violation('R-ORDER', mfn.qualname, key, msg, where=f"{mfn.module.relpath}:{p.events[i].line}", path=p.lines())
    else:
        cx.ok('R-ORDER', f"Model.execute(n) with the scheduler inlined: running test before every execute and between the clock writes of "
              f"consecutive steps ({n_seg} segments on {len(mps)} paths)", where=cx.where(mfn), function=mfn.qualname)
    cx.floor('Model.execute segments examined', n_seg, 4)

    # ------------------------------------------------------------ who may run a system
    sysc = cx.prog.cls(CORE + 'System')
    sched = CORE + 'SystemManager.execute_systems'
    nsite = 0
    for k, calls in cx.effects.calls.items():
        kfn = cx.prog.functions.get(k.split('#')[0])
        for c in calls:
            tg = [t for t in c.data.get('targets', []) if t.name == 'execute' and t.cls is not None and cx.prog.is_subclass(t.cls, sysc)]
            if not tg:
                continue
            nsite += 1
            inside_execute = kfn is not None and kfn.name == 'execute' and kfn.cls is not None and cx.prog.is_subclass(kfn.cls, sysc)
            roots = cx.effects.public_roots(kfn) if kfn is not None else set()
            if k.split('#')[0] != sched and not inside_execute and roots != {sched}:
                cx.violation('R-GUARD', k, 'systems-run-through-the-scheduler-only',
                             f"{k} calls {tg[0].qualname}() directly: the call bypasses the scheduler's completed-model guard (and its "
                             f"start / end / frequency window), so a system runs on a model that is already complete",
                             where=cx.where(kfn, c.line) if kfn else '')
    # the same through a receiver the nominal types cannot see: `<something looked up in the registry or the queue>.execute()`
    from sa.terms import subterms_of, Fresh
    from sa.walker import PathExplosion
    from .common import strip_versions

    def _from_registry(t, p, depth=0):
        t = strip_versions(t)
        for y in subterms_of(t):
            if isinstance(y, Attr) and y.name in ('systems', 'execution_queue') and not isinstance(t, Attr):
                return True
            if isinstance(y, App) and ('SystemManager.__getitem__' in y.fn or 'SystemManager.get' in y.fn):
                return True
        if isinstance(t, Sym) and depth < 3:
            for e in p.events:
                if e.kind == 'iter' and e.data['info'].get('var') == t:
                    it = strip_versions(e.data['info'].get('iter'))
                    d = getattr(it, 'detail', None)
                    if d is not None and getattr(d, 'elt', None) is not None and _from_registry(d.elt, p, depth + 1):
                        return True
                    if _from_registry(it, p, depth + 1) or (isinstance(it, Fresh) and any(_from_registry(a, p, depth + 1) for a in (it.items or ()))):
                        return True
        return False
    hidden = None
    for k in sorted(cx.effects.unresolved):
        kfn = cx.prog.functions.get(k.split('#')[0])
        if kfn is None or k.split('#')[0] == sched or not any(c.data.get('callee_name') == '.execute' for c in cx.effects.unresolved[k]):
            continue
        if kfn.name == 'execute' and kfn.cls is not None and cx.prog.is_subclass(kfn.cls, sysc):
            continue
        if cx.effects.public_roots(kfn) == {sched}:
            continue
        try:
            kps = cx.walker.paths(kfn, WalkOptions(unroll=1))
        except PathExplosion:
            kps = cx.walker.paths(kfn, WalkOptions(unroll=0))
        for p in kps:
            for e in p.events:
                if e.kind == 'call' and e.data.get('target_kind') == 'unknown' and e.data.get('callee_name') == '.execute' and \
                        not e.data.get('args') and not e.data.get('kw') and _from_registry(e.data.get('recv'), p):
                    hidden = hidden or (k, kfn, e)
    if hidden:
        k, kfn, e = hidden
        cx.violation('R-GUARD', k, 'systems-run-through-the-scheduler-only',
                     f"{k} calls .execute() on {e.data.get('recv')!r}, an object taken from the system registry / queue: the call bypasses the "
                     f"scheduler's completed-model guard (and the start / end / frequency window), so a system runs on a model that is "
                     f"already complete", where=cx.where(kfn, e.line))
    cx.ok('R-GUARD', f"System.execute is called by the scheduler only ({nsite} call sites examined)", where=cx.where(cx.fn(sched)), function=sched)

    # ------------------------------------------------------------ clause 3: batch drivers
    mexec = CORE + 'Model.execute'
    # the drivers are found, not named: every package function outside the scheduler that steps a model
    steppers = (mexec, CORE + 'SystemManager.execute_systems')
    drivers = []
    for k, calls in cx.effects.calls.items():
        if '#' in k or k == mexec or k.startswith(CORE + 'SystemManager.'):
            continue
        if any(any(t.qualname in steppers for t in c.data.get('targets', [])) for c in calls) and k in cx.prog.functions:
            # a helper the documented API does not have is part of the documented functions that call it
            # (a helper of Model.execute / the scheduler is covered there, inlined; any other helper that steps a model is a driver
            # in its own right - its loop is where the running test belongs)
            outside = [r for r in _documented_callers(cx, k)
                       if r in cx.prog.functions and r != mexec and not r.startswith(CORE + 'SystemManager.') and '#' not in r]
            if outside and k not in drivers:
                drivers.append(k)
    cx.floor('functions that step a model (batch drivers)', len(drivers), 1)
    for q in sorted(drivers):
        d = cx.fn(q)
        n = 0
        for p in cx.walker.paths(d, WalkOptions(unroll=2, inline_full=frozenset({'<private>'}))):
            evs = p.events
            for i, e in enumerate(evs):
                if e.kind == 'call' and any(t.qualname in steppers for t in e.data.get('targets', [])):
                    n += 1
                    # conditions of the current iteration of the innermost loop
                    j = i
                    while j >= 0 and not (evs[j].kind == 'iter' and e.loops and evs[j].node.lineno == e.loops[-1]):
                        j -= 1
                    # for a while loop the test precedes the 'iter' event
                    k = j
                    while k >= 0 and evs[k].kind != 'cond':
                        k -= 1
                    seg = evs[max(k, 0):i]
                    prev_exec = [x for x in evs[:max(k, 0)] if x.kind == 'call' and any(t.qualname == mexec for t in x.data.get('targets', []))]
                    if not _running_edges(cx, seg):
                        cx.violation('R-GUARD', d.qualname, 'steps-only-while-running',
                                     f"{d.name} calls model.execute() on a path that has not tested model.is_running() since "
                                     f"the previous step", where=cx.where(d, e.line), path=p.lines())
                        n = -10 ** 6
                        break
            if n < 0:
                break
        if n > 0:
            cx.ok('R-GUARD', f"{d.name}: every model.execute() is dominated by a running test", where=cx.where(d), function=d.qualname)
        elif n == 0:
            cx.inconclusive('R-GUARD', d.name, 'no model.execute() call found in the batch driver', where=cx.where(d), function=d.qualname)
