"""Rule helpers shared by several properties (R-ATOMIC, R-FWD, scheduler facts, write disciplines)."""
from __future__ import annotations

import ast
from dataclasses import dataclass, field
from fractions import Fraction
from typing import Dict, List, Optional, Tuple

from sa.loader import FuncInfo, AnalysisError
from sa.report import Cx
from sa.walker import Path, Event, WalkOptions
from sa.terms import (Term, Sym, Attr, Sub, App, Num, Const, Fresh, TupleT, Formula, ACmp, AIn, ATruthy, FNot, FAnd, FOr,
                      FConst, FTrue, f_and, f_or, f_not, compare, implies, atoms_of, mk_cmp, eval_formula, subst_atoms)

CORE = 'ECAgent.Core.'
ENV = 'ECAgent.Environments.'
BATCH = 'ECAgent.Batching.'
COLL = 'ECAgent.Collectors.'
TAGS = 'ECAgent.Tags.'
DEC = 'ECAgent.Decode.'


def S(name):
    return Sym(name)


def A(base, *names):
    t = base if isinstance(base, Term) else Sym(base)
    for n in names:
        t = Attr(t, n)
    return t


def strip_versions(t):
    """Drop the container-version wrapper (guards are compared against version-free expected forms)."""
    if isinstance(t, App) and t.fn == '@v':
        return strip_versions(t.args[0])
    return t


# ---------------------------------------------------------------------------------------------- R-ATOMIC
def shared_writes_before(cx: Cx, p: Path, upto: Event = None) -> List[str]:
    """Describe every write to non-fresh state that happens on path p before `upto` (default: its last event)."""
    out = []
    for e in p.events:
        if e is upto:
            break
        if e.kind == 'store' and e.data.get('shared'):
            out.append(f"{e.data.get('store')} on {e.data.get('loc') or e.data.get('target')!r} at line {e.line}")
        elif e.kind == 'call' and e.data.get('target_kind') == 'pkg' and not e.data.get('inlined'):
            ws = cx.effects.call_writes(e)
            if ws:
                w, chain = ws[0]
                out.append(f"call {e.data.get('callee_name')} at line {e.line} writes {w.loc} ({w.kind} at "
                           f"{w.where}, {len(ws)} write site(s) reachable)")
    return out


def check_atomic(cx: Cx, fn_q: str, excs: List[str], rule='R-ATOMIC', unroll=1, must_have=True, axioms=None,
                 ignore_locs=()) -> Dict[str, int]:
    """On every CFG path of fn that ends in one of the tabled errors (raised directly or by a resolved callee), no
    write to shared state precedes the raise."""
    fn = cx.fn(fn_q)
    ps = cx.walker.paths(fn, WalkOptions(unroll=unroll, axioms=axioms))
    seen = {x: 0 for x in excs}
    for p in ps:
        if p.end != 'raise':
            continue
        last = p.last
        exc = last.data.get('exc')
        if exc not in seen:
            continue
        seen[exc] += 1
        writes = shared_writes_before(cx, p, last)
        for w in last.data.get('callee_writes', []):
            writes.append(f"(inside callee) {w.data.get('store')} on {w.data.get('loc')} at line {w.line}")
        writes = [w for w in writes if not any(str(l) in w for l in ignore_locs)]
        via = '->'.join(last.data.get('via', ())) or 'direct'
        inst = f"{fn.qualname} raises {exc} ({via}) at line {last.line}"
        if writes:
            cx.violation(rule, fn.qualname, f"{exc}-raised-after-write",
                         f"{fn.qualname}: the rejected operation is not atomic - before raising {exc} ({via}) the path "
                         f"already performed: {writes[0]}", where=cx.where(fn, last.line), path=p.lines(),
                         writes=writes, condition=repr(p.cond))
        else:
            cx.ok(rule, inst, where=cx.where(fn, last.line), function=fn.qualname, condition=repr(p.cond),
                  path=p.lines(), writes_before=0)
    for exc, n in seen.items():
        if n == 0 and must_have:
            cx.inconclusive(rule, f"{fn.qualname} raises {exc}",
                            f"no CFG path of {fn.qualname} ends in the tabled documented error {exc}: the table row no "
                            f"longer describes the tree", where=cx.where(fn), function=fn.qualname)
    return seen


# ---------------------------------------------------------------------------------------------- R-FWD
def super_init_bindings(cx: Cx, ctor: FuncInfo) -> Optional[Tuple[FuncInfo, Dict[str, Term], Event]]:
    """Binding of the parent's __init__ parameters at the super().__init__ call of `ctor` (None if absent)."""
    ps = cx.walker.paths(ctor, WalkOptions(unroll=1, callee_raises=False))
    found = None
    for p in ps:
        if p.end == 'raise':
            continue
        calls = [e for e in p.events if e.kind == 'call' and e.data.get('via') == 'super'
                 and e.data.get('targets') and e.data['targets'][0].name == '__init__']
        if not calls:
            return None
        e = calls[0]
        callee = e.data['targets'][0]
        from sa.walker import _Ctx, State
        c = _Ctx(cx.walker, ctor, WalkOptions())
        b = c.bind_args(callee, e.data.get('recv'), list(e.data.get('args', ())), dict(e.data.get('kw', ())), State(), True)
        if b is None:
            return None
        if found is None:
            found = (callee, b, e)
    return found


def check_forwarding_chain(cx: Cx, cls_q: str, names: List[str], final_q: str, rule='R-FWD', renames=None):
    """Constructor parameters `names` of class cls_q reach the same-named parameters of final_q through the
    super().__init__ chain."""
    renames = renames or {}
    ci = cx.prog.cls(cls_q)
    ms = cx.prog.lookup_method(ci, '__init__')
    if not ms:
        cx.inconclusive(rule, f"{cls_q}.__init__", "constructor not found")
        return
    cur = ms[0]
    current = {n: Sym(n) for n in names if n in cur.params + cur.kwonly}
    missing = [n for n in names if n not in current]
    if missing:
        cx.violation(rule, cur.qualname, f"no-parameter-{'-'.join(missing)}",
                     f"{cur.qualname} no longer accepts {missing}", where=cx.where(cur))
        return
    hops = 0
    while cur.qualname != final_q:
        r = super_init_bindings(cx, cur)
        if r is None:
            cx.violation(rule, cur.qualname, 'no-super-init',
                         f"{cur.qualname} does not reach {final_q} through super().__init__ on its success path",
                         where=cx.where(cur))
            return
        callee, b, ev = r
        nxt = {}
        for n in names:
            got = b.get(n)
            # express got in terms of the original constructor's parameters
            want = current[n]
            mapped = got
            if got is not None:
                from sa.terms import subst_term
                mapped = subst_term(got, {Sym(k): v for k, v in current.items()})
            if mapped != Sym(n):
                cx.violation(rule, cur.qualname, f"{n}-not-forwarded",
                             f"{cur.qualname}: parameter '{n}' of {callee.qualname} receives {mapped!r}, not the "
                             f"constructor's own '{n}'", where=cx.where(cur, ev.line), got=repr(mapped))
                return
            nxt[n] = mapped
        current = nxt
        cur = callee
        hops += 1
        if hops > 6:
            cx.inconclusive(rule, cls_q, "super().__init__ chain too long")
            return
    cx.ok(rule, f"{cls_q}.__init__ forwards {names} to {final_q}", where=cx.where(ms[0]), function=ms[0].qualname,
          hops=hops)


def const_default(cx: Cx, fn: FuncInfo, param: str):
    d = fn.param_default(param)
    if d is None:
        return None
    from sa.walker import _Ctx, State
    t = _Ctx(cx.walker, fn, WalkOptions()).ev(d, State())
    return t


# ---------------------------------------------------------------------------------------------- scheduler facts
@dataclass
class ExecSite:
    path: Path
    ev: Event                      # the call event sys.execute()
    loop_id: int
    iter_ev: Optional[Event]       # the 'iter' event of the iteration the call happens in
    loop_ev: Optional[Event]       # the 'loop' event
    conds: List[Event]             # cond events inside this iteration before the call
    recv: Term


def is_system_execute_call(cx: Cx, e: Event) -> bool:
    if e.kind != 'call':
        return False
    sysc = cx.prog.cls(CORE + 'System')
    for t in e.data.get('targets', []):
        if t.name == 'execute' and t.cls is not None and cx.prog.is_subclass(t.cls, sysc):
            return True
    return False


def scheduler_paths(cx: Cx, unroll=2, inline=True) -> Tuple[FuncInfo, List[Path]]:
    fn = cx.fn(CORE + 'SystemManager.execute_systems')
    ps = cx.walker.paths(fn, WalkOptions(unroll=unroll, callee_raises=False))
    return fn, ps


def exec_sites(cx: Cx, p: Path) -> List[ExecSite]:
    out = []
    evs = p.events
    for i, e in enumerate(evs):
        if not is_system_execute_call(cx, e):
            continue
        if not e.loops:
            out.append(ExecSite(p, e, 0, None, None, [], e.data.get('recv')))
            continue
        lid = e.loops[-1]
        # the iteration's 'iter' event: last iter event of loop lid before i
        it = None
        j = i
        while j >= 0:
            if evs[j].kind == 'iter' and evs[j].node.lineno == lid:
                it = evs[j]
                break
            j -= 1
        conds = [x for x in evs[j + 1:i] if x.kind == 'cond']
        loop_ev = None
        for x in evs[:j + 1]:
            if x.kind == 'loop' and x.node.lineno == lid:
                loop_ev = x
        out.append(ExecSite(p, e, lid, it, loop_ev, conds, e.data.get('recv')))
    return out


def status_atom_kind(cx: Cx, f: Formula) -> Optional[str]:
    """'running' if f (an atom over `<model>._status`) is true exactly for ModelStatus.RUNNING among the declared
    members, 'not-running' for its complement."""
    if isinstance(f, FNot):
        k = status_atom_kind(cx, f.f)
        return {'running': 'not-running', 'not-running': 'running'}.get(k)
    if not isinstance(f, ACmp):
        return None
    b = f.base
    if not (isinstance(b, Attr) and b.name == '_status'):
        return None
    ms = cx.prog.cls(CORE + 'ModelStatus')
    mem = cx.prog.enum_members(ms)
    if 'RUNNING' not in mem or 'COMPLETE' not in mem:
        raise AnalysisError("ModelStatus no longer declares RUNNING and COMPLETE")
    vals = {name: eval_formula(f, {b: Fraction(v)}, {}) for name, v in mem.items() if isinstance(v, int)}
    if vals['RUNNING'] and not any(v for n, v in vals.items() if n != 'RUNNING'):
        return 'running'
    if not vals['RUNNING'] and all(v for n, v in vals.items() if n != 'RUNNING'):
        return 'not-running'
    return 'other'


def queue_term(self_name='self'):
    return Attr(Sym(self_name), 'execution_queue')


def classify_iterable(it: Term, q: Term) -> str:
    """How the scheduler's loop iterable relates to the queue q: live | copy | reversed | sorted | set | other."""
    it = strip_versions(it)
    if it == q:
        return 'live'
    if isinstance(it, Fresh):
        if it.kind in ('call:list', 'call:tuple', 'copy') and it.items and strip_versions(it.items[0]) == q:
            return 'copy'
        if it.kind == 'list' and len(it.items) == 1 and isinstance(it.items[0], App) and it.items[0].fn == '*' \
                and strip_versions(it.items[0].args[0]) == q:
            return 'copy'
        if it.kind in ('call:sorted',):
            return 'sorted'
        if it.kind in ('call:set', 'call:frozenset', 'set', 'setcomp'):
            return 'set'
        if it.kind == 'listcomp' and it.detail is not None and len(it.detail.gens) == 1:
            tgt, src, conds = it.detail.gens[0]
            if strip_versions(src) == q and it.detail.elt == tgt and not conds:
                return 'copy'
    if isinstance(it, App):
        if it.fn == '.copy' and strip_versions(it.args[0]) == q:
            return 'copy'
        if it.fn == 'reversed':
            return 'reversed'
        if it.fn in ('sorted',):
            return 'sorted'
        if it.fn == 'slice':
            return 'other'
    return 'other'
