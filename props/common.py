"""Rule helpers shared by several properties (R-ATOMIC, R-FWD, scheduler facts, write disciplines)."""
from __future__ import annotations

import ast
from dataclasses import dataclass, field
from fractions import Fraction
from typing import Dict, List, Optional, Tuple

from sa.loader import FuncInfo, AnalysisError
from sa.report import Cx
from sa.walker import Path, Event, WalkOptions
from sa.terms import (Term, Sym, Attr, Sub, App, Num, Const, Fresh, TupleT, Formula, ACmp, AIn, ATruthy, FNot, FAnd, FOr,
                      FConst, FTrue, FFalse, f_and, f_or, f_not, compare, implies, atoms_of, mk_cmp, eval_formula, subst_atoms)

CORE = 'ECAgent.Core.'
ENV = 'ECAgent.Environments.'
BATCH = 'ECAgent.Batching.'
COLL = 'ECAgent.Collectors.'
TAGS = 'ECAgent.Tags.'
DEC = 'ECAgent.Decode.'


def S(name):
    return Sym(name)


def A(base, *names):
    t = base if isinstance(base, Term) else Sym(base)
    for n in names:
        t = Attr(t, n)
    return t


def strip_versions(t):
    """Drop the container-version ('@v') and state-epoch ('@t') wrappers: guards and targets are compared against
    version-free expected forms."""
    from sa.terms import strip_epochs
    if t is None:
        return None
    return strip_epochs(t)


# ---------------------------------------------------------------------------------------------- R-ATOMIC
def shared_writes_before(cx: Cx, p: Path, upto: Event = None) -> List[str]:
    """Describe every write to non-fresh state that happens on path p before `upto` (default: its last event)."""
    out = []
    up_arms = dict(upto.data.get('arms', [])) if upto is not None else {}
    for e in p.events:
        if e is upto:
            break
        if any(k in up_arms and up_arms[k] != arm for k, arm in e.data.get('arms', [])):
            continue        # belongs to the other arm of a conditional expression: not on the raising path
        if e.kind == 'store' and e.data.get('shared'):
            out.append(f"{e.data.get('store')} on {e.data.get('loc') or e.data.get('target')!r} at line {e.line}")
        elif e.kind == 'call' and e.data.get('target_kind') == 'pkg' and not e.data.get('inlined'):
            if upto is not None and upto.kind == 'raise' and not upto.data.get('direct') and e.node is upto.node:
                continue      # the raising callee itself: its own writes-before-raise are in upto.data['callee_writes']
            ws = cx.effects.call_writes(e)
            if ws:
                w, chain = ws[0]
                out.append(f"call {e.data.get('callee_name')} at line {e.line} writes {w.loc} ({w.kind} at "
                           f"{w.where}, {len(ws)} write site(s) reachable)")
    return out


def _exception_class(cx: Cx, name: str):
    cs = [c for c in cx.prog.classes.values() if c.name == name]
    return cs[0] if len(cs) == 1 else None


def documented_base(cx: Cx, exc: str, documented) -> Optional[str]:
    """The documented error a package exception class stands for: itself, or the first documented name among its bases
    (`class OutOfBoundsError(IndexError)` is an index error)."""
    if exc in documented:
        return exc
    ci = _exception_class(cx, exc)
    if ci is None:
        return None
    for c in cx.prog.mro(ci):
        if c.name in documented:
            return c.name
        for b in c.bases:
            if isinstance(b, str) and b.split('.')[-1] in documented:
                return b.split('.')[-1]
    return None


def check_error_ctor_pure(cx: Cx, ci, doc: str = None) -> bool:
    """The constructor of a package error class only stores and formats its arguments: a call into the model (a helper that
    inspects the identifiers, an overridable method of the world) can fail itself, and then the operation ends in THAT error
    instead of the documented one."""
    import ast
    init = ci.methods.get('__init__')
    if not init:
        return True
    done = getattr(cx, '_ctor_checked', None)
    if done is None:
        done = cx._ctor_checked = set()
    if ci.qualname in done:
        return True
    done.add(ci.qualname)
    bad = None
    bodies = [init[0].node]
    seen_h = set()
    while bodies:
        body_ = bodies.pop()
        for n_ in ast.walk(body_):
            if isinstance(n_, ast.Call):
                f_ = n_.func
                is_super = isinstance(f_, ast.Attribute) and f_.attr == '__init__'
                is_fmt = isinstance(f_, ast.Name) and f_.id in ('str', 'repr', 'format', 'super', 'type') or \
                    (isinstance(f_, ast.Attribute) and f_.attr in ('format', 'join'))
                # a message built by a private helper of the error class itself (`Error._describe(x)`): the helper is held to the same rule
                own = None
                if isinstance(f_, ast.Attribute) and isinstance(f_.value, ast.Name) and f_.attr.startswith('_') and \
                        f_.value.id in (ci.name, 'self', 'cls') and f_.attr in ci.methods:
                    own = ci.methods[f_.attr][0]
                if own is None and isinstance(f_, ast.Name) and f_.id.startswith('_') and f_.id in ci.module.functions:
                    own = ci.module.functions[f_.id]            # ... or of the module (`_system_not_found_message(s_id)`)
                if own is not None:
                    if own.qualname not in seen_h:
                        seen_h.add(own.qualname)
                        bodies.append(own.node)
                    continue
                if not (is_super or is_fmt):
                    bad = bad or n_
    # a typed format specification ({x:d}, {x:.2f}, '%d' % x) fails for an argument of another type - the unknown NAME that the
    # module-level lookup reports through the same class - and the operation then ends in ValueError / TypeError
    spec = None
    for n_ in ast.walk(init[0].node):
        if isinstance(n_, ast.FormattedValue) and n_.format_spec is not None:
            txt = ''.join(v.value for v in n_.format_spec.values if isinstance(v, ast.Constant) and isinstance(v.value, str))
            if any(c in txt for c in 'dfeEgGxXobn%c'):
                spec = spec or n_
        elif isinstance(n_, ast.BinOp) and isinstance(n_.op, ast.Mod) and isinstance(n_.left, ast.Constant) and isinstance(n_.left.value, str) \
                and (any(('%' + c) in n_.left.value for c in 'dfeEgGxXoic') or not isinstance(n_.right, ast.Tuple)):
            # ('... %s ...' % arg with a bare argument fails when the argument is itself a tuple - a tuple identifier)
            spec = spec or n_
    if bad is None and spec is not None:
        cx.violation('R-PURE', init[0].qualname, 'error-constructor-only-stores-and-formats',
                     f"{init[0].qualname} formats an argument with a typed format specification ({ast.unparse(spec)[:60]}): built with an "
                     f"argument of another type (a name instead of an id) the constructor itself raises ValueError / TypeError and the "
                     f"documented {doc or ci.name} never reaches the caller", where=cx.where(init[0], spec.lineno))
        return False
    if bad is not None:
        cx.violation('R-PURE', init[0].qualname, 'error-constructor-only-stores-and-formats',
                     f"{init[0].qualname} calls {ast.unparse(bad.func)}(...): when that call fails (identifiers of another type, a world "
                     f"whose method answers in another shape) the operation ends in that error instead of the documented "
                     f"{doc or ci.name}", where=cx.where(init[0], bad.lineno))
        return False
    cx.ok('R-PURE', f"{ci.name}.__init__ only stores and formats its arguments", where=cx.where(init[0]), function=init[0].qualname)
    return True


def check_atomic(cx: Cx, fn_q: str, excs: List[str], rule='R-ATOMIC', unroll=1, must_have=True, axioms=None,
                 ignore_locs=()) -> Dict[str, int]:
    """On every CFG path of fn that ends in one of the tabled errors (raised directly or by a resolved callee), no
    write to shared state precedes the raise."""
    fn = cx.fn(fn_q)
    ps = cx.walker.paths(fn, WalkOptions(unroll=unroll, axioms=axioms))
    seen = {x: 0 for x in excs}
    for p in ps:
        if p.end != 'raise':
            continue
        last = p.last
        exc = last.data.get('exc')
        raised = exc
        exc = documented_base(cx, exc, seen) if isinstance(exc, str) else None
        if exc is None:
            continue
        seen[exc] += 1
        rci = _exception_class(cx, raised)
        if rci is not None:
            check_error_ctor_pure(cx, rci, exc)
        writes = shared_writes_before(cx, p, last)
        for w in last.data.get('callee_writes', []):
            writes.append(f"(inside callee) {w.data.get('store')} on {w.data.get('loc')} at line {w.line}")
        writes = [w for w in writes if not any(str(l) in w for l in ignore_locs)]
        via = '->'.join(last.data.get('via', ())) or 'direct'
        inst = f"{fn.qualname} raises {exc} ({via}) at line {last.line}"
        if writes:
            cx.violation(rule, fn.qualname, f"{exc}-raised-after-write",
                         f"{fn.qualname}: the rejected operation is not atomic - before raising {exc} ({via}) the path "
                         f"already performed: {writes[0]}", where=cx.where(fn, last.line), path=p.lines(),
                         writes=writes, condition=repr(p.cond))
        else:
            cx.ok(rule, inst, where=cx.where(fn, last.line), function=fn.qualname, condition=repr(p.cond),
                  path=p.lines(), writes_before=0)
    for exc, n in seen.items():
        if n == 0 and must_have:
            cx.inconclusive(rule, f"{fn.qualname} raises {exc}",
                            f"no CFG path of {fn.qualname} ends in the tabled documented error {exc}: the table row no "
                            f"longer describes the tree", where=cx.where(fn), function=fn.qualname)
    return seen


# ---------------------------------------------------------------------------------------------- R-FWD
def super_init_bindings(cx: Cx, ctor: FuncInfo) -> Optional[Tuple[FuncInfo, Dict[str, Term], Event]]:
    """Binding of the parent's __init__ parameters at the super().__init__ call of `ctor` (None if absent)."""
    ps = cx.walker.paths(ctor, WalkOptions(unroll=1, callee_raises=False))
    found = None
    for p in ps:
        if p.end == 'raise':
            continue
        calls = [e for e in p.events if e.kind == 'call' and e.data.get('via') == 'super'
                 and e.data.get('targets') and e.data['targets'][0].name == '__init__']
        if not calls:
            return None
        e = calls[0]
        callee = e.data['targets'][0]
        from sa.walker import _Ctx, State
        c = _Ctx(cx.walker, ctor, WalkOptions())
        b = c.bind_args(callee, e.data.get('recv'), list(e.data.get('args', ())), dict(e.data.get('kw', ())), State(), True)
        if b is None:
            return None
        if found is None:
            found = (callee, b, e)
    return found


def check_forwarding_chain(cx: Cx, cls_q: str, names: List[str], final_q: str, rule='R-FWD', renames=None):
    """Constructor parameters `names` of class cls_q reach the same-named parameters of final_q through the
    super().__init__ chain."""
    renames = renames or {}
    ci = cx.prog.cls(cls_q)
    ms = cx.prog.lookup_method(ci, '__init__')
    if not ms:
        cx.inconclusive(rule, f"{cls_q}.__init__", "constructor not found")
        return
    cur = ms[0]
    current = {n: Sym(n) for n in names if n in cur.params + cur.kwonly}
    missing = [n for n in names if n not in current]
    if missing:
        cx.violation(rule, cur.qualname, f"no-parameter-{'-'.join(missing)}",
                     f"{cur.qualname} no longer accepts {missing}", where=cx.where(cur))
        return
    hops = 0
    while cur.qualname != final_q:
        r = super_init_bindings(cx, cur)
        if r is None:
            cx.violation(rule, cur.qualname, 'no-super-init',
                         f"{cur.qualname} does not reach {final_q} through super().__init__ on its success path",
                         where=cx.where(cur))
            return
        callee, b, ev = r
        nxt = {}
        for n in names:
            got = b.get(n)
            # express got in terms of the original constructor's parameters
            want = current[n]
            mapped = got
            if got is not None:
                from sa.terms import subst_term
                mapped = subst_term(got, {Sym(k): v for k, v in current.items()})
            if mapped != Sym(n):
                cx.violation(rule, cur.qualname, f"{n}-not-forwarded",
                             f"{cur.qualname}: parameter '{n}' of {callee.qualname} receives {mapped!r}, not the "
                             f"constructor's own '{n}'", where=cx.where(cur, ev.line), got=repr(mapped))
                return
            nxt[n] = mapped
        current = nxt
        cur = callee
        hops += 1
        if hops > 6:
            cx.inconclusive(rule, cls_q, "super().__init__ chain too long")
            return
    cx.ok(rule, f"{cls_q}.__init__ forwards {names} to {final_q}", where=cx.where(ms[0]), function=ms[0].qualname,
          hops=hops)


def const_default(cx: Cx, fn: FuncInfo, param: str):
    d = fn.param_default(param)
    if d is None:
        return None
    from sa.walker import _Ctx, State
    c = _Ctx(cx.walker, fn, WalkOptions())
    c.class_scope = True        # defaults are evaluated in the scope of the class body
    return c.ev(d, State())


# ---------------------------------------------------------------------------------------------- scheduler facts
@dataclass
class ExecSite:
    path: Path
    ev: Event                      # the call event sys.execute()
    loop_id: int
    iter_ev: Optional[Event]       # the 'iter' event of the iteration the call happens in
    loop_ev: Optional[Event]       # the 'loop' event
    conds: List[Event]             # cond events inside this iteration before the call
    recv: Term


def is_system_execute_call(cx: Cx, e: Event) -> bool:
    if e.kind != 'call':
        return False
    sysc = cx.prog.cls(CORE + 'System')
    for t in e.data.get('targets', []):
        if t.name == 'execute' and t.cls is not None and cx.prog.is_subclass(t.cls, sysc):
            return True
    # an `.execute()` on a receiver whose type the nominal inference cannot see (e.g. an element of a cached snapshot
    # held in an untyped field) inside the scheduler is still the hook call
    if e.data.get('target_kind') == 'unknown' and e.data.get('callee_name') == '.execute' and not e.data.get('args'):
        return True
    return False


def execute_reachers(cx: Cx) -> frozenset:
    """Package functions from which a System.execute call site is reachable without passing through an open-world hook
    (the scheduler and whatever helpers it was split into).  These are walked inline by the scheduler rules, so that
    extracting or merging helper methods does not change what is analysed."""
    direct = set()
    for k, calls in cx.effects.calls.items():
        if k.startswith(CORE + 'SystemManager.') and any(is_system_execute_call(cx, c) for c in calls):
            direct.add(k)
        elif any(is_system_execute_call(cx, c) and c.data.get('targets') for c in calls):
            direct.add(k)
    sysc = cx.prog.cls(CORE + 'System')
    hooks = {cx.effects.key(f) for f in cx.prog.all_functions if f.cls is not None and cx.prog.is_subclass(f.cls, sysc)}
    reach = set(direct)
    changed = True
    while changed:
        changed = False
        for k, cs in cx.effects.callees.items():
            if k in reach or k in hooks:
                continue
            if any(c in reach and c not in hooks for c in cs):
                reach.add(k)
                changed = True
    return frozenset(q for q in reach if '#' not in q)


def scheduler_paths(cx: Cx, unroll=2, inline=True, root: str = None) -> Tuple[FuncInfo, List[Path]]:
    fn = cx.fn(root or (CORE + 'SystemManager.execute_systems'))
    k = (execute_reachers(cx) - {fn.qualname}) | {'<private>'}
    ps = cx.walker.paths(fn, WalkOptions(unroll=unroll, callee_raises=False, inline_full=k, max_paths=60000))
    return fn, ps


def exec_sites(cx: Cx, p: Path) -> List[ExecSite]:
    out = []
    evs = p.events
    for i, e in enumerate(evs):
        if not is_system_execute_call(cx, e):
            continue
        if not e.loops:
            out.append(ExecSite(p, e, 0, None, None, [], e.data.get('recv')))
            continue
        lid = e.loops[-1]
        # the iteration's 'iter' event: last iter event of loop lid before i
        it = None
        j = i
        while j >= 0:
            if evs[j].kind == 'iter' and evs[j].node.lineno == lid:
                it = evs[j]
                break
            j -= 1
        conds = [x for x in evs[j + 1:i] if x.kind == 'cond']
        loop_ev = None
        for x in evs[:j + 1]:
            if x.kind == 'loop' and x.node.lineno == lid:
                loop_ev = x
        out.append(ExecSite(p, e, lid, it, loop_ev, conds, e.data.get('recv')))
    return out


def status_atom_kind(cx: Cx, f: Formula) -> Optional[str]:
    """'running' if f (an atom over `<model>._status`) is true exactly for ModelStatus.RUNNING among the declared
    members, 'not-running' for its complement."""
    if isinstance(f, FNot):
        k = status_atom_kind(cx, f.f)
        return {'running': 'not-running', 'not-running': 'running'}.get(k)
    if not isinstance(f, ACmp):
        return None
    b = f.base
    raw = b
    if isinstance(b, App) and b.fn == '@t':
        b = b.args[0]
    if not (isinstance(b, Attr) and b.name == '_status'):
        return None
    b = raw
    ms = cx.prog.cls(CORE + 'ModelStatus')
    mem = cx.prog.enum_members(ms)
    if 'RUNNING' not in mem or 'COMPLETE' not in mem:
        raise AnalysisError("ModelStatus no longer declares RUNNING and COMPLETE")
    vals = {name: eval_formula(f, {b: Fraction(v)}, {}) for name, v in mem.items() if isinstance(v, int)}
    if vals['RUNNING'] and not any(v for n, v in vals.items() if n != 'RUNNING'):
        return 'running'
    if not vals['RUNNING'] and all(v for n, v in vals.items() if n != 'RUNNING'):
        return 'not-running'
    return 'other'


def queue_term(self_name='self'):
    return Attr(Sym(self_name), 'execution_queue')


def classify_iterable(it: Term, q: Term) -> str:
    """How the scheduler's loop iterable relates to the queue q: live | copy | reversed | sorted | set | other."""
    it = strip_versions(it)
    if it == q:
        return 'live'
    if isinstance(q, Attr):
        reg = Attr(q.base, 'systems')
        cur = it
        for _ in range(3):
            if isinstance(cur, Fresh) and cur.kind in ('call:list', 'call:tuple', 'copy') and cur.items:
                cur = strip_versions(cur.items[0])
            elif isinstance(cur, App) and cur.fn in ('.values', '.keys', '.items') and cur.args:
                cur = strip_versions(cur.args[0])
        if cur == reg and it != q:
            return 'registry'     # the id -> system map: registration order
    if isinstance(it, Attr) and isinstance(q, Attr) and it.base == q.base and it.name != q.name:
        return 'stored'       # another field of the scheduler: a snapshot kept across calls
    if isinstance(it, Fresh):
        if it.kind in ('call:list', 'call:tuple', 'copy') and it.items and strip_versions(it.items[0]) == q:
            return 'copy'
        if it.kind == 'list' and len(it.items) == 1 and isinstance(it.items[0], App) and it.items[0].fn == '*' \
                and strip_versions(it.items[0].args[0]) == q:
            return 'copy'
        if it.kind in ('call:sorted',):
            return 'sorted'
        if it.kind in ('call:set', 'call:frozenset', 'set', 'setcomp'):
            return 'set'
        if it.kind == 'listcomp' and it.detail is not None and len(it.detail.gens) == 1:
            tgt, src, conds = it.detail.gens[0]
            if strip_versions(src) == q and it.detail.elt == tgt and not conds:
                return 'copy'
    if isinstance(it, App):
        if it.fn == '.copy' and strip_versions(it.args[0]) == q:
            return 'copy'
        if it.fn == 'reversed':
            return 'reversed'
        if it.fn in ('sorted',):
            return 'sorted'
        if it.fn == 'slice':
            return 'other'
    return 'other'


# ---------------------------------------------------------------------------------------------- keyed containers
def _stores_on(p: Path, loc) -> List[Event]:
    return [e for e in p.events if e.kind == 'store' and e.data.get('loc') == loc]


def _rejects_only(cx: Cx, fn, p, exc: str, must: Formula, what: str, rule: str) -> None:
    """A path that rejects the operation with the documented error `exc` has established `must` (the key is taken / unknown):
    a legal operation is never refused for another reason."""
    if p.end == 'raise' and p.last.data.get('direct') and documented_base(cx, p.last.data.get('exc'), {exc}) == exc and \
            implies(p.cond, must) is not None:
        cx.violation(rule, fn.qualname, f"{exc}-only-when-{what.replace(' ', '-')}",
                     f"{fn.qualname} rejects the operation with {exc} on a path [{p.cond!r}] that has not established that {what}: a legal "
                     f"operation is refused", where=cx.where(fn, p.last.line), path=p.lines())


def check_keyed_insert(cx: Cx, fn_q: str, loc, container: Term, key: Term, value: Term, rule='R-DISC', what=None, unroll=1, dup_exc=None):
    """Every non-raising CFG path of fn stores container[key] = value exactly once, under `key not in container`; with dup_exc,
    that error is raised only when the key is taken."""
    fn = cx.fn(fn_q)
    what = what or f"{loc[1]}[{key!r}] = {value!r}"
    n = 0
    for p in cx.walker.paths(fn, WalkOptions(unroll=unroll)):
        if p.end == 'raise':
            if dup_exc:
                _rejects_only(cx, fn, p, dup_exc, AIn(key, container), 'the key is taken', rule)
            continue
        n += 1
        st = _stores_on(p, loc)
        good = [e for e in st if e.data.get('store') == 'setitem' and strip_versions(e.data.get('target')) == container
                and e.data.get('key') == key and e.data.get('value') == value]
        if len(st) != 1 or len(good) != 1:
            cx.violation(rule, fn.qualname, f"stores-{loc[1]}-once-keyed",
                         f"{fn.qualname}: a success path must perform exactly the store {what}; found "
                         f"{[(e.data.get('store'), repr(e.data.get('key')), repr(e.data.get('value'))) for e in st]}",
                         where=cx.where(fn, st[0].line if st else None), path=p.lines())
            continue
        guard = f_not(AIn(key, container))
        if implies(p.cond, guard) is not None:
            cx.violation(rule, fn.qualname, f"{loc[1]}-store-dominated-by-absence-test",
                         f"{fn.qualname}: the store {what} is not dominated by the test that the key is absent "
                         f"(path condition {p.cond!r}): an existing entry can be overwritten", where=cx.where(fn, good[0].line),
                         path=p.lines())
            continue
        cx.ok(rule, f"{fn.qualname}: {what} exactly once under absence test", where=cx.where(fn, good[0].line),
              function=fn.qualname, path=p.lines())
    if n == 0:
        cx.inconclusive(rule, fn.qualname, 'no success path found', where=cx.where(fn), function=fn.qualname)


def check_keyed_delete(cx: Cx, fn_q: str, loc, container: Term, key: Term, rule='R-DISC', unroll=1, missing_exc=None):
    """Every non-raising CFG path of fn deletes container[key] exactly once, under `key in container`; with missing_exc, that
    error is raised only when the key is unknown."""
    fn = cx.fn(fn_q)
    n = 0
    for p in cx.walker.paths(fn, WalkOptions(unroll=unroll)):
        if p.end == 'raise':
            if missing_exc:
                _rejects_only(cx, fn, p, missing_exc, f_not(AIn(key, container)), 'the key is unknown', rule)
            continue
        n += 1
        st = _stores_on(p, loc)
        good = [e for e in st if e.data.get('store') in ('delitem', 'pop') and strip_versions(e.data.get('target')) == container
                and e.data.get('key') == key]
        if len(st) != 1 or len(good) != 1:
            cx.violation(rule, fn.qualname, f"deletes-{loc[1]}-entry-once",
                         f"{fn.qualname}: a success path must delete exactly {loc[1]}[{key!r}]; found "
                         f"{[(e.data.get('store'), repr(e.data.get('key'))) for e in st]}",
                         where=cx.where(fn, st[0].line if st else None), path=p.lines())
            continue
        if implies(p.cond, AIn(key, container)) is not None:
            cx.violation(rule, fn.qualname, f"{loc[1]}-delete-dominated-by-presence-test",
                         f"{fn.qualname}: the delete of {loc[1]}[{key!r}] is not dominated by the presence test",
                         where=cx.where(fn, good[0].line), path=p.lines())
            continue
        cx.ok(rule, f"{fn.qualname}: delete {loc[1]}[{key!r}] exactly once under presence test",
              where=cx.where(fn, good[0].line), function=fn.qualname, path=p.lines())
    if n == 0:
        cx.inconclusive(rule, fn.qualname, 'no success path found', where=cx.where(fn), function=fn.qualname)


def restrict_term(t: Term, F: Formula) -> Term:
    """The value of t on executions that satisfy F: conditional terms whose condition F decides are replaced by the selected
    arm, d.get(k) by the entry / the default when F decides the membership."""
    from sa.terms import IfT
    t0 = strip_versions(t) if t is not None else t
    for _ in range(6):
        if isinstance(t0, IfT):
            c = strip_versions(t0.cond)
            if implies(F, c) is None:
                t0 = strip_versions(t0.a)
                continue
            if implies(F, f_not(c)) is None:
                t0 = strip_versions(t0.b)
                continue
        if isinstance(t0, App) and t0.fn == '.get' and len(t0.args) in (2, 3) and not t0.kw:
            m = AIn(t0.args[1], t0.args[0])
            if implies(F, m) is None:
                t0 = Sub(t0.args[0], t0.args[1])
                continue
            if implies(F, f_not(m)) is None:
                t0 = t0.args[2] if len(t0.args) == 3 else Const(None)
                continue
        break
    return t0


def check_lookup(cx: Cx, fn_q: str, container: Term, key: Term, exc: str, throw: str = 'throw_error', rule='R-GUARD'):
    """get-style accessor: present -> container[key]; absent and throw -> exc; absent and not throw -> None.  Every path is
    examined in each of the three cases it can occur in (its own condition need not name the case: `return d[k] if k in d
    else None` is one path that serves two)."""
    fn = cx.fn(fn_q)
    present = AIn(key, container)
    t = ATruthy(Sym(throw))
    cases = [('present', present), ('absent-throw', f_and(f_not(present), t)), ('absent-quiet', f_and(f_not(present), f_not(t)))]
    ok = True
    seen = set()
    from sa.terms import subst_formula, subst_term, subst_atoms, AIs, FTrue as _FT, FFalse as _FF
    gets = [App('.get', (container, key)), App('.get', (container, key, Const(None)))]

    def in_case(x, cname, formula=True):
        """`container.get(key)` read in the case at hand: the entry when the key is present, None when it is absent."""
        rep = Sub(container, key) if cname == 'present' else Const(None)
        mp = {g: rep for g in gets}
        if not formula:
            return subst_term(x, mp) if x is not None and not isinstance(x, str) else x
        y = subst_formula(x, mp)
        return subst_atoms(y, lambda a: (_FT if isinstance(a, AIs) and a.a == Const(None) and a.b == Const(None) else None))
    for p in cx.walker.paths(fn, WalkOptions(unroll=1)):
        c0 = strip_versions(p.cond)
        for cname, case in cases:
            c = in_case(c0, cname)
            if implies(c, f_not(case)) is None or implies(f_and(c, case), _FF) is None:
                continue            # this path cannot occur in this case
            if cname == 'absent-throw' and implies(c, f_not(present)) is not None and implies(c, present) is None:
                continue
            F = f_and(c, case)
            where = cx.where(fn, p.last.line if p.last else None)
            if cname == 'present':
                v = restrict_term(in_case(strip_versions(p.last.data.get('value')), cname, False), F) if p.end == 'return' else None
                if p.end == 'return' and isinstance(v, Sub) and strip_versions(v.base) == container and v.index == key:
                    seen.add(cname)
                else:
                    cx.violation(rule, fn.qualname, 'present-returns-the-entry',
                                 f"{fn.qualname}: with the key present {'returns ' + repr(v) if p.end == 'return' else 'ends in ' + p.end}, "
                                 f"not the entry for the key", where=where)
                    ok = False
            elif cname == 'absent-throw':
                if p.end == 'raise' and p.last.data.get('exc') == exc:
                    seen.add(cname)
                else:
                    cx.violation(rule, fn.qualname, f"absent-and-strict-raises-{exc}",
                                 f"{fn.qualname}: absent key with {throw} set must raise {exc} (path ends in {p.end})", where=where)
                    ok = False
            else:
                v = restrict_term(in_case(strip_versions(p.last.data.get('value')), cname, False), F) if p.end == 'return' else \
                    (Const(None) if p.end == 'fall' else '?')
                if v == Const(None):
                    seen.add(cname)
                else:
                    cx.violation(rule, fn.qualname, 'absent-and-lenient-returns-None',
                                 f"{fn.qualname}: absent key without {throw} must return None, found {v!r} / {p.end}", where=where)
                    ok = False
    if ok and seen == {'present', 'absent-throw', 'absent-quiet'}:
        cx.ok(rule, f"{fn.qualname}: entry / {exc} / None on the three branches", where=cx.where(fn), function=fn.qualname)
    elif ok:
        cx.inconclusive(rule, fn.qualname, f"lookup branches found: {sorted(seen)}", where=cx.where(fn), function=fn.qualname)


def backing_field(cx: Cx, cls_q: str, prop: str, default: str) -> str:
    """The private field behind the documented view property `prop` of class `cls_q` (its getter is `return self.<field>`); the
    name this analysis was written against when the getter has another shape."""
    ci = cx.prog.cls(cls_q)
    for m in cx.prog.lookup_method(ci, prop):
        if not m.is_property or not m.params:
            continue
        body = [s for s in m.node.body if not (isinstance(s, ast.Expr) and isinstance(s.value, ast.Constant))]
        if len(body) == 1 and isinstance(body[0], ast.Return) and isinstance(body[0].value, ast.Attribute) \
                and isinstance(body[0].value.value, ast.Name) and body[0].value.value.id == m.params[0]:
            f = body[0].value.attr
            STATE_FIELDS.add(f)
            REGISTRY_FIELDS.add((cls_q, f)) if prop == 'components' else None
            return f
    return default


# ---------------------------------------------------------------------------------------------- purity / iteration
STATE_FIELDS = {'agents', 'components', 'cells', 'component_pools', 'systems', 'execution_queue', 'timestep', '_status', 'records',
                '_components', '_tag', 'tag', '_tag_names', '_tag_counter', '__dict__', '_parameters', '_index_offset', 'width', 'height',
                'depth', 'wrap_env', 'x', 'y', 'z', 'priority', 'frequency', 'start', 'end', 'last_write', 'random', 'model', 'environment',
                'id', 'value', 'table'}


def check_pure(cx: Cx, fn_q: str, rule='R-PURE'):
    """An observer writes no model state (transitively).  Writes to a private field that is not part of the tabled model
    state (a memo / cache) are tolerated here: whether such a cache can hand out stale or aliased answers is decided by
    the rule that reconstructs the answer from the live state and by check_result_fresh."""
    fn = cx.fn(fn_q)
    ws = cx.effects.trans_writes(fn)
    bad = [(w, ch) for w, ch in ws if not (w.loc and w.loc[1].startswith('_') and w.loc[1] not in STATE_FIELDS)]
    tolerated = sorted({w.loc[1] for w, ch in ws if (w, ch) not in bad})
    if bad:
        w, chain = bad[0]
        cx.violation(rule, fn.qualname, 'observer-writes-shared-state',
                     f"{fn.qualname} is an observer but can write {w.loc} ({w.kind} at {w.where} via {' -> '.join(chain)})",
                     where=cx.where(fn))
    else:
        cx.ok(rule, f"{fn.qualname} writes no model state (transitively)" + (f"; private cache fields {tolerated}" if tolerated else ''),
              where=cx.where(fn), function=fn.qualname)


def iteration_sources(p: Path) -> List[Tuple[Term, int]]:
    """All (iterable term, line) pairs of loops and comprehensions evaluated on path p."""
    out = []

    def visit(t):
        if isinstance(t, Fresh):
            if t.detail is not None:
                for tgt, it, conds in t.detail.gens:
                    out.append((it, t.site))
                    visit(it)
                visit(t.detail.elt)
            for x in t.items:
                visit(x)
        elif isinstance(t, App):
            for x in t.args:
                visit(x)
        elif isinstance(t, TupleT):
            for x in t.items:
                visit(x)
    for e in p.events:
        if e.kind == 'loop' and e.data.get('iter') is not None:
            out.append((e.data['iter'], e.line))
            visit(e.data['iter'])
        elif e.kind in ('assign', 'return'):
            v = e.data.get('value')
            if v is not None:
                visit(v)
        elif e.kind == 'store':
            v = e.data.get('value')
            if v is not None:
                visit(v)
    return out


def order_class(it: Term, base: Term) -> str:
    """How an iterable relates to the insertion-ordered container `base`: 'inorder' | 'reordered' | 'unrelated'."""
    it = strip_versions(it)
    if it == base:
        return 'inorder'
    if isinstance(it, App) and it.fn in ('.values', '.keys', '.items') and strip_versions(it.args[0]) == base:
        return 'inorder'
    if isinstance(it, App) and it.fn in ('enumerate',) and it.args:
        return order_class(it.args[0], base)
    if isinstance(it, Fresh) and it.kind in ('call:list', 'call:tuple', 'copy') and it.items:
        return order_class(it.items[0], base)
    if isinstance(it, App) and it.fn == 'reversed' and it.args and order_class(it.args[0], base) != 'unrelated':
        return 'reordered'
    if isinstance(it, Fresh) and it.kind in ('call:sorted', 'call:set', 'call:frozenset') and it.items and \
            order_class(it.items[0], base) != 'unrelated':
        return 'reordered'
    if isinstance(it, Fresh) and it.kind in ('listcomp', 'gen') and it.detail is not None and it.detail.gens:
        return order_class(it.detail.gens[0][1], base)
    if isinstance(it, App) and it.fn == 'slice' and it.args and order_class(it.args[0], base) != 'unrelated':
        return 'reordered'
    return 'unrelated'


def _contains(t, needle) -> bool:
    if t is needle or t == needle:
        return True
    if isinstance(t, (Attr,)):
        return _contains(t.base, needle)
    if isinstance(t, Sub):
        return _contains(t.base, needle) or _contains(t.index, needle)
    if isinstance(t, App):
        return any(_contains(a, needle) for a in t.args) or any(_contains(v, needle) for _, v in t.kw)
    if isinstance(t, TupleT):
        return any(_contains(a, needle) for a in t.items)
    if isinstance(t, Fresh) and t is not needle:
        return any(_contains(a, needle) for a in t.items)
    return False


def check_result_fresh(cx: Cx, fn_q: str, rule='R-FRESH', unroll=1):
    """The object a query returns is allocated in the call and is not also stored into shared state (no memo / cache
    hands the caller the very list that later answers are served from)."""
    fn = cx.fn(fn_q)
    n = 0
    try:
        paths = cx.walker.paths(fn, WalkOptions(unroll=unroll, callee_raises=False))
    except AnalysisError:
        paths = cx.walker.paths(fn, WalkOptions(unroll=0, callee_raises=False))
    for p in paths:
        if p.end != 'return':
            continue
        R = p.last.data.get('value')
        n += 1
        if not isinstance(R, Fresh):
            cx.violation(rule, fn.qualname, 'returns-a-fresh-object',
                         f"{fn.qualname} returns {R!r}: not an object allocated in this call; the caller's edits and later calls can "
                         f"interfere", where=cx.where(fn, p.last.line), path=p.lines())
            return
        for e in p.events:
            if e.kind == 'store' and e.data.get('shared'):
                vals = [e.data.get('value'), e.data.get('key')] + list(e.data.get('args') or ())
                if any(v is not None and _contains(v, R) for v in vals):
                    cx.violation(rule, fn.qualname, 'result-not-retained-in-shared-state',
                                 f"{fn.qualname} hands the caller the very object it also stores in {e.data.get('loc') or e.data.get('target')!r} "
                                 f"(line {e.line}): whatever the caller does to the answer changes later answers", where=cx.where(fn, e.line),
                                 path=p.lines())
                    return
    if n:
        cx.ok(rule, f"{fn.qualname}: result allocated in the call and not retained in shared state ({n} returning paths)", where=cx.where(fn),
              function=fn.qualname)


# ---------------------------------------------------------------------------------------------- list pipelines
@dataclass
class ListFacts:
    """How a returned/stored list is derived from a base container, independent of whether each stage is written as a
    comprehension, as a loop with conditional appends, or as list(...) of another stage."""
    ok: bool
    err: str = ''
    base_src: Term = None          # the iterable of the innermost stage (e.g. self.agents or self.agents.values())
    base_var: Term = None          # its iteration variable
    elem: Term = None              # what the final list holds, expressed over base_var
    cond: Formula = None           # membership condition, expressed over base_var
    stages: int = 0
    forms: Tuple[str, ...] = ()
    key: Term = None               # for dictionaries: the key, expressed over base_var


def loop_key(node):
    """A loop of the function, or of a generator expanded in place at one call site."""
    site = getattr(node, '_exp_site', None)
    return node.lineno if site is None else (node.lineno, site)


def _loop_stage_table(paths: List[Path]):
    """For every `for` loop that appends to a list allocated in the activation: the loop variable, the appended element,
    and the disjunction over all paths of the in-iteration conditions under which the append happens."""
    table = {}
    for p in paths:
        evs = p.events
        for lp in [e for e in evs if e.kind == 'loop' and e.data.get('iter') is not None]:
            iters = [e for e in evs if e.kind == 'iter' and e.node is lp.node]
            if not iters:
                continue
            ends = [e for e in evs if e.kind == 'endloop' and e.node is lp.node]
            i0 = evs.index(iters[0])
            i1 = evs.index(iters[1]) if len(iters) > 1 else (evs.index(ends[-1]) if ends else len(evs))
            seg = evs[i0:i1]
            depth = len(iters[0].loops)
            # tests of inner loops are not conditions of the append: an inner loop that terminates is always left
            conds = [e.data['formula'] for e in seg if e.kind == 'cond' and len(e.loops) == depth and not e.data.get('loop_test')]
            apps = [e for e in seg if e.kind == 'store' and e.data.get('store') in ('append', 'setitem') and
                    isinstance(strip_versions(e.data.get('target')), Fresh) and len(e.loops) == depth]
            early = any(e.data.get('how') != 'exhausted' for e in ends)
            row = table.setdefault(loop_key(lp.node), {'var': None, 'info': iters[0].data['info'], 'src': lp.data.get('iter'), 'appended': {},
                                                    'dropped': [], 'early': False, 'multi': False})
            row['early'] = row['early'] or early
            if len(apps) > 1:
                row['multi'] = True
            if apps:
                tgt = strip_versions(apps[0].data.get('target'))
                key = (tgt.kind, tgt.site)
                if apps[0].data.get('store') == 'setitem':
                    slot = row['appended'].setdefault(key, {'elem': apps[0].data.get('value'), 'conds': [], 'key': apps[0].data.get('key')})
                else:
                    slot = row['appended'].setdefault(key, {'elem': apps[0].data.get('args', (None,))[0], 'conds': []})
                slot['conds'].append(f_and(*conds))
            else:
                row['dropped'].append(f_and(*conds))
    return table


def list_facts(paths: List[Path], p: Path, L: Term, is_base, _table=None, _depth=0) -> ListFacts:
    """Resolve list L (as it is on path p) back to a base container recognised by is_base(src) -> bool."""
    table = _table if _table is not None else _loop_stage_table(paths)
    if _depth > 6:
        return ListFacts(False, 'list pipeline too deep')
    L = strip_versions(L)
    if isinstance(L, Fresh) and L.kind in ('call:list', 'copy', 'call:tuple') and L.items:
        inner = L.items[0]
        if is_base(inner):
            # list(base): every element, in order
            v = Sym('<elem>')
            return ListFacts(True, '', inner, v, v, FTrue, 1, ('copy',))
        r = list_facts(paths, p, inner, is_base, table, _depth + 1)
        return ListFacts(r.ok, r.err, r.base_src, r.base_var, r.elem, r.cond, r.stages + 1, r.forms + ('copy',)) if r.ok else r
    stage = None
    skey = None
    if isinstance(L, Fresh) and L.kind in ('listcomp', 'gen', 'dictcomp') and L.detail is not None and len(L.detail.gens) == 1:
        tgt, src, conds = L.detail.gens[0]
        stage = ('comp', tgt, src, f_and(*conds), L.detail.elt)
        skey = L.detail.key
    elif isinstance(L, Fresh) and L.kind in ('list', 'call:list', 'dict', 'call:dict') and not L.items:
        rows = [(ln, r) for ln, r in table.items() if (L.kind, L.site) in r['appended']]
        on_path = {loop_key(e.node) for e in p.events if e.kind == 'loop'}
        rows = [(ln, r) for ln, r in rows if ln in on_path]
        if not rows:
            # never filled on this path: an empty list
            return ListFacts(True, '', None, None, None, FFalse, 0, ('empty',))
        if len(rows) > 1:
            return ListFacts(False, 'the list is filled by more than one loop on this path')
        ln, r = rows[0]
        if r['early']:
            return ListFacts(False, 'the loop that fills the list can be left early')
        if r['multi']:
            return ListFacts(False, 'an iteration appends more than once')
        info = r['info']
        slot = r['appended'][(L.kind, L.site)]
        if info.get('kind') == 'items':
            var = TupleT((info['index'], Sub(info['seq'], info['index'])))
        elif info.get('kind') in ('enumerate', 'range'):
            var = info.get('index')
        else:
            var = info.get('var')
        here = [e for e in p.events if e.kind == 'loop' and loop_key(e.node) == ln]
        src_here = here[0].data.get('iter') if here else r['src']
        stage = ('loop', var, src_here, f_or(*slot['conds']), slot['elem'])
        skey = slot.get('key')
        if (skey is not None) != L.kind.endswith('dict'):
            return ListFacts(False, 'a list is filled by item assignment / a dictionary by append')
    else:
        return ListFacts(False, f"{L!r} is neither a comprehension, a list filled by a loop, nor a copy of one")
    form, var, src, cond, elem = stage
    src_s = strip_versions(src)
    if is_base(src_s):
        return ListFacts(True, '', src_s, var, elem, cond, 1, (form,), skey)
    r = list_facts(paths, p, src_s, is_base, table, _depth + 1)
    if not r.ok:
        return r
    if r.elem is None:
        return ListFacts(True, '', r.base_src, r.base_var, None, FFalse, r.stages + 1, r.forms + (form,))
    from sa.terms import subst_term, subst_formula
    mp = {var: r.elem} if var is not None else {}
    return ListFacts(True, '', r.base_src, r.base_var, subst_term(elem, mp), f_and(r.cond, subst_formula(cond, mp)), r.stages + 1,
                     r.forms + (form,), subst_term(skey, mp) if skey is not None else None)


# ---------------------------------------------------------------------------------------------- overrides
def check_overrides_forward(cx: Cx, cls_q: str, names: List[str], rule='R-FWD'):
    """A rule verified on cls_q.<name> speaks for the package's subclasses only if their overrides of <name> do nothing but
    forward: every non-raising path calls super().<name> exactly once with the override's own parameters, unchanged and in
    place, and returns that result."""
    base = cx.prog.cls(cls_q)
    n = 0
    for sub in cx.prog.subclasses(base, strict=True):
        for name in names:
            if name not in sub.methods:
                continue
            fn = sub.methods[name][0]
            n += 1
            okf = True
            # the override accepts what the verified method accepts: same positional parameters (a narrowed signature -
            # GridWorld.get_cell(x, y) - makes get_cell(x, y, 0) a TypeError)
            bfn = next((m[0] for c0 in cx.prog.mro(sub)[1:] for m in [getattr(c0, 'methods', {}).get(name)] if m), None)
            if bfn is not None and not fn.vararg and len(fn.params) < len(bfn.params):
                okf = False
                cx.violation(rule, fn.qualname, f"override-of-{name}-only-forwards",
                             f"{fn.qualname} overrides {cls_q.rsplit('.', 1)[-1]}.{name} with fewer positional parameters ({fn.params[1:]} "
                             f"instead of {bfn.params[1:]}): calls the verified {name} accepts raise TypeError for {sub.name}",
                             where=cx.where(fn))
                continue
            for p in cx.walker.paths(fn, WalkOptions(unroll=1, callee_raises=False)):
                if p.end == 'raise':
                    if p.last.data.get('direct') and okf:
                        # a refusal of its own: inputs the verified method accepts (an int subclass, ...) no longer get there
                        okf = False
                        cx.violation(rule, fn.qualname, f"override-of-{name}-only-forwards",
                                     f"{fn.qualname} overrides {cls_q.rsplit('.', 1)[-1]}.{name}, whose behaviour the rules verify, and raises "
                                     f"{p.last.data.get('exc')} itself under [{p.cond!r}]: calls the verified {name} accepts are refused for "
                                     f"{sub.name}", where=cx.where(fn, p.last.line), path=p.lines())
                        break
                    continue
                calls = [e for e in p.events if e.kind == 'call' and e.data.get('via') == 'super' and e.data.get('targets')
                         and e.data['targets'][0].name == name]
                good = False
                if len(calls) == 1:
                    callee = calls[0].data['targets'][0]
                    from sa.walker import _Ctx, State
                    b = _Ctx(cx.walker, fn, WalkOptions()).bind_args(callee, calls[0].data.get('recv'), list(calls[0].data.get('args', ())),
                                                                    dict(calls[0].data.get('kw', ())), State(), True)
                    if b is not None:
                        own = set(fn.params[1:] + fn.kwonly)
                        good = all(b.get(q) == Sym(q) for q in callee.params[1:] if q in own) and \
                            all(b.get(q) in (Sym(q), None) or q not in own for q in callee.kwonly)
                        if fn.vararg and callee.vararg:
                            good = good and b.get(callee.vararg) == Sym('*' + fn.vararg)
                    rv = p.last.data.get('value') if p.end == 'return' else Const(None)
                    if good and p.end == 'return' and rv != calls[0].data.get('result') and rv != Const(None):
                        good = False
                if not good:
                    okf = False
                    cx.violation(rule, fn.qualname, f"override-of-{name}-only-forwards",
                                 f"{fn.qualname} overrides {cls_q.rsplit('.', 1)[-1]}.{name}, whose behaviour the rules verify, and does "
                                 f"more than forward its own arguments unchanged to super().{name} and return that result: the verified "
                                 f"behaviour no longer holds for {sub.name}", where=cx.where(fn), path=p.lines())
                    break
            if okf:
                cx.ok(rule, f"{fn.qualname} only forwards to the verified {name}", where=cx.where(fn), function=fn.qualname)
    return n


_CONTROL_FLOW_EXC = {'StopIteration', 'StopAsyncIteration', 'GeneratorExit', 'KeyboardInterrupt', 'SystemExit', 'BaseException',
                     'Warning', 'UserWarning', 'DeprecationWarning', 'FutureWarning', 'RuntimeWarning'}


def check_error_is_plain_exception(cx: Cx, cls_q: str, rule='R-GUARD'):
    """A documented error reaches the caller as an error: its class derives from Exception and from none of the classes the
    interpreter itself consumes (StopIteration ends a `for` / `map` / generator silently, warnings are filtered, BaseException
    escapes `except Exception`)."""
    ci = cx.prog.cls(cls_q)
    bad = None
    seen = set()
    stack = [ci]
    reaches_exception = False
    while stack:
        c = stack.pop()
        if id(c) in seen:
            continue
        seen.add(id(c))
        for b in c.bases:
            if isinstance(b, str):
                nm = b.rsplit('.', 1)[-1]
                if nm in _CONTROL_FLOW_EXC:
                    bad = bad or nm
                elif nm == 'Exception' or nm.endswith('Error'):
                    reaches_exception = True
            else:
                stack.append(b)
    if bad or not reaches_exception:
        cx.violation(rule, cls_q, 'documented-error-is-an-ordinary-exception',
                     f"{cls_q} derives from {bad or 'no Exception class'}: raised inside an iterator callback, a generator or a `for` it is "
                     f"consumed by the iteration protocol (or escapes `except Exception`), so the documented error never reaches the "
                     f"caller who asked for it", where=ci.where)
    else:
        cx.ok(rule, f"{ci.name} is an ordinary Exception subclass", where=ci.where, function=cls_q)


_PROTOCOL_DUNDERS = {'__iter__', '__len__', '__getitem__', '__contains__', '__bool__', '__eq__', '__ne__', '__hash__', '__lt__', '__le__',
                     '__gt__', '__ge__', '__call__', '__getattr__', '__getattribute__', '__setattr__', '__delattr__', '__copy__', '__deepcopy__',
                     '__reduce__', '__reduce_ex__', '__getstate__', '__setstate__', '__new__', '__init_subclass__', '__set_name__',
                     '__enter__', '__exit__', '__index__', '__int__', '__float__', '__next__', '__reversed__', '__missing__', '__del__'}


def check_no_new_protocol_dunders(cx: Cx):
    """R-API: a documented class does not gain a protocol method it did not have.  `__len__` + `__getitem__` make an object iterable
    (ParameterList.build then expands a LookupGenerator given as ONE value into its rows), `__eq__` changes `in` and `list.remove`
    (two empty collectors become "the same system" for add_system), `__deepcopy__` changes what a copy shares, `__setattr__` what an
    assignment does - all of it behaviour of the documented operations on existing objects."""
    sigs = cx.walker._sigs()
    if not sigs:
        return
    pinned_classes = {q.rsplit('.', 1)[0] for q in sigs if not q.startswith('#')}
    bad = None
    n = 0
    for cq, ci in sorted(cx.prog.classes.items()):
        if cq not in pinned_classes:
            continue
        for name, fns in ci.methods.items():
            if name in _PROTOCOL_DUNDERS:
                n += 1
                if f"{cq}.{name}" not in sigs:
                    bad = bad or (cq, name, fns[0])
    if bad:
        cq, name, f = bad
        cx.violation('R-API', f.qualname, 'no-new-protocol-methods-on-documented-classes',
                     f"{cq} gains {name}: iteration, truth value, equality, copying or attribute access of its objects now behave "
                     f"differently inside the documented operations that use them (`in`, `list.remove`, `for`, `if obj:`, deepcopy)",
                     where=cx.where(f))
    else:
        cx.ok('R-API', f"no documented class gained a protocol method ({n} existing ones examined)", function='<package>')


def check_import_has_no_side_effects(cx: Cx, rule='R-ENTROPY'):
    """Importing the package configures nothing process-wide: no bare call statement at module level (numpy.seterr, warnings
    filters, random.seed, logging.basicConfig, ...)."""
    bad = None
    n = 0
    for mi in cx.prog.modules.values():
        for st in mi.tree.body:
            n += 1
            if isinstance(st, ast.Expr) and isinstance(st.value, ast.Call):
                # the package's own logger may be set up at import (`logging.getLogger(__name__).addHandler(logging.NullHandler())`,
                # `_logger.setLevel(...)`): that configures an object of the package, nothing process-wide
                fsrc = ast.unparse(st.value.func)
                root = st.value.func
                while isinstance(root, (ast.Attribute, ast.Call)):
                    root = root.value if isinstance(root, ast.Attribute) else root.func
                own_logger = isinstance(root, ast.Name) and (
                    (mi.imports.get(root.id) == 'logging' and fsrc.startswith(root.id + '.getLogger(')) or
                    (root.id in mi.assigns and 'getLogger(' in ast.unparse(mi.assigns[root.id])))
                if own_logger and fsrc.rsplit('.', 1)[-1] in ('addHandler', 'setLevel', 'addFilter'):
                    continue
                bad = bad or (mi, st)
    if bad:
        mi, st = bad
        cx.violation(rule, mi.name, 'import-configures-nothing',
                     f"{mi.relpath}:{st.lineno} runs `{ast.unparse(st.value)[:80]}` when the module is imported: process-wide state "
                     f"(numpy's error mode, warning filters, a global generator) now depends on whether this package was imported, and user "
                     f"code that was legal raises or behaves differently", where=f"{mi.relpath}:{st.lineno}")
    else:
        cx.ok(rule, f"no module of the package calls anything at import time ({n} module-level statements examined)", function='<package>')


def check_deprecated_aliases_forward(cx: Cx, cls_q: str, rule='R-FWD', only=None):
    """The deprecated camelCase spellings of the documented operations of `cls_q` are the same operations: each hands every one of
    its own arguments on, unchanged, to one method of the receiver (a dropped `throw_error` turns the strict look-up into the
    lenient one for everybody who still uses the old spelling)."""
    ci = cx.prog.cls(cls_q)
    n = 0
    for name, fns in sorted(ci.methods.items()):
        fn = fns[0]
        decos = [ast.unparse(d) for d in getattr(fn.node, 'decorator_list', [])]
        if not any(d.startswith('deprecated') for d in decos) or fn.is_property or (only is not None and name not in only):
            continue
        n += 1
        selfn = Sym(fn.params[0]) if fn.params else None
        own = list(fn.params[1:]) + list(fn.kwonly)
        bad = None
        for p in cx.walker.paths(fn, WalkOptions(unroll=1, callee_raises=False, inline_depth=0)):
            if p.end == 'raise':
                continue
            calls = [e for e in p.events if e.kind == 'call' and e.data.get('target_kind') == 'pkg' and e.data.get('targets')
                     and strip_versions(e.data.get('recv')) == selfn]
            if len(calls) != 1:
                bad = f"calls {len(calls)} methods of the receiver on a path"
                break
            callee = calls[0].data['targets'][0]
            from sa.walker import _Ctx, State
            b = _Ctx(cx.walker, fn, WalkOptions()).bind_args(callee, calls[0].data.get('recv'), list(calls[0].data.get('args', ())),
                                                            dict(calls[0].data.get('kw', ())), State(), True)
            if b is None:
                bad = f"the call of {callee.name} does not bind"
                break
            passed = {v.name for v in b.values() if isinstance(v, Sym)}
            if fn.vararg and callee.vararg and b.get(callee.vararg) == Sym('*' + fn.vararg):
                passed.add(fn.vararg)
            lost = [q for q in own if q not in passed]
            moved = [q for q in callee.params[1:] if q in own and b.get(q) != Sym(q)]
            if lost or moved:
                bad = (f"does not hand {lost} on to {callee.name}" if lost else f"passes something else than its own {moved} to {callee.name}")
                break
        if bad:
            cx.violation(rule, fn.qualname, f"deprecated-alias-forwards-its-arguments",
                         f"{fn.qualname} (the deprecated spelling) {bad}: the old spelling no longer is the documented operation",
                         where=cx.where(fn))
        else:
            cx.ok(rule, f"{fn.qualname} forwards all its arguments to one method of the receiver", where=cx.where(fn), function=fn.qualname)
    return n


def known_empty_on(path_cond, container: Term) -> bool:
    """The path has established that `container` is empty (`if not d:` / `len(d) == 0`): an answer of "nothing" is then the
    zero-iteration case of any scan of it."""
    from sa.terms import mk_cmp as _mk, Num as _N
    from fractions import Fraction as _F
    try:
        if implies(path_cond, f_not(ATruthy(container))) is None:
            return True
        return implies(path_cond, _mk(App('len', (container,)), '==', _N(_F(0)))) is None
    except Exception:
        return False


def check_no_static_alias(cx: Cx, cls_q: str, names: List[str], rule='R-FWD'):
    """A class-level statement `alias = <something built from the bare name of a method>` binds the implementation of THAT class:
    a call through the alias does not dispatch on the receiver, so it skips the overrides of the package's subclasses (the
    spatial worlds' add_agent, ...).  Checked for the methods a property's rules verify on a base class, on the class and its
    package ancestors."""
    import ast
    base = cx.prog.cls(cls_q)
    overridden = {n for n in names if any(n in sub.methods for sub in cx.prog.subclasses(base, strict=True))}
    bad = None
    for ci in cx.prog.mro(base):
        for nm, v in ci.class_assigns.items():
            refs = {y.id for y in ast.walk(v) if isinstance(y, ast.Name)} & overridden
            if refs and nm not in names:
                bad = bad or (ci, nm, sorted(refs))
    if bad:
        ci, nm, refs = bad
        subs = sorted(s.name for s in cx.prog.subclasses(base, strict=True) if any(r in s.methods for r in refs))
        cx.violation(rule, f"{ci.qualname}.{nm}", f"alias-of-{refs[0]}-dispatches-on-the-receiver",
                     f"{ci.qualname}.{nm} is bound in the class body to {ci.name}'s own {refs[0]}: a call through it runs that "
                     f"implementation even for {', '.join(subs)}, whose override of {refs[0]} (the behaviour the rules verify for them) is "
                     f"skipped", where=ci.where)
    else:
        cx.ok(rule, f"no class-level alias captures {sorted(overridden)} of {base.name}", where=base.where, function=base.qualname)


# ---------------------------------------------------------------------------------------------- module-level state
def _immutable_module_value(mod, v: ast.expr, seen=()) -> bool:
    """The value bound to a module-level name cannot carry state from one call to the next: constants, tuples and
    arithmetic of such, aliases of functions / classes / imports, typing aliases (Dict[str, Any]), and loggers."""
    if isinstance(v, ast.Constant):
        return True
    if isinstance(v, ast.Tuple):
        return all(_immutable_module_value(mod, x, seen) for x in v.elts)
    if isinstance(v, ast.UnaryOp):
        return _immutable_module_value(mod, v.operand, seen)
    if isinstance(v, ast.BinOp):
        return _immutable_module_value(mod, v.left, seen) and _immutable_module_value(mod, v.right, seen)
    if isinstance(v, ast.Name):
        if v.id in mod.assigns and v.id not in seen:
            return _immutable_module_value(mod, mod.assigns[v.id], seen + (v.id,))
        return v.id not in mod.assigns
    if isinstance(v, ast.Attribute):
        root = v
        while isinstance(root, ast.Attribute):
            root = root.value
        if isinstance(root, ast.Name) and root.id in mod.classes and isinstance(v.value, ast.Name):
            # Enum.MEMBER of an enum declared in this module: a singleton constant
            ci_ = mod.classes[root.id]
            return any((b if isinstance(b, str) else getattr(b, 'qualname', '')).rsplit('.', 1)[-1] in ('Enum', 'IntEnum', 'Flag', 'IntFlag', 'StrEnum')
                       for b in ci_.bases)
        return isinstance(root, ast.Name) and root.id in mod.imports
    if isinstance(v, ast.Call) and isinstance(v.func, ast.Name) and v.func.id in ('frozenset', 'tuple', 'float', 'int', 'str', 'object') \
            and v.func.id not in mod.assigns and v.func.id not in mod.functions and not v.keywords and len(v.args) <= 1:
        # an immutable collection / number / marker object built once from immutable elements
        a0 = v.args[0] if v.args else None
        if a0 is None:
            return True
        if isinstance(a0, (ast.Set, ast.List, ast.Tuple)):
            return all(_immutable_module_value(mod, x, seen) for x in a0.elts)
        return _immutable_module_value(mod, a0, seen)
    if isinstance(v, ast.Subscript):
        root = v.value
        while isinstance(root, ast.Attribute):
            root = root.value
        if isinstance(root, ast.Name) and (mod.imports.get(root.id, '').startswith('typing') or root.id in ('list', 'dict', 'tuple', 'set', 'type')):
            sl = v.slice.elts if isinstance(v.slice, ast.Tuple) else [v.slice]
            return all(_immutable_module_value(mod, x, seen) or isinstance(x, ast.List) for x in sl)
        return False
    if isinstance(v, ast.Call):
        f = v.func
        if isinstance(f, ast.Attribute) and isinstance(f.value, ast.Name) and mod.imports.get(f.value.id) == 'logging' and f.attr == 'getLogger':
            return True
        if isinstance(f, ast.Name) and mod.imports.get(f.id) == 'logging.getLogger':
            return True
    return False


def module_state_reads(fn: FuncInfo) -> List[ast.AST]:
    """Loads of module-level names bound to mutable objects in the body of fn (annotations are not evaluated per call and
    do not count), plus global / nonlocal declarations."""
    mod = fn.module
    skip = set()
    for n in ast.walk(fn.node):
        anns = []
        if isinstance(n, (ast.FunctionDef, ast.AsyncFunctionDef)):
            anns += [a.annotation for a in n.args.posonlyargs + n.args.args + n.args.kwonlyargs if a.annotation is not None]
            anns += [x.annotation for x in (n.args.vararg, n.args.kwarg) if x is not None and x.annotation is not None]
            if n.returns is not None:
                anns.append(n.returns)
        elif isinstance(n, ast.AnnAssign):
            anns.append(n.annotation)
        for a in anns:
            skip |= {id(x) for x in ast.walk(a)}
    out = []
    for n in ast.walk(fn.node):
        if id(n) in skip:
            continue
        if isinstance(n, ast.Name) and isinstance(n.ctx, ast.Load) and n.id in mod.assigns and \
                not _immutable_module_value(mod, mod.assigns[n.id]):
            out.append(n)
        elif isinstance(n, (ast.Global, ast.Nonlocal)):
            out.append(n)
    return out


# ---------------------------------------------------------------------------------------------- premises
def include_premises(cx: Cx, pids: List[str], why: str = '', only=None):
    """A property that is stated over behaviour another property's rules establish (a collector records once per
    scheduled timestep only if the scheduler runs each system once) re-checks those rules on the current tree and reports
    their violations as its own: breaking the premise breaks this property as well.  `only(obligation) -> bool` restricts the
    forwarding to the rules this property really rests on.  Inconclusive obligations and the origin property's open known
    findings are not forwarded; premises are not followed transitively."""
    if getattr(cx, 'is_premise', False):
        return
    import importlib
    from sa.report import load_known, Obligation
    for q in pids:
        sub = Cx(q, cx.prog, cx.tier)
        sub.ti, sub.walker, sub._effects = cx.ti, cx.walker, cx._effects
        sub.is_premise = True
        try:
            importlib.import_module(f"props.{q.lower()}").run(sub)
        except Exception as ex:          # the premise's own check reports this; what it had found before is still forwarded
            cx.note(f"premise {q} could not be evaluated completely on this tree: {type(ex).__name__}: {ex}")
        if cx._effects is None:
            cx._effects = sub._effects
        known = {k.key for k in load_known() if k.pid == q and k.status == 'open'}
        n = 0
        seen = set()
        for o in sub.violations():
            if o.key in known or o.key in seen or (only is not None and not only(o)):
                continue
            seen.add(o.key)
            n += 1
            cx.obs.append(Obligation(o.rule, o.instance, 'violation', o.where, o.function, dict(o.facts, premise_of=q), key=o.key,
                                     message=f"[rule of {q}, which this property depends on{': ' + why if why else ''}] {o.message}",
                                     path=list(o.path)))
        if n == 0:
            cx.ok('PREMISE', f"{q}: the rules this property depends on hold ({len([o for o in sub.obs if o.verdict == 'ok'])} obligations)",
                  function=q)


# ---------------------------------------------------------------------------------------------- presence vs. truthiness
REGISTRY_FIELDS = {(CORE + 'SystemManager', 'systems'), (CORE + 'Environment', 'agents'), (CORE + 'Agent', 'components'),
                   (CORE + '_MetaAgent', '_components')}


def object_truthiness_atoms(cx: Cx, fn: FuncInfo, formula) -> List[Term]:
    """Terms whose TRUTH VALUE the formula tests although they denote a system / agent / component object (an element of
    one of the registries, or an expression of such a class).  These classes are open: Agent itself defines __len__ (an
    agent without components is falsy), user systems and components may define __len__ / __bool__; presence has to be
    tested by membership or `is None`."""
    from sa.walker import _Ctx
    from sa.terms import atoms_of
    c = _Ctx(cx.walker, fn, WalkOptions())
    open_roots = [cx.prog.cls(CORE + n) for n in ('Agent', 'System', 'Component')]
    out = []
    for a in atoms_of(formula):
        if not isinstance(a, ATruthy):
            continue
        t = strip_versions(a.t)
        cont = None
        if isinstance(t, App) and t.fn == '.get' and len(t.args) in (2, 3) and (len(t.args) == 2 or t.args[2] == Const(None)):
            cont = t.args[0]
        elif isinstance(t, Sub):
            cont = t.base
        hit = False
        if cont is not None:
            loc = c.loc_of_term(Sub(strip_versions(cont), Const(0)))
            if loc in REGISTRY_FIELDS or (loc is None and isinstance(strip_versions(cont), Attr) and
                                          strip_versions(cont).name in {f for _, f in REGISTRY_FIELDS}):
                hit = True
        if not hit and cont is not None:
            # manager[<system id>]: SystemManager.__getitem__ answers with a system object (or a component listing)
            try:
                ct = c.term_type(strip_versions(cont))
            except Exception:
                ct = None
            if ct is None and isinstance(strip_versions(cont), Attr) and strip_versions(cont).name == 'systems':
                bt_ = None
                try:
                    bt_ = c.term_type(strip_versions(strip_versions(cont).base))
                except Exception:
                    pass
                if bt_ and bt_[0] == 'inst' and bt_[1].qualname == CORE + 'Model':
                    ct = ('inst', cx.prog.cls(CORE + 'SystemManager'))
            if ct and ct[0] == 'inst' and ct[1].qualname == CORE + 'SystemManager':
                hit = True
        if not hit:
            try:
                tt = c.term_type(t)
            except Exception:
                tt = None
            if tt and tt[0] == 'inst' and any(cx.prog.is_subclass(tt[1], r) for r in open_roots):
                hit = True
        if hit:
            out.append(t)
    return out


def check_presence_not_truthiness(cx: Cx, quals: List[str], rule='R-NONE'):
    """No branch of the listed functions decides on the truth value of a system / agent / component object."""
    n = 0
    from sa.terms import BoolT
    for q in quals:
        fn = cx.fn(q)
        bad = None
        for p in cx.walker.paths(fn, WalkOptions(unroll=1, callee_raises=False)):
            for e in p.events:
                if e.kind != 'cond':
                    continue
                n += 1
                ts = object_truthiness_atoms(cx, fn, e.data['formula'])
                if ts and bad is None:
                    bad = (e, ts[0])
            # a returned truth value: `return all(d.get(k) for k in keys)`, `return bool(d.get(k))`
            if p.end == 'return' and bad is None:
                v = strip_versions(p.last.data.get('value'))
                forms = []
                if isinstance(v, BoolT):
                    forms.append(v.f)
                if isinstance(v, App) and v.fn in ('all', 'any', 'bool') and v.args:
                    a0 = v.args[0]
                    if isinstance(a0, Fresh) and a0.detail is not None and getattr(a0.detail, 'elt', None) is not None:
                        forms.append(ATruthy(a0.detail.elt))
                    elif not isinstance(a0, Fresh):
                        forms.append(ATruthy(a0))
                for f_ in forms:
                    ts = object_truthiness_atoms(cx, fn, f_)
                    if ts:
                        bad = (p.last, ts[0])
                        break
        if bad is not None:
            e, t = bad
            cx.violation(rule, fn.qualname, 'presence-decided-by-membership-not-truthiness',
                         f"{fn.qualname} branches on the truth value of {t!r}, an object of an open class (agents define __len__, user "
                         f"systems / components may): a registered but falsy object is treated as absent", where=cx.where(fn, e.line))
        else:
            cx.ok(rule, f"{fn.name}: no branch on the truth value of a system / agent / component object", where=cx.where(fn),
                  function=fn.qualname)
    return n


# ---------------------------------------------------------------------------------------------- memoisation
_MEMO = ('lru_cache', 'cache', 'cached_property', 'memoize', 'memoized')


def _memo_name(e) -> Optional[str]:
    """'lru_cache' for lru_cache / functools.lru_cache / lru_cache(...)."""
    if isinstance(e, ast.Call):
        e = e.func
    nm = e.id if isinstance(e, ast.Name) else (e.attr if isinstance(e, ast.Attribute) else None)
    return nm if nm in _MEMO else None


def check_no_stateful_memo(cx: Cx, rule='R-SHARED'):
    """Memoisation keeps one result per argument tuple for the life of the process.  That is only transparent for a function of
    immutable arguments that returns an immutable value: a memoised function that returns an object built in the call hands the
    SAME object to every caller (two worlds share one cell table), one that reads attributes of its arguments (or is a method)
    answers from the state the object had at the first call, and a memoised constructor (Pool) is a process-wide singleton."""
    if getattr(cx, '_memo_checked', False):
        return
    cx._memo_checked = True
    n = 0
    for fn in cx.prog.all_functions:
        decs = [d for d in fn.node.decorator_list if _memo_name(d)]
        if not decs:
            continue
        n += 1
        params = set(fn.params + fn.kwonly)
        reads = [y for y in ast.walk(fn.node) if isinstance(y, ast.Attribute) and isinstance(y.value, ast.Name) and y.value.id in params
                 and isinstance(y.ctx, ast.Load)]
        why = None
        if reads:
            why = (f"reads {ast.unparse(reads[0])} of an argument: the cached answer is the one computed from the state that object had "
                   f"at the first call")
        else:
            for p in cx.walker.paths(fn, WalkOptions(unroll=1, callee_raises=False)):
                v = strip_versions(p.last.data.get('value')) if p.end == 'return' else None
                if isinstance(v, Fresh) or (isinstance(v, App) and (v.fn.startswith('new:') or 'DataFrame' in v.fn or
                                                                    any('DataFrame' in repr(a)[:60] for a in v.args[:1]))):
                    why = f"returns {v!r}, an object built in the call: every caller with equal arguments receives the very same object"
                    break
                # the result of a library call that parses / loads / builds (json.load, open, copy, ...) is a new mutable object as well
                if isinstance(v, App) and (v.fn == 'call' or v.fn.startswith('.')) and \
                        any(k in v.fn or (v.args and k in repr(v.args[0])[:40]) for k in ('load', 'read', 'parse', 'open', 'copy', 'DataFrame', 'array', 'list', 'dict')):
                    why = (f"returns {v!r}, an object the library builds for this call: every caller with equal arguments receives the very "
                           f"same (mutable) object")
                    break
        if not why:
            # the cache key compares arguments with == (1 == 1.0 == True) unless typed=True: a result computed by arithmetic on the
            # arguments has the type of whichever equal argument came first
            typed = any(isinstance(d, ast.Call) and any(k.arg == 'typed' and isinstance(k.value, ast.Constant) and k.value.value is True
                                                        for k in d.keywords) for d in decs)
            arith = [y for y in ast.walk(fn.node) if isinstance(y, ast.BinOp) and
                     any(isinstance(z, ast.Name) and z.id in params for z in ast.walk(y))]
            if not typed and arith:
                why = (f"computes its result by arithmetic on its arguments ({ast.unparse(arith[0])[:60]}) while the cache compares them "
                       f"with ==: a call with 2.0 (or True) stores a float (bool-derived) result that a later call with the equal int 2 "
                       f"gets back - an id that is no longer an int")
        if why:
            cx.violation(rule, fn.qualname, 'memoised-function-is-a-pure-function-of-immutable-values',
                         f"{fn.qualname} is memoised ({ast.unparse(decs[0])}) but {why}", where=cx.where(fn))
        else:
            cx.ok(rule, f"{fn.name}: memoised function of immutable arguments returning an immutable value", where=cx.where(fn),
                  function=fn.qualname)
    # call form at module / class level: NAME = lru_cache(...)(target)
    for mod in cx.prog.modules.values():
        for name, v in mod.assigns.items():
            if isinstance(v, ast.Call) and _memo_name(v.func) and v.args:
                n += 1
                tgt = v.args[0]
                r = cx.prog.resolve_expr_static(tgt, mod) if isinstance(tgt, (ast.Name, ast.Attribute)) else None
                kind = r[0] if r else None
                is_ctor = kind == 'class' or (isinstance(tgt, ast.Name) and tgt.id[:1].isupper()) or \
                    (isinstance(tgt, ast.Attribute) and tgt.attr[:1].isupper())
                if is_ctor:
                    cx.violation(rule, f"{mod.name}.{name}", 'memoised-constructor',
                                 f"{mod.name}.{name} = {ast.unparse(v)}: a memoised constructor hands the same object (and whatever state "
                                 f"it captured when it was first built) to every later call", where=f"{mod.relpath}:{v.lineno}")
    cx.ok(rule, f"memoisation sites examined: {n}", function='package')
