"""C19 - tag libraries keep a stable name<->id bijection and cannot be corrupted."""
from __future__ import annotations

import ast
from fractions import Fraction

from sa.report import Cx
from sa.walker import WalkOptions, _Ctx, State
from sa.terms import (FTrue, Sym, Attr, Sub, App, Num, Const, Fresh, TupleT, CompInfo, AIn, ATruthy, f_and, f_or, f_not, implies, compare, mk_cmp,
                      add, sub, atoms_of)
from .common import TAGS, check_atomic, strip_versions

PID = 'C19'
EXPLANATION = (
    "Initial state by constant folding: NONE is 0, the counter starts at the length of the initial name list and 'NONE' is "
    "at index 0. R-PAIR + R-ATOMIC on add_tag: on the success path the id stored for the name equals the index at which "
    "the name is appended (the counter before its increment, len(names) before the append, or len(names)-1 after it), "
    "the counter is incremented by exactly 1 and the name is appended exactly once at the tail; the rejecting path writes "
    "nothing. Induction: len(names) == counter and names[ids[n]] == n. R-GUARD: get_tag_name returns names[id] exactly "
    "under 0 <= id <= counter-1 and raises TagNotFoundError otherwise; itemize enumerates the name list; __len__ is the "
    "counter. R-NS: add_tag stores caller-chosen names into the instance __dict__, which instance attribute lookup "
    "consults BEFORE the class's non-data attributes (its methods), so the guard on the success path must reject every "
    "name bound on the class; the module facade resolves Tags.<name> through module globals before the module "
    "__getattr__, so the module-level add path must reject names bound in the module. R-SHARED: all library state is "
    "allocated in __init__; R-FWD: module functions forward to the same-named method of the single module library.")
EXPLANATION += (' Module-level add_tag is atomic (a rejected name has not been stored). itemize is a pipeline over enumerate(names) / range(len(names)) / zip(names, range(len(names))).')
EXPLANATION += (' R-DISC: _tag_names, _tag_counter and the instance dictionary are written by TagLibrary.__init__ and add_tag (and their private helpers) only, and __init__ is called by construction only.')
EXPLANATION += (' The documented error classes are ordinary Exception subclasses whose constructors only store and format (no typed format specifications).')
EXPLANATION += (" A fresh library's constructor stores no public attribute besides NONE; no other module writes an attribute of the tag module or of its global library.")
ASSUMPTIONS = ["tag names are strings (quantifier)", "instance dict precedes non-data class attributes; module globals precede module __getattr__ (language facts)",
               "single-threaded use"]

TL = TAGS + 'TagLibrary'


def run(cx: Cx):
    prog = cx.prog
    tl = prog.cls(TL)
    init = cx.fn(TL + '.__init__')
    addt = cx.fn(TL + '.add_tag')
    self_s = Sym(addt.params[0])
    name = Sym(addt.params[1])
    counter = Attr(self_s, '_tag_counter')
    names = Attr(self_s, '_tag_names')

    # ------------------------------------------------------------ clause 1: initial state
    for p in cx.walker.paths(init, WalkOptions(unroll=0)):
        vals = {e.data.get('attr'): e.data.get('value') for e in p.events if e.kind == 'store' and e.data.get('store') == 'rebind'}
        nm = vals.get('_tag_names')
        c0 = vals.get('_tag_counter')
        none = vals.get('NONE')
        ok = isinstance(nm, Fresh) and nm.kind == 'list' and nm.items and nm.items[0] == Const('NONE') and \
            c0 == Num(Fraction(len(nm.items))) and none == Num(Fraction(0))
        if ok:
            cx.ok('R-PAIR', f"fresh library: NONE == 0, counter == len(names) == {len(nm.items)}, names[0] == 'NONE'", where=cx.where(init),
                  function=init.qualname)
        else:
            cx.violation('R-PAIR', init.qualname, 'initial-state-NONE-0-counter-is-len-names',
                         f"TagLibrary.__init__ sets NONE={none!r}, counter={c0!r}, names={nm!r}: the induction base "
                         f"(NONE is id 0, counter == len(names), names[0] == 'NONE') does not hold", where=cx.where(init))
    # a fresh library knows NONE and nothing else: every other public attribute the constructor stores answers like a tag that was
    # never added (`lib.name`), and add_tag refuses that name although itemize never lists it
    for p in cx.walker.paths(init, WalkOptions(unroll=0)):
        extra_ = [e.data.get('attr') for e in p.events if e.kind == 'store' and e.data.get('store') == 'rebind' and e.data.get('attr')
                  and not str(e.data.get('attr')).startswith('_') and e.data.get('attr') != 'NONE']
        if extra_:
            cx.violation('R-NS', init.qualname, 'fresh-library-holds-only-NONE',
                         f"TagLibrary.__init__ stores the public attribute(s) {extra_} in the instance dictionary, which is the tag table: "
                         f"those names resolve like tags without having been added, and cannot be added", where=cx.where(init))
            break
    else:
        cx.ok('R-NS', 'the constructor stores no public attribute besides NONE', where=cx.where(init), function=init.qualname)
    # R-SHARED
    muts = [k for k, v in tl.class_assigns.items() if isinstance(v, (ast.List, ast.Dict, ast.Set, ast.Call, ast.ListComp))]
    if muts:
        cx.violation('R-SHARED', tl.qualname, 'no-class-level-library-state', f"TagLibrary has class-level mutable state {muts}: separate "
                     f"libraries influence each other", where=tl.where)
    else:
        cx.ok('R-SHARED', 'all library state is allocated per instance in __init__', where=tl.where, function=tl.qualname)

    # R-DISC: ids are positions in the name list, so the list only grows at its tail, the counter only counts up and an entry, once
    # made, stays: the constructor (at construction) and add_tag are the only writers of a library's state - an operation that
    # removes, renames or resets (a list.remove shifts every later name under the id of its neighbour) breaks "by name and by id are
    # inverses" for all tags added before
    allowed = {init.qualname, addt.qualname}       # WHAT add_tag writes is clause 2's business
    n_w = 0
    bad_w = None
    for loc_f in ('_tag_names', '_tag_counter', '__dict__'):
        for s_ in cx.effects.sites_of((TL, loc_f)):
            n_w += 1
            owners = s_.owners or {s_.owner_q}
            if not all(o in allowed for o in owners):
                bad_w = bad_w or s_
    for k_, calls_ in cx.effects.calls.items():
        for c_ in calls_:
            if any(t.qualname == init.qualname for t in c_.data.get('targets', [])) and c_.data.get('via') not in ('ctor', 'super'):
                kf_ = prog.functions.get(k_.split('#')[0])
                cx.violation('R-DISC', k_, 'library-state-written-by-constructor-and-add_tag-only',
                             f"{k_} calls TagLibrary.__init__ on an existing library: counter and name list start over while the entries "
                             f"made so far stay in the instance dictionary - old names still resolve, cannot be added again, and new tags "
                             f"reuse their ids", where=cx.where(kf_, c_.line) if kf_ else '')
                bad_w = bad_w or True
    if bad_w is not None and bad_w is not True:
        cx.violation('R-DISC', bad_w.fn.qualname, 'library-state-written-by-constructor-and-add_tag-only',
                     f"{bad_w.describe()}: a library's state is written by its constructor and by add_tag (tail append, counter + 1, one "
                     f"new entry) only; ids are positions in the name list, so removing, renaming or resetting breaks the tags that "
                     f"exist already", where=bad_w.where)
    elif bad_w is None:
        cx.ok('R-DISC', f"library state is written by __init__ and add_tag only ({n_w} write sites)", where=tl.where, function=tl.qualname)
    cx.floor('tag library write sites', n_w, 5)
    from .common import check_error_is_plain_exception
    from .common import check_error_ctor_pure
    for e_ in ('TagNotFoundError', 'DuplicateTagError'):
        check_error_is_plain_exception(cx, TL.rsplit('.', 1)[0] + '.' + e_)
        check_error_ctor_pure(cx, prog.cls(TL.rsplit('.', 1)[0] + '.' + e_))

    # ------------------------------------------------------------ clause 2: add_tag
    check_atomic(cx, addt.qualname, ['DuplicateTagError'])
    n = 0
    storage_is_dict = False
    for p in cx.walker.paths(addt, WalkOptions(unroll=1)):
        if p.end == 'raise':
            continue
        n += 1
        evs = p.events
        ids = [e for e in evs if e.kind == 'store' and e.data.get('key') == name and e.data.get('store') in ('setitem', 'setattr')]
        incs = [e for e in evs if e.kind == 'store' and e.data.get('loc') == (TL, '_tag_counter')]
        apps = [e for e in evs if e.kind == 'store' and e.data.get('loc') == (TL, '_tag_names')]
        where = cx.where(addt, ids[0].line if ids else None)
        if len(ids) != 1:
            cx.violation('R-PAIR', addt.qualname, 'stores-the-id-under-the-name-once', f"add_tag stores the new name {len(ids)} times",
                         where=where, path=p.lines())
            continue
        st = ids[0]
        tgt = strip_versions(st.data.get('target'))
        storage_is_dict = st.data.get('store') == 'setattr' or tgt == Attr(self_s, '__dict__') or \
            (isinstance(tgt, App) and tgt.fn == 'setattr-target')
        if not (len(incs) == 1 and (incs[0].data.get('value') == add(counter, Num(Fraction(1))))):
            cx.violation('R-PAIR', addt.qualname, 'counter-incremented-by-exactly-one',
                         f"add_tag must advance the id counter by exactly 1, once (found {[repr(e.data.get('value')) for e in incs]})",
                         where=cx.where(addt, incs[0].line if incs else None), path=p.lines())
            continue
        if not (len(apps) == 1 and apps[0].data.get('store') == 'append' and apps[0].data.get('args') == (name,)):
            cx.violation('R-PAIR', addt.qualname, 'name-appended-once-at-the-tail',
                         f"add_tag must append the name exactly once at the tail of the id->name list (found "
                         f"{[(e.data.get('store'), repr(e.data.get('args'))) for e in apps]})", where=cx.where(addt, apps[0].line if apps else None),
                         path=p.lines())
            continue
        v = st.data.get('value')
        i_st, i_app = evs.index(st), evs.index(apps[0])
        ln = App('len', (names,))
        good = v == counter or (v == ln and i_st < i_app) or (v == sub(ln, Num(Fraction(1))) and i_st > i_app)
        if good:
            cx.ok('R-PAIR', 'add_tag: id == index of the appended name, counter += 1, one tail append', where=where, function=addt.qualname,
                  id=repr(v))
        else:
            cx.violation('R-PAIR', addt.qualname, 'id-equals-index-of-the-appended-name',
                         f"add_tag stores the id {v!r} for a name that is appended at index <counter before the increment>: lookup by "
                         f"name and by id are no longer inverse (ids must be dense, next unused)", where=where, path=p.lines())
    cx.floor('add_tag success paths', n, 1)

    # ------------------------------------------------------------ clause 3: lookups
    gt = cx.fn(TL + '.get_tag_name')
    gs, tid = Sym(gt.params[0]), Sym(gt.params[1])
    gcounter, gnames = Attr(gs, '_tag_counter'), Attr(gs, '_tag_names')
    succ = [p for p in cx.walker.paths(gt, WalkOptions(unroll=1)) if p.end == 'return']
    fails = [p for p in cx.walker.paths(gt, WalkOptions(unroll=1)) if p.end == 'raise']
    if succ:
        S = f_or(*[p.cond for p in succ])
        E1 = f_and(mk_cmp(tid, '>=', Num(Fraction(0))), mk_cmp(tid, '<=', sub(gcounter, Num(Fraction(1)))))
        E2 = f_and(mk_cmp(tid, '>=', Num(Fraction(0))), mk_cmp(tid, '<', App('len', (gnames,))))
        c1, c2 = compare(S, E1, domain='int'), compare(S, E2, domain='int')
        if c1 is None or c2 is None:
            cx.ok('R-GUARD', 'get_tag_name accepts exactly 0 <= id <= counter-1', where=cx.where(gt), function=gt.qualname, accepts=repr(S))
        else:
            show = {a: b for a, b in c1.items() if not a.startswith('_')}
            cx.violation('R-GUARD', gt.qualname, 'accepts-exactly-the-assigned-ids',
                         f"get_tag_name accepts ids under [{S!r}] but the assigned ids are [{E1!r}]; they differ at {show} (code accepts: "
                         f"{c1['_left']})", where=cx.where(gt), found=repr(S), expected=repr(E1), counterexample=c1)
        for p in succ:
            v = p.last.data.get('value')
            if v != Sub(gnames, tid):
                cx.violation('R-GUARD', gt.qualname, 'returns-names-at-id', f"get_tag_name returns {v!r}, not names[id]", where=cx.where(gt, p.last.line))
        if not fails or not all(p.last.data.get('exc') == 'TagNotFoundError' for p in fails):
            cx.violation('R-GUARD', gt.qualname, 'unknown-id-raises-TagNotFoundError', "get_tag_name does not raise TagNotFoundError for "
                         "ids outside the assigned range", where=cx.where(gt))
    else:
        cx.inconclusive('R-GUARD', 'get_tag_name', 'no returning path', where=cx.where(gt), function=gt.qualname)
    it = cx.fn(TL + '.itemize')
    inames = Attr(Sym(it.params[0]), '_tag_names')
    ipaths = cx.walker.paths(it, WalkOptions(unroll=1))
    from .common import list_facts, _loop_stage_table
    itable = _loop_stage_table(ipaths)
    ZERO = Num(Fraction(0))
    ids = (App('range', (App('len', (inames,)),)), App('range', (ZERO, App('len', (inames,)))))
    for p in ipaths:
        v = p.last.data.get('value') if p.end == 'return' else None
        good = False
        v = strip_versions(v) if v is not None else None
        if isinstance(v, Fresh) and v.kind in ('call:list', 'copy') and v.items and isinstance(v.items[0], App) and v.items[0].fn in ('zip', 'call') \
                and not v.items[0].kw:
            z = v.items[0]
            zargs = z.args[1:] if z.fn == 'call' and z.args[:1] == (Sym('builtins.zip'),) else (z.args if z.fn == 'zip' else ())
            # list(zip(names, range(len(names)))): the pairs (names[i], i) in id order
            good = len(zargs) == 2 and strip_versions(zargs[0]) == inames and strip_versions(zargs[1]) in ids
        elif isinstance(v, Fresh):
            def is_base(src):
                src = strip_versions(src)
                return src in ids or (isinstance(src, App) and src.fn == 'enumerate' and src.args[0] == inames and
                                      (len(src.args) == 1 or src.args[1] == ZERO) and not src.kw)
            lf = list_facts(ipaths, p, v, is_base, itable)
            if lf.ok and lf.key is None and lf.cond == FTrue and isinstance(lf.elem, TupleT) and len(lf.elem.items) == 2:
                nm, i = lf.elem.items
                idx = lf.base_var.items[0] if isinstance(lf.base_var, TupleT) and lf.base_var.items else lf.base_var
                good = i == idx and isinstance(i, Sym) and strip_versions(nm) == Sub(inames, i)
            elif lf.ok and lf.base_src is None:
                good = True     # the loop is not entered on this path: nothing listed
        if good:
            cx.ok('R-ITER', 'itemize lists (name, id) for every id in id order', where=cx.where(it), function=it.qualname)
        else:
            cx.violation('R-ITER', it.qualname, 'itemize-enumerates-the-name-list', f"itemize returns {v!r}: not [(names[i], i) for i in id order]",
                         where=cx.where(it))
    ln_f = cx.fn(TL + '.__len__')
    for p in cx.walker.paths(ln_f, WalkOptions(unroll=1)):
        v = p.last.data.get('value') if p.end == 'return' else None
        s0 = Sym(ln_f.params[0])
        if v in (Attr(s0, '_tag_counter'), App('len', (Attr(s0, '_tag_names'),))):
            cx.ok('R-GUARD', 'len(library) == number of tags including NONE', where=cx.where(ln_f), function=ln_f.qualname)
        else:
            cx.violation('R-GUARD', ln_f.qualname, 'len-is-the-tag-count', f"TagLibrary.__len__ returns {v!r}", where=cx.where(ln_f))

    # ------------------------------------------------------------ clause 4: R-NS
    shadowable = sorted(k for c in prog.mro(tl) for k in list(c.methods) + list(c.class_assigns) if not (k.startswith('__') and k.endswith('__')))
    if storage_is_dict:
        guards_ok = True
        for p in cx.walker.paths(addt, WalkOptions(unroll=1)):
            if p.end == 'raise':
                continue
            # `name in self.__dict__` / `name in vars(self)`, or hasattr(self, name), which covers the instance dict and the class
            in_dict = [AIn(name, Attr(self_s, '__dict__')), ATruthy(App('hasattr', (self_s, name)))]
            if not any(implies(p.cond, f_not(a)) is None for a in in_dict):
                guards_ok = False
                cx.violation('R-NS', addt.qualname, 'guard-rejects-names-in-the-instance-dict',
                             f"add_tag stores caller-chosen names in the instance __dict__ but its guard [{p.cond!r}] does not exclude the names "
                             f"that are already there: besides the tags these are the library's own attributes (_tag_counter, _tag_names), "
                             f"which a tag of that name overwrites", where=cx.where(addt))
                break
            if not _rejects_class_names(p.cond, self_s, name):
                guards_ok = False
                cx.violation('R-NS', addt.qualname, 'guard-rejects-names-bound-on-the-class',
                             f"add_tag stores caller-chosen names in the instance __dict__ but its guard [{p.cond!r}] only looks at "
                             f"the instance dict: a tag named like one of the library's own methods ({shadowable}) shadows that "
                             f"method - lib.add_tag('add_tag'); lib.add_tag('X') -> TypeError: 'int' object is not callable",
                             where=cx.where(addt), shadowable=shadowable)
                break
        if guards_ok:
            cx.ok('R-NS', 'add_tag rejects every name already bound on the class', where=cx.where(addt), function=addt.qualname,
                  shadowable=shadowable)
    else:
        cx.ok('R-NS', 'tag names are stored in a separate mapping, not in the attribute namespace', where=cx.where(addt), function=addt.qualname)
    # module facade
    mod = prog.modules[TAGS[:-1]]
    madd = cx.fn(TAGS + 'add_tag')
    mname = Sym(madd.params[0])
    lib = Sym(mod.name + '._module_library')
    glob_names = sorted(set(mod.functions) | set(mod.classes) | set(mod.assigns))
    fwd_ok = True
    for p in cx.walker.paths(madd, WalkOptions(unroll=1, callee_raises=False)):
        if p.end == 'raise':
            continue
        calls = [e for e in p.events if e.kind == 'call' and any(t.qualname == addt.qualname for t in e.data.get('targets', []))]
        if not (len(calls) == 1 and calls[0].data.get('recv') == lib and calls[0].data.get('args') == (mname,)):
            fwd_ok = False
            cx.violation('R-FWD', madd.qualname, 'forwards-to-the-module-library', "module-level add_tag does not forward its argument to "
                         "_module_library.add_tag", where=cx.where(madd))
            continue
        g = AIn(mname, App('globals', ()))
        if implies(p.cond, f_not(g)) is None or _rejects_module_names(p.cond, mname):
            cx.ok('R-NS', 'module-level add_tag rejects names bound in the module', where=cx.where(madd), function=madd.qualname)
        else:
            cx.violation('R-NS', madd.qualname, 'guard-rejects-names-bound-in-the-module',
                         f"module attribute lookup consults the module's globals before its __getattr__, so a global tag named like a "
                         f"module global ({glob_names}) can never be read back as Tags.<name>; the module-level add_tag accepts such "
                         f"names (path condition [{p.cond!r}])", where=cx.where(madd), module_globals=glob_names)
    # a name rejected by the module facade must not have been stored already
    check_atomic(cx, madd.qualname, ['DuplicateTagError'])
    for fname, target in (('get_tag_name', 'get_tag_name'), ('itemize', 'itemize')):
        f = cx.fn(TAGS + fname)
        tq = TL + '.' + target
        for p in cx.walker.paths(f, WalkOptions(unroll=1, callee_raises=False)):
            calls = [e for e in p.events if e.kind == 'call' and any(t.qualname == tq for t in e.data.get('targets', []))]
            args = tuple(Sym(x) for x in f.params)
            if len(calls) == 1 and calls[0].data.get('recv') == lib and calls[0].data.get('args') == args and p.end == 'return' and \
                    p.last.data.get('value') == calls[0].data.get('result'):
                cx.ok('R-FWD', f"Tags.{fname} forwards to the module library's {target}", where=cx.where(f), function=f.qualname)
            else:
                cx.violation('R-FWD', f.qualname, 'forwards-to-the-module-library', f"Tags.{fname} does not return "
                             f"_module_library.{target}({', '.join(f.params)})", where=cx.where(f))
    mg = cx.fn(TAGS + '__getattr__')
    gname = Sym(mg.params[0])
    ldict = Attr(lib, '__dict__')
    okg = set()
    for p in cx.walker.paths(mg, WalkOptions(unroll=1)):
        if implies(p.cond, AIn(gname, ldict)) is None:
            if p.end == 'return' and p.last.data.get('value') == Sub(ldict, gname):
                okg.add('hit')
        elif implies(p.cond, f_not(AIn(gname, ldict))) is None:
            if p.end == 'raise' and p.last.data.get('exc') == 'TagNotFoundError':
                okg.add('miss')
        elif p.end == 'raise':
            # an error raised without knowing that the name is not a tag: a stored tag of that spelling cannot be read back
            okg.add('blind')
            cx.violation('R-GUARD', mg.qualname, 'every-stored-name-is-readable',
                         f"the module __getattr__ raises {p.last.data.get('exc')} under [{p.cond!r}] without having looked the name up in the "
                         f"module library: a tag with such a name is stored by add_tag but can never be read as Tags.<name>",
                         where=cx.where(mg, p.last.line))
    if okg - {'blind'} == {'hit', 'miss'}:
        cx.ok('R-GUARD', "Tags.<name> reads the module library's id for the name, TagNotFoundError otherwise", where=cx.where(mg), function=mg.qualname)
    else:
        cx.violation('R-GUARD', mg.qualname, 'module-getattr-reads-the-library',
                     "the module __getattr__ does not return the module library's id for a known name / raise TagNotFoundError for an "
                     "unknown one", where=cx.where(mg))
    # one module library, a fresh TagLibrary
    ml = mod.assigns.get('_module_library')
    if isinstance(ml, ast.Call) and isinstance(ml.func, ast.Name) and ml.func.id == 'TagLibrary' and not ml.args:
        cx.ok('R-SHARED', 'the global library is its own TagLibrary()', where=f"{mod.relpath}:{ml.lineno}", function=mod.name)
    else:
        cx.violation('R-SHARED', mod.name, 'module-library-is-a-fresh-TagLibrary', "the module-level library is not a TagLibrary() of its own",
                     where=mod.relpath)
    # a name reads as a tag exactly when it was added: attribute lookup on a library is the plain lookup in the instance dictionary
    # (and the class), with no fallback hook that answers for other spellings
    tl = cx.prog.cls(TAGS + 'TagLibrary') if 'TAGS' in globals() else None
    if tl is None:
        tl = [c for c in cx.prog.classes.values() if c.name == 'TagLibrary'][0]
    hooks = [m for m in ('__getattr__', '__getattribute__', '__setattr__', '__delattr__', '__dir__') if any(m in c.methods for c in cx.prog.mro(tl))]
    if hooks:
        cx.violation('R-NS', tl.qualname, 'library-lookup-is-the-instance-dictionary',
                     f"{tl.qualname} defines {hooks}: reading a name that was never added can now answer with an id (and answer differently "
                     f"once that name is added), so name -> id is no longer the inverse of id -> name", where=tl.where)
    else:
        cx.ok('R-NS', 'TagLibrary has no attribute-lookup hooks', where=tl.where, function=tl.qualname)
    # tag names are caller-chosen and the module's own code resolves every name it uses (enumerate, hasattr, type, its own functions)
    # through the module globals first: nothing may bind names there at run time (a "cache" of resolved tags shadows them)
    dyn = []
    for n_ in ast.walk(mod.tree):
        tgt = None
        if isinstance(n_, (ast.Assign, ast.AugAssign, ast.Delete, ast.AnnAssign)):
            tl = n_.targets if isinstance(n_, (ast.Assign, ast.Delete)) else [n_.target]
            for t in tl:
                for y in ast.walk(t):
                    if isinstance(y, ast.Subscript) and isinstance(y.value, ast.Call) and isinstance(y.value.func, ast.Name) and \
                            y.value.func.id in ('globals', 'vars', 'locals') and not y.value.args:
                        tgt = y
        if isinstance(n_, ast.Call) and isinstance(n_.func, ast.Attribute) and n_.func.attr in ('update', 'setdefault', 'pop', '__setitem__') and \
                isinstance(n_.func.value, ast.Call) and isinstance(n_.func.value.func, ast.Name) and n_.func.value.func.id in ('globals', 'vars') \
                and not n_.func.value.args:
            tgt = n_
        if isinstance(n_, ast.Call) and isinstance(n_.func, ast.Name) and n_.func.id in ('setattr', 'delattr') and n_.args and \
                isinstance(n_.args[0], ast.Subscript) and 'modules' in ast.unparse(n_.args[0]):
            tgt = n_
        if tgt is not None:
            dyn.append(tgt)
    if dyn:
        cx.violation('R-NS', mod.name, 'module-namespace-not-written-at-run-time',
                     f"{mod.relpath}:{dyn[0].lineno} binds a name in the module's globals at run time ({ast.unparse(dyn[0])[:80]}): a tag "
                     f"called like a builtin or a function the module itself uses (enumerate, hasattr, type, add_tag) then replaces it for "
                     f"every library in the process", where=f"{mod.relpath}:{dyn[0].lineno}")
    else:
        cx.ok('R-NS', 'no code binds names in the module globals at run time', where=mod.relpath, function=mod.name)
    # the global library is the one object created at import: nobody swaps it (a scratch library installed "for the duration of a run"
    # stays installed when the run raises, and the tags added before are gone) and nobody rewinds it from outside
    swap = None
    for mi_ in prog.modules.values():
        aliases_ = {a for a, tgt_ in mi_.imports.items() if tgt_ == mod.name} | ({mod.name.rsplit('.', 1)[-1]} if mi_ is mod else set())
        for n_ in ast.walk(mi_.tree):
            if isinstance(n_, ast.Attribute) and isinstance(n_.ctx, (ast.Store, ast.Del)):
                root_ = n_.value
                # Tags.<anything> = ... / Tags._module_library.<field> = ... written from another module
                chain_ = []
                while isinstance(root_, ast.Attribute):
                    chain_.append(root_.attr)
                    root_ = root_.value
                if isinstance(root_, ast.Name) and root_.id in aliases_ and mi_ is not mod:
                    swap = swap or (mi_, n_)
            if isinstance(n_, ast.Global) and mi_ is mod and '_module_library' in n_.names:
                swap = swap or (mi_, n_)
            if isinstance(n_, ast.Call) and isinstance(n_.func, ast.Name) and n_.func.id == 'delattr' and mi_ is not mod and n_.args and \
                    isinstance(n_.args[0], ast.Attribute) and isinstance(n_.args[0].value, ast.Name) and n_.args[0].value.id in aliases_:
                swap = swap or (mi_, n_)
    if swap:
        mi_, n_ = swap
        cx.violation('R-NS', mi_.name, 'global-library-is-never-swapped-or-edited-from-outside',
                     f"{mi_.relpath}:{n_.lineno} writes into the tag module ({ast.unparse(n_)[:70]}): the global library's state is changed "
                     f"behind the library's own operations - ids are reissued, or names listed by itemize() no longer resolve",
                     where=f"{mi_.relpath}:{n_.lineno}")
    else:
        cx.ok('R-NS', 'no other module writes into the tag module or its global library', where=mod.relpath, function=mod.name)


def _rejects_class_names(cond, self_s, name) -> bool:
    """The success-path condition excludes every name that is bound on the class."""
    tys = [App('type', (self_s,)), Attr(self_s, '__class__'), self_s]
    for a in atoms_of(cond):
        if isinstance(a, ATruthy) and isinstance(a.t, App) and a.t.fn == 'hasattr' and a.t.args[1] == name and a.t.args[0] in tys:
            if implies(cond, f_not(a)) is None:
                return True
        if isinstance(a, AIn) and a.x == name and isinstance(a.container, App) and a.container.fn == 'dir' and a.container.args and \
                a.container.args[0] in tys:
            if implies(cond, f_not(a)) is None:
                return True
    return False


def _rejects_module_names(cond, name) -> bool:
    for a in atoms_of(cond):
        if isinstance(a, AIn) and a.x == name and isinstance(a.container, App) and a.container.fn in ('globals', 'dir', 'vars') :
            if implies(cond, f_not(a)) is None:
                return True
    return False
