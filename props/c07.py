"""C07 - same seed, same trajectory: independent of global state and of other models."""
from __future__ import annotations

import ast

from sa.report import Cx
from sa.walker import WalkOptions
from sa.terms import Sym, Attr, App, Fresh
from .common import CORE, BATCH, COLL, ENV

PID = 'C07'
EXPLANATION = (
    "R-ENTROPY is a static fact about references, enumerated over every module of the package on every run: no name or "
    "attribute chain resolves (through the import table) to module-level random.* other than the constructor random.Random, "
    "to numpy.random.*, time / datetime.now, os.urandom / getpid / environ / listdir, uuid, secrets, and no builtin hash() / "
    "id() call is used; iteration over a set / frozenset is reported only inside the trajectory closure (functions reachable "
    "in the call graph from execute_systems, add_agent, remove_agent, get_agents, get_random_agent, shuffle, the collectors "
    "and the two batch workers), where a hash-dependent order could reach an observable sequence. Every stochastic call (a "
    "method of a random.Random-typed receiver) has the receiver chain <...>.model.random; Model.random is written once, in "
    "Model.__init__, as random.Random(seed) with the unmodified constructor parameter. The containers whose order is "
    "observable are initialised with dict / list literals. Batch workers read no module-level mutable state. The expected "
    "number of entropy references is zero, so positive witnesses (edit operators that plant one) run in every tier.")
EXPLANATION += (' Batch workers: mutable module-level objects only (annotations, typing aliases, loggers and constants do not count). Premise: every run / repetition builds its own model (C15/C16 worker rules).')
EXPLANATION += (" Building and stepping a model (everything reachable from Model.__init__, Model.execute, execute_systems) reads no module-level mutable state; no package function calls seed() / setstate() on a model's generator; the batch drivers step through Model.execute (C15 / C16 rule).")
EXPLANATION += (" Premises: C20's per-class state (R-SHARED), C14's build() through C15 / C16.")
EXPLANATION += (" Importing the package executes no call statement at module level. Premise: C03's accessor / join-leave / registration rules.")
ASSUMPTIONS = ["random.Random(seed) is deterministic for a given seed (library)", "user systems are outside the package",
               "dict/list iteration order does not depend on PYTHONHASHSEED (language fact)"]

BAD_PREFIXES = ('numpy.random', 'time.', 'secrets', 'uuid', 'os.urandom', 'os.getpid', 'os.environ', 'os.listdir', 'os.scandir', 'os.times',
                'datetime.datetime.now', 'datetime.datetime.today', 'datetime.datetime.utcnow', 'datetime.date.today', 'random.SystemRandom')
ROOTS = [CORE + 'SystemManager.execute_systems', CORE + 'Environment.add_agent', CORE + 'Environment.remove_agent',
         CORE + 'Environment.get_agents', CORE + 'Environment.get_random_agent', CORE + 'Environment.shuffle',
         COLL + 'AgentCollector.collect', COLL + 'FileCollector.execute', COLL + 'Collector.execute',
         BATCH + '_run_model_for_batch', BATCH + '_run_model_for_search', BATCH + 'batch_run', BATCH + 'grid_search',
         ENV + 'SpaceWorld.add_agent', ENV + 'SpaceWorld.remove_agent', ENV + 'SpaceWorld.get_agents_at', ENV + 'SpaceWorld.move',
         ENV + 'DiscreteWorld.get_moore_neighbours', ENV + 'DiscreteWorld.get_neumann_neighbours']


def _enclosing(cx, mod, lineno):
    best = None
    for f in cx.prog.all_functions:
        if f.module is mod and f.node.lineno <= lineno <= (f.node.end_lineno or f.node.lineno):
            if best is None or f.node.lineno >= best.node.lineno:
                best = f
    return best


def run(cx: Cx):
    prog = cx.prog
    n_refs = 0
    n_checked = 0
    # ------------------------------------------------------------ clause 1: ambient entropy references
    for mod in prog.modules.values():
        for node in ast.walk(mod.tree):
            dotted = None
            if isinstance(node, (ast.Attribute, ast.Name)) and isinstance(getattr(node, 'ctx', None), ast.Load):
                r = prog.resolve_expr_static(node, mod)
                if r and r[0] == 'ext':
                    dotted = r[1]
            if dotted is None:
                continue
            n_checked += 1
            f = _enclosing(cx, mod, node.lineno)
            construct = f.qualname if f else mod.name
            where = f"{mod.relpath}:{node.lineno}"
            if dotted.startswith('random.') and dotted != 'random.Random':
                n_refs += 1
                cx.violation('R-ENTROPY', construct, f"no-global-random-{dotted.split('.', 1)[1]}",
                             f"{construct} references the process-wide generator `{dotted}`: the result depends on the global random "
                             f"state (and on every other model that draws from it), not on the model's seed", where=where)
            elif dotted == 'random' and not isinstance(node, ast.Name):
                pass
            elif any(dotted == b.rstrip('.') or dotted.startswith(b if b.endswith('.') else b + '.') or dotted == b for b in BAD_PREFIXES):
                n_refs += 1
                cx.violation('R-ENTROPY', construct, f"no-ambient-source-{dotted}",
                             f"{construct} references `{dotted}`, an ambient source of nondeterminism (clock, OS state, process-wide "
                             f"generator)", where=where)
        for node in ast.walk(mod.tree):
            if isinstance(node, ast.Name) and isinstance(node.ctx, ast.Load) and node.id in ('hash', 'id') and \
                    prog.resolve_name(node.id, mod) is None:
                f = _enclosing(cx, mod, node.lineno)
                if f is not None and node.id not in cx.ti.local_types(f):
                    n_refs += 1
                    cx.violation('R-ENTROPY', f.qualname, f"no-builtin-{node.id}",
                                 f"{f.qualname} uses builtin {node.id}: its value depends on the interpreter's hash seed / memory "
                                 f"layout", where=f"{mod.relpath}:{node.lineno}")
    cx.ok('R-ENTROPY', f"external references examined in all modules: {n_checked}; ambient entropy references: {n_refs}",
          where='ECAgent/', function='<package>', modules=sorted(m.relpath for m in prog.modules.values())) if n_refs == 0 else None

    # set iteration inside the trajectory closure
    roots = [prog.functions[q] for q in ROOTS if q in prog.functions]
    cx.floor('trajectory roots found', len(roots), 15)
    closure = cx.effects.reachable(roots)
    n_loops = 0
    for f in prog.all_functions:
        if cx.effects.key(f) not in closure:
            continue
        for node in ast.walk(f.node):
            iters = []
            if isinstance(node, ast.For):
                iters.append(node.iter)
            elif isinstance(node, (ast.ListComp, ast.GeneratorExp, ast.DictComp, ast.SetComp)):
                iters.extend(g.iter for g in node.generators)
            elif isinstance(node, ast.Call) and isinstance(node.func, ast.Name) and node.func.id in ('list', 'tuple', 'sorted', 'enumerate', 'iter', 'next') and node.args:
                iters.append(node.args[0])
            for it in iters:
                n_loops += 1
                if _is_set_expr(cx, f, it):
                    cx.violation('R-ENTROPY', f.qualname, 'no-set-iteration-in-the-trajectory',
                                 f"{f.qualname} iterates a set ({ast.unparse(it)[:60]}): the order depends on PYTHONHASHSEED and reaches the "
                                 f"trajectory", where=cx.where(f, it.lineno))
    cx.ok('R-ENTROPY', f"iterations examined inside the trajectory closure ({len(closure)} functions): {n_loops}; none over a set",
          where='ECAgent/', function='<trajectory closure>')

    # ------------------------------------------------------------ clause 2: stochastic calls use Model.random
    n_st = 0
    RNG_METHODS = {'random', 'randint', 'randrange', 'choice', 'choices', 'sample', 'shuffle', 'uniform', 'gauss', 'normalvariate',
                   'betavariate', 'expovariate', 'triangular', 'getrandbits', 'randbytes', 'lognormvariate', 'vonmisesvariate',
                   'gammavariate', 'paretovariate', 'weibullvariate', 'binomialvariate'}
    for k, calls in cx.effects.calls.items():
        for c in calls:
            cn = c.data.get('callee_name') or ''
            meth = cn.rsplit('.', 1)[-1]
            if meth not in RNG_METHODS or c.data.get('target_kind') not in ('ext', 'unknown') or c.data.get('recv') is None:
                continue
            if c.data.get('target_kind') == 'ext' and not (cn.startswith('random.') or cn.startswith('numpy.random')):
                continue        # a resolved non-random library method that happens to share a name
            n_st += 1
            recv = c.data.get('recv')
            fq = k
            fn = prog.functions.get(fq)
            good = isinstance(recv, Attr) and recv.name == 'random'
            if good:
                from sa.walker import _Ctx
                bt = _Ctx(cx.walker, fn, WalkOptions()).term_type(recv.base) if fn else None
                good = bool(bt and bt[0] == 'inst' and bt[1].qualname == CORE + 'Model')
            where = f"{fn.module.relpath}:{c.line}" if fn else ''
            if good:
                cx.ok('R-ENTROPY', f"{fq}: {meth} drawn from <model>.random", where=where, function=fq)
            else:
                cx.violation('R-ENTROPY', fq, f"stochastic-call-{meth}-uses-the-models-generator",
                             f"{fq} draws with .{meth}() from {recv!r}, which is not (always) the model's own generator Model.random: the "
                             f"draw can come from another generator whose state the seed does not determine", where=where)
    cx.floor('stochastic call sites', n_st, 2)
    rsites = cx.effects.sites_of((CORE + 'Model', 'random'))
    minit0 = cx.fn(CORE + 'Model.__init__')
    for s in rsites:
        v = s.ev.data.get('value')
        if s.owner_q == CORE + 'Model.__init__' and s.kind == 'rebind' and v in (App('call', (Sym('random.Random'), Sym('seed'))), App('.Random', (Sym('random'), Sym('seed')))):
            cx.ok('R-ENTROPY', 'Model.random = random.Random(seed), seed unmodified', where=s.where, function=s.fn.qualname)
        else:
            cx.violation('R-ENTROPY', s.fn.qualname, 'model-generator-is-Random-of-the-seed',
                         f"{s.describe()}: the model's generator must be created once as random.Random(seed) from the unmodified "
                         f"constructor argument (found {v!r})", where=s.where)
    cx.floor('Model.random write sites', len(rsites), 1)
    # ... and never rewound: the stream a model draws from is the one its constructor started (the constructor itself may already
    # have drawn from it - initial placement, endowments); seeding it again afterwards replays the constructor's draws
    n_calls = 0
    for k, calls in cx.effects.calls.items():
        kf = cx.prog.functions.get(k.split('#')[0])
        for c in calls:
            nm = str(c.data.get('callee_name', ''))
            recv = c.data.get('recv')
            n_calls += 1
            if nm.rsplit('.', 1)[-1] in ('seed', 'setstate') and isinstance(recv, Attr) and recv.name == 'random' and kf is not None:
                cx.violation('R-ENTROPY', kf.qualname, 'model-generator-never-reseeded',
                             f"{kf.qualname} calls .{nm.rsplit('.', 1)[-1]}() on {recv!r}: the model's generator is re-started after the "
                             f"constructor has drawn from it, so the run no longer continues the stream of Model(seed=s)",
                             where=cx.where(kf, c.line))
    if not any(o.key.endswith('model-generator-never-reseeded') for o in cx.violations()):
        cx.ok('R-ENTROPY', f"no package function re-seeds a model's generator ({n_calls} call events examined)", where=cx.where(minit0),
              function=minit0.qualname)
    # seed parameter not reassigned before use
    minit = cx.fn(CORE + 'Model.__init__')
    for n in ast.walk(minit.node):
        if isinstance(n, (ast.Assign, ast.AugAssign)) and any(isinstance(t, ast.Name) and t.id == 'seed' for t in
                                                                (n.targets if isinstance(n, ast.Assign) else [n.target])):
            cx.violation('R-ENTROPY', minit.qualname, 'seed-unmodified', "Model.__init__ rewrites its seed argument", where=cx.where(minit, n.lineno))

    # ------------------------------------------------------------ clause 3: ordered containers
    table = [(CORE + 'Environment', 'agents', 'dict'), (CORE + 'SystemManager', 'systems', 'dict'), (CORE + 'SystemManager', 'execution_queue', 'list'),
             (CORE + 'SystemManager', 'component_pools', 'dict'), (CORE + 'Agent', 'components', 'dict'), (COLL + 'Collector', 'records', 'list')]
    for cq, fld, kind in table:
        ci = prog.cls(cq)
        init = cx.ti.field_init(ci, fld)
        okc = False
        if init is not None:
            e = init[1]
            okc = isinstance(e, ast.Dict if kind == 'dict' else ast.List) or \
                (isinstance(e, ast.Call) and isinstance(e.func, ast.Name) and e.func.id == kind and not e.args)
        if okc:
            cx.ok('R-ENTROPY', f"{ci.name}.{fld} is an insertion-ordered {kind}", where=cx.where(init[0], init[1].lineno), function=init[0].qualname)
        else:
            cx.violation('R-ENTROPY', cq, f"{fld}-is-an-ordered-{kind}",
                         f"{cq}.{fld} is initialised with {ast.unparse(init[1]) if init else None}; its iteration order is observable "
                         f"(scheduling / listing / picking order) and must be insertion order", where=ci.where)
    # get_random_agent / shuffle draw from the get_agents list: C13 (R-FWD) - referenced, not repeated

    # ------------------------------------------------------------ clause 4: batch workers
    bm = cx.fn(BATCH + '_build_model_from_kwargs')
    from sa.walker import _Ctx, State
    kw = Sym(bm.params[1]) if len(bm.params) > 1 else None
    okb = False
    for p in cx.walker.paths(bm, WalkOptions(unroll=1, callee_raises=False)):
        v = p.last.data.get('value') if p.end == 'return' else None
        if isinstance(v, App) and dict(v.kw).get('**') == kw and not v.args[1:] and \
                (v.fn == 'call' or v.fn.startswith('new:')):
            okb = True
        else:
            okb = False
            cx.violation('R-ENTROPY', bm.qualname, 'model-built-from-the-passed-kwargs-unchanged',
                         f"_build_model_from_kwargs returns {v!r}: the model must be built as model_cls(**kwargs) from exactly the "
                         f"combination it was given (a dropped or rewritten `seed` makes the run unseeded)", where=cx.where(bm))
            break
    if okb:
        cx.ok('R-ENTROPY', '_build_model_from_kwargs == model_cls(**kwargs), kwargs unchanged', where=cx.where(bm), function=bm.qualname)

    for q in (BATCH + '_run_model_for_batch', BATCH + '_run_model_for_search', BATCH + '_build_model_from_kwargs'):
        f = cx.fn(q)
        mod = f.module
        from .common import module_state_reads
        bad = module_state_reads(f)
        if bad:
            cx.violation('R-ENTROPY', f.qualname, 'worker-reads-no-module-state', f"{f.name} reads module-level state "
                         f"({getattr(bad[0], 'id', 'global')}): a run depends on which runs the same worker process executed before",
                         where=cx.where(f, bad[0].lineno))
        else:
            cx.ok('R-ENTROPY', f"{f.name} reads no module-level mutable state", where=cx.where(f), function=f.qualname)
    # ... and so does stepping a model: a lock, a counter or a cache at module level is shared by every model of the process, so
    # what one model does depends on the other models being stepped in between
    roots = [cx.fn(CORE + 'Model.execute'), cx.fn(CORE + 'SystemManager.execute_systems'), cx.fn(CORE + 'Model.__init__')]
    reach = cx.effects.reachable(roots)
    n_st = 0
    for k in sorted(reach):
        f = cx.prog.functions.get(k.split('#')[0])
        if f is None:
            continue
        n_st += 1
        bad = module_state_reads(f)
        if bad:
            cx.violation('R-ENTROPY', f.qualname, 'stepping-reads-no-module-state',
                         f"{f.qualname}, which runs when a model is built or stepped, reads module-level mutable state "
                         f"({getattr(bad[0], 'id', 'global')}): all models of the process share it, so a trajectory depends on the other "
                         f"models built and stepped in between", where=cx.where(f, bad[0].lineno))
    if not any(o.key.endswith('stepping-reads-no-module-state') for o in cx.violations()):
        cx.ok('R-ENTROPY', f"building and stepping a model reads no module-level mutable state ({n_st} reachable functions examined)",
              where=cx.where(roots[1]), function=roots[1].qualname)
    from .common import check_import_has_no_side_effects
    check_import_has_no_side_effects(cx)
    _premises(cx)
    from .common import check_no_stateful_memo
    check_no_stateful_memo(cx)


def _is_set_expr(cx, f, e) -> bool:
    if isinstance(e, (ast.Set, ast.SetComp)):
        return True
    if isinstance(e, ast.Call) and isinstance(e.func, ast.Name) and e.func.id in ('set', 'frozenset') and e.func.id not in cx.ti.local_types(f):
        return True
    if isinstance(e, ast.Call) and isinstance(e.func, ast.Name) and e.func.id in ('list', 'tuple', 'iter', 'enumerate') and e.args:
        return _is_set_expr(cx, f, e.args[0])
    if isinstance(e, ast.Name):
        # a local bound to a set expression anywhere in the function
        for n in ast.walk(f.node):
            if isinstance(n, ast.Assign) and any(isinstance(t, ast.Name) and t.id == e.id for t in n.targets) and \
                    not isinstance(n.value, ast.Name) and _is_set_expr(cx, f, n.value):
                return True
    if isinstance(e, ast.BinOp) and isinstance(e.op, (ast.BitAnd, ast.BitOr, ast.Sub, ast.BitXor)):
        return _is_set_expr(cx, f, e.left) or _is_set_expr(cx, f, e.right)
    if isinstance(e, ast.Call) and isinstance(e.func, ast.Attribute) and e.func.attr in ('union', 'intersection', 'difference', 'symmetric_difference'):
        return True
    return False


def _premises(cx):
    from .common import include_premises
    # what the framework draws from: the candidate lists are C13's exact filters over the model's own agents (a filter that reads
    # class-level state other models can change hands the same seed different candidates)
    include_premises(cx, ['C13'], 'the candidates of a random pick / shuffle are a function of this model\'s state only',
                     only=lambda o: 'exact-template-and-tag-filter' in o.key or o.rule == 'R-FWD')
    _ACC3 = ('.get_component', '.has_component', '.__getitem__', 'Environment.add_agent', 'Environment.remove_agent', '.set_model',
             '.register_component', '.deregister_component')
    include_premises(cx, ['C03'], "what a model's systems read - an agent's components, the component listings - belongs to that model: "
                     "look-ups do not fall back to class-level state, joining and leaving (de)register with the environment's own model",
                     only=lambda o: (o.function or '').endswith(_ACC3))
    keep = ('fresh-model-per-run', 'one-score-of-own-model-per-repetition', 'no-module-level-state', 'work-list-is-product-times-repetitions',
            'evaluates-the-built-product-list', 'pool-arm-is-an-ordered-map', 'steps-through-Model.execute')
    include_premises(cx, ['C15', 'C16'], 'a run is reproducible from its seed, in whatever process it is executed, only if every run and '
                     'repetition builds its own model and the results of a sweep are attributed to their runs independently of worker timing',
                     only=lambda o: any(k in o.key for k in keep) or 'not a Pool created in this call' in o.message or 'pool of THREADS' in o.message
                     or (o.function or '').endswith('ParameterList.build'))
    # class-level state that runs read is per class: a table shared by all agent classes lets the set-up of an unrelated model
    # overwrite what a seeded run is using
    include_premises(cx, ['C20'], 'class components and default tags set up for one model\'s classes are not changed by another model\'s set-up',
                     only=lambda o: o.rule == 'R-SHARED' or (o.function or '').endswith('Agent.__init__'))
